//! Client-side helpers shared by scenarios: session construction from a swarm
//! configuration, marker statements, result checking.

use crate::cluster::{Cluster, KeyspaceDef, StmtDef, StmtKind, Strategy, TableDef};
use crate::tape;
use crate::wire::{CType, col};
use crate::world::NATIVE_PORT;
use scylla::client::PoolSize;
use scylla::client::execution_profile::ExecutionProfile;
use scylla::client::session::Session;
use scylla::client::session_builder::SessionBuilder;
use scylla::errors::{ExecutionError, NewSessionError};
use scylla::policies::retry::RetryPolicy;
use scylla::response::query_result::QueryResult;
use std::net::SocketAddr;
use std::num::NonZeroUsize;
use std::sync::Arc;
use std::time::Duration;

pub const KS: &str = "ks1";
pub const TABLE: &str = "t1";

pub fn q_marker(m: u64) -> String {
    format!("SELECT v FROM {KS}.{TABLE} WHERE m = {m}")
}
pub const Q_PREPARED_SELECT: &str = "SELECT v FROM ks1.t1 WHERE pk = ? AND m = ?";
pub const Q_PREPARED_INSERT: &str = "INSERT INTO ks1.t1 (pk, m) VALUES (?, ?)";
pub const Q_PREPARED_UPDATE: &str = "UPDATE ks1.t1 SET v = 1 WHERE pk = ? AND m = ?";
pub fn q_write_marker(m: u64) -> String {
    format!("UPDATE {KS}.{TABLE} SET v = 1 WHERE m = {m}")
}

/// Registers the standard keyspace/table and marker statements.
pub fn standard_catalog(c: &mut Cluster, strategy: Strategy, tablets: bool) {
    c.keyspaces.push(KeyspaceDef {
        name: KS.into(),
        strategy,
        tablets,
        tables: vec![TableDef {
            name: TABLE.into(),
            partitioner: Some("org.apache.cassandra.dht.Murmur3Partitioner".into()),
            view_of: None,
        }],
    });
    c.keyspaces.push(KeyspaceDef {
        name: "system".into(),
        strategy: Strategy::Local,
        tablets: false,
        tables: vec![],
    });
    let v = col(KS, TABLE, "v", CType::BigInt);
    c.catalog.push(StmtDef {
        shape: format!("SELECT v FROM {KS}.{TABLE} WHERE m = "),
        ks: KS.into(),
        table: TABLE.into(),
        kind: StmtKind::Select,
        bind_cols: vec![],
        pk_indexes: vec![],
        result_cols: vec![v.clone()],
        marker_bind: None,
        schema_version: 0,
        id_version: 0,
    });
    c.catalog.push(StmtDef {
        shape: format!("UPDATE {KS}.{TABLE} SET v = 1 WHERE m = "),
        ks: KS.into(),
        table: TABLE.into(),
        kind: StmtKind::Write,
        bind_cols: vec![],
        pk_indexes: vec![],
        result_cols: vec![],
        marker_bind: None,
        schema_version: 0,
        id_version: 0,
    });
    c.catalog.push(StmtDef {
        shape: Q_PREPARED_SELECT.into(),
        ks: KS.into(),
        table: TABLE.into(),
        kind: StmtKind::Select,
        bind_cols: vec![
            col(KS, TABLE, "pk", CType::BigInt),
            col(KS, TABLE, "m", CType::BigInt),
        ],
        pk_indexes: vec![0],
        result_cols: vec![v],
        marker_bind: Some(1),
        schema_version: 0,
        id_version: 0,
    });
    c.catalog.push(StmtDef {
        shape: Q_PREPARED_UPDATE.into(),
        ks: KS.into(),
        table: TABLE.into(),
        kind: StmtKind::Write,
        bind_cols: vec![
            col(KS, TABLE, "pk", CType::BigInt),
            col(KS, TABLE, "m", CType::BigInt),
        ],
        pk_indexes: vec![0],
        result_cols: vec![],
        marker_bind: Some(1),
        schema_version: 0,
        id_version: 0,
    });
    c.catalog.push(StmtDef {
        shape: Q_PREPARED_INSERT.into(),
        ks: KS.into(),
        table: TABLE.into(),
        kind: StmtKind::Write,
        bind_cols: vec![
            col(KS, TABLE, "pk", CType::BigInt),
            col(KS, TABLE, "m", CType::BigInt),
        ],
        pk_indexes: vec![0],
        result_cols: vec![],
        marker_bind: Some(1),
        schema_version: 0,
        id_version: 0,
    });
}

pub fn contact_point(node: usize) -> SocketAddr {
    SocketAddr::new(crate::cluster::node_ip(node), NATIVE_PORT)
}

#[derive(Clone)]
pub struct SessionCfg {
    pub contact_nodes: Vec<usize>,
    pub pool: PoolSize,
    pub disallow_shard_aware_port: bool,
    /// 0 = off, 1 = yield, n>=2 = (n-1) ms.
    pub coalescing: u64,
    pub keepalive_interval: Option<Duration>,
    pub keepalive_timeout: Option<Duration>,
    pub connect_timeout: Duration,
    pub request_timeout: Option<Duration>,
    pub fetch_schema: bool,
    pub refresh_interval: Duration,
    pub compression: Option<scylla::frame::Compression>,
    pub retry: Option<Arc<dyn RetryPolicy>>,
    pub profile: Option<ExecutionProfile>,
    /// Session-level location preference (SessionBuilder::prefer_datacenter[_and_rack]).
    pub prefer: Option<(String, Option<String>)>,
    /// Keyspace set at session creation (SessionBuilder::use_keyspace): (name, case sensitive).
    pub initial_keyspace: Option<(String, bool)>,
    /// Nodes (indexes) the session's host filter rejects (AllowListHostFilter over the
    /// addresses of all the others).
    pub filtered_out: Vec<usize>,
    /// A client-side (monotonic) timestamp generator is configured.
    pub timestamp_generator: bool,
    /// SessionBuilder::auto_await_schema_agreement(false).
    pub no_auto_schema_agreement: bool,
}

impl Default for SessionCfg {
    fn default() -> Self {
        SessionCfg {
            contact_nodes: vec![0],
            pool: PoolSize::PerHost(NonZeroUsize::new(1).unwrap()),
            disallow_shard_aware_port: false,
            coalescing: 1,
            keepalive_interval: None,
            keepalive_timeout: None,
            connect_timeout: Duration::from_secs(5),
            request_timeout: None,
            fetch_schema: false,
            refresh_interval: Duration::from_secs(60),
            compression: None,
            retry: None,
            profile: None,
            prefer: None,
            initial_keyspace: None,
            filtered_out: Vec::new(),
            timestamp_generator: false,
            no_auto_schema_agreement: false,
        }
    }
}

pub fn draw_compression() -> Option<scylla::frame::Compression> {
    match tape::weighted("cfg:compression", &[6, 1, 1]) {
        1 => Some(scylla::frame::Compression::Lz4),
        2 => Some(scylla::frame::Compression::Snappy),
        _ => None,
    }
}

pub async fn build_session(cfg: &SessionCfg) -> Result<Session, NewSessionError> {
    let mut b = SessionBuilder::new();
    for n in &cfg.contact_nodes {
        b = b.known_node_addr(contact_point(*n));
    }
    b = b
        .pool_size(cfg.pool.clone())
        .disallow_shard_aware_port(cfg.disallow_shard_aware_port)
        .connection_timeout(cfg.connect_timeout)
        .fetch_schema_metadata(cfg.fetch_schema)
        .fetch_full_schema_metadata(false)
        .cluster_metadata_refresh_interval(cfg.refresh_interval)
        .compression(cfg.compression)
        .hostname_resolution_timeout(None);
    b = match cfg.coalescing {
        0 => b.write_coalescing(false),
        1 => b.write_coalescing(true),
        n => b.write_coalescing_delay(
            scylla::client::WriteCoalescingDelay::Milliseconds(
                std::num::NonZeroU64::new(n - 1).unwrap(),
            ),
        ),
    };
    b = match cfg.keepalive_interval {
        Some(i) => b.keepalive_interval(i),
        None => b.keepalive_interval(Duration::from_secs(100_000)),
    };
    b = match cfg.keepalive_timeout {
        Some(t) => b.keepalive_timeout(t),
        None => b.keepalive_timeout(Duration::from_secs(100_000)),
    };
    let profile = match &cfg.profile {
        Some(p) => p.clone(),
        None => {
            let mut pb = ExecutionProfile::builder().request_timeout(cfg.request_timeout);
            if let Some(r) = &cfg.retry {
                pb = pb.retry_policy(r.clone());
            }
            pb.build()
        }
    };
    b = b.default_execution_profile_handle(profile.into_handle());
    b = match &cfg.prefer {
        Some((dc, Some(rack))) => b.prefer_datacenter_and_rack(dc.clone(), rack.clone()),
        Some((dc, None)) => b.prefer_datacenter(dc.clone()),
        None => b,
    };
    if cfg.no_auto_schema_agreement {
        b = b.auto_await_schema_agreement(false);
    }
    if cfg.timestamp_generator {
        b = b.timestamp_generator(Arc::new(scylla::policies::timestamp_generator::MonotonicTimestampGenerator::new()));
    }
    if !cfg.filtered_out.is_empty() {
        let allowed: Vec<SocketAddr> = (0..16).filter(|n| !cfg.filtered_out.contains(n)).map(contact_point).collect();
        b = b.host_filter(Arc::new(scylla::policies::host_filter::AllowListHostFilter::new(allowed).expect("addresses")));
    }
    if let Some((ks, cs)) = &cfg.initial_keyspace {
        b = b.use_keyspace(ks.clone(), *cs);
    }
    b.build().await
}

/// Checks that a successful marker SELECT returned exactly its own marker.
pub fn check_marker_rows(res: QueryResult, m: u64) -> Result<(), String> {
    let rows = res
        .into_rows_result()
        .map_err(|e| format!("marker {m}: result is not rows: {e}"))?;
    let got: Vec<i64> = rows
        .rows::<(i64,)>()
        .map_err(|e| format!("marker {m}: rows type check failed: {e}"))?
        .map(|r| r.map(|t| t.0))
        .collect::<Result<_, _>>()
        .map_err(|e| format!("marker {m}: row deserialization failed: {e}"))?;
    if got != vec![m as i64] {
        return Err(format!("request with marker {m} received rows {got:?}"));
    }
    Ok(())
}

pub fn short_err(e: &ExecutionError) -> String {
    let s = format!("{e}");
    s.chars().take(120).collect()
}

/// What the driver must decode for a cell the mock encoded (independent
/// statement of the expected value, built from the logical cell).
pub fn expected_cql(t: &CType, c: &crate::wire::Cell) -> Option<scylla::value::CqlValue> {
    use crate::wire::Cell;
    use scylla::value::{CqlTimestamp, CqlValue as V};
    Some(match (t, c) {
        (_, Cell::Null) => return None,
        (CType::Int, Cell::Int(v)) => V::Int(*v),
        (CType::BigInt, Cell::BigInt(v)) => V::BigInt(*v),
        (CType::Timestamp, Cell::BigInt(v)) => V::Timestamp(CqlTimestamp(*v)),
        (CType::SmallInt, Cell::SmallInt(v)) => V::SmallInt(*v),
        (CType::TinyInt, Cell::TinyInt(v)) => V::TinyInt(*v),
        (CType::Boolean, Cell::Boolean(v)) => V::Boolean(*v),
        (CType::Double, Cell::Double(v)) => V::Double(*v),
        (CType::Text, Cell::Text(s)) => V::Text(s.clone()),
        (CType::Ascii, Cell::Text(s)) => V::Ascii(s.clone()),
        (CType::Blob, Cell::Blob(b)) => V::Blob(b.clone()),
        (CType::Uuid, Cell::Uuid(u)) => V::Uuid(uuid::Uuid::from_bytes(*u)),
        (CType::Inet, Cell::Inet(ip)) => V::Inet(*ip),
        (CType::List(inner), Cell::List(items)) => {
            V::List(items.iter().map(|i| expected_cql(inner, i).unwrap_or(V::Empty)).collect())
        }
        (CType::Set(inner), Cell::List(items)) => {
            V::Set(items.iter().map(|i| expected_cql(inner, i).unwrap_or(V::Empty)).collect())
        }
        (CType::Map(k, v), Cell::Map(items)) => V::Map(
            items
                .iter()
                .map(|(a, b)| {
                    (
                        expected_cql(k, a).unwrap_or(V::Empty),
                        expected_cql(v, b).unwrap_or(V::Empty),
                    )
                })
                .collect(),
        ),
        (CType::Tuple(ts), Cell::Tuple(items)) => {
            V::Tuple(ts.iter().zip(items.iter()).map(|(t, i)| expected_cql(t, i)).collect())
        }
        (CType::Udt { ks, name, fields }, Cell::Tuple(items)) => V::UserDefinedType {
            keyspace: ks.clone(),
            name: name.clone(),
            fields: fields
                .iter()
                .zip(items.iter())
                .map(|((n, t), i)| (n.clone(), expected_cql(t, i)))
                .collect(),
        },
        _ => return None,
    })
}
