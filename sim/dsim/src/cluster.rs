//! The mock CQL cluster: model state, request handling, system tables.
//!
//! It behaves like a real server (an unparseable request gets a protocol
//! ERROR); verdicts come only from property-specific oracles and from the
//! generic monitors recorded under explicit oracle ids.

use crate::model;
use crate::tape;
use crate::wire::{self, *};
use crate::world::{ConnId, Ev, Fault, FrameRec, World, NATIVE_PORT, SHARD_AWARE_PORT};
use std::any::Any;
use std::collections::BTreeMap;
use std::net::{IpAddr, Ipv4Addr};

pub type NodeId = usize;

#[derive(Debug, Clone)]
pub struct NodeState {
    pub id: NodeId,
    pub host_id: [u8; 16],
    pub ip: IpAddr,
    pub dc: String,
    pub rack: String,
    pub tokens: Vec<i64>,
    /// 0 = not sharded (Cassandra-like).
    pub nr_shards: u32,
    pub msb_ignore: u8,
    pub up: bool,
    pub partitioned: bool,
    /// Listed in system.peers / system.local of the cluster.
    pub in_ring: bool,
    pub shard_aware_port_open: bool,
    pub nat_permille: u64,
    /// Prepared statement cache: id -> statement text.
    pub prepared: BTreeMap<Vec<u8>, String>,
    /// Until this virtual instant the node answers every system-table read with a server
    /// error (connections stay healthy, keep-alives are answered).
    pub system_queries_fail_until: u64,
}

#[derive(Debug, Clone)]
pub enum Strategy {
    Simple(usize),
    Nts(Vec<(String, usize)>),
    Local,
}

#[derive(Debug, Clone)]
pub struct TableDef {
    pub name: String,
    pub partitioner: Option<String>,
    /// Some(base table): this is a materialized view (listed in system_schema.views, not
    /// in system_schema.tables).
    pub view_of: Option<String>,
}

#[derive(Debug, Clone)]
pub struct KeyspaceDef {
    pub name: String,
    pub strategy: Strategy,
    pub tablets: bool,
    pub tables: Vec<TableDef>,
}

#[derive(Debug, Clone, Copy, PartialEq, Eq)]
pub enum StmtKind {
    Select,
    Write,
    Lwt,
}

/// A statement the mock understands. Unprepared statements are matched by
/// `shape` (the text up to a trailing decimal marker); prepared ones by text.
#[derive(Debug, Clone)]
pub struct StmtDef {
    pub shape: String,
    pub ks: String,
    pub table: String,
    pub kind: StmtKind,
    pub bind_cols: Vec<ColSpec>,
    pub pk_indexes: Vec<u16>,
    pub result_cols: Vec<ColSpec>,
    /// Index of the bound value that carries the request marker (bigint).
    pub marker_bind: Option<usize>,
    /// Bumped by schema changes: becomes part of the result metadata id.
    pub schema_version: u32,
    /// Bumped to make re-preparation yield a different statement id.
    pub id_version: u32,
}

#[derive(Debug, Clone)]
pub struct Features {
    pub tablets_ext: bool,
    pub metadata_id_ext: bool,
    /// Nodes that do not offer the metadata-id extension although `metadata_id_ext` is on
    /// (a cluster in the middle of a rolling upgrade).
    pub metadata_id_ext_except: Vec<NodeId>,
    pub lwt_ext: bool,
    /// Statements (by shape) whose PREPARED answer carries the LWT mark on connections
    /// that negotiated the extension.
    pub lwt_marked_shapes: Vec<String>,
    /// Statements prepared without result columns announce, in PREPARED, the very id of
    /// their real result metadata (which the first execution then announces again, together
    /// with the columns) instead of another one.
    pub hidden_cols_same_id: bool,
    pub rate_limit_ext: bool,
    pub compression: Vec<String>,
    pub auth: bool,
    pub advertise_shard_aware_port: bool,
    /// Per mille of Rows answers that carry their metadata although the client asked the
    /// node to skip it (skipping is a request, not an obligation).
    pub metadata_despite_skip_permille: u64,
}

impl Default for Features {
    fn default() -> Self {
        Features {
            tablets_ext: false,
            metadata_id_ext: false,
            metadata_id_ext_except: Vec::new(),
            lwt_ext: false,
            lwt_marked_shapes: Vec::new(),
            hidden_cols_same_id: false,
            rate_limit_ext: false,
            compression: vec!["lz4".into(), "snappy".into()],
            auth: false,
            advertise_shard_aware_port: true,
            metadata_despite_skip_permille: 0,
        }
    }
}

pub struct Cluster {
    pub name: String,
    pub nodes: Vec<NodeState>,
    pub keyspaces: Vec<KeyspaceDef>,
    pub features: Features,
    pub catalog: Vec<StmtDef>,
    /// Server think time per response, ns.
    pub think_min: u64,
    pub think_max: u64,
    /// Maximum rows per page of system-table answers (0 = honour the client).
    pub system_page_rows: usize,
    /// System-table reads may be answered with empty non-final pages (legal in CQL).
    pub system_empty_pages: bool,
    /// One-shot: the n-th next request for a LATER page of system.peers (one that carries
    /// a paging state) is answered by a connection reset instead of the page.
    pub reset_on_peers_page: Option<u32>,
    /// Extra delay of every answer to a system.peers read (a slow table: the other reads
    /// of a metadata fetch finish first).
    pub system_peers_extra_delay: u64,
    pub schema_version: [u8; 16],
    /// Every statement id ever handed out (observer's knowledge, independent of eviction).
    pub all_ids: BTreeMap<Vec<u8>, String>,
}

pub fn node_ip(i: usize) -> IpAddr {
    IpAddr::V4(Ipv4Addr::new(10, 0, (i / 200) as u8, (i % 200 + 1) as u8))
}

pub fn host_id_for(i: usize, generation: u32) -> [u8; 16] {
    let mut id = [0u8; 16];
    id[0] = 0xA0;
    id[1..5].copy_from_slice(&(i as u32).to_be_bytes());
    id[5..9].copy_from_slice(&generation.to_be_bytes());
    id[6] = (id[6] & 0x0f) | 0x40;
    id[8] = (id[8] & 0x3f) | 0x80;
    id[15] = 0x01;
    id
}

impl Cluster {
    pub fn new(name: &str) -> Self {
        Cluster {
            name: name.into(),
            nodes: Vec::new(),
            keyspaces: Vec::new(),
            features: Features::default(),
            catalog: Vec::new(),
            think_min: 50_000,
            think_max: 500_000,
            system_page_rows: 0,
            system_empty_pages: false,
            reset_on_peers_page: None,
            system_peers_extra_delay: 0,
            schema_version: [7u8; 16],
            all_ids: BTreeMap::new(),
        }
    }

    pub fn add_node(&mut self, dc: &str, rack: &str, nr_shards: u32, tokens: Vec<i64>) -> NodeId {
        let id = self.nodes.len();
        self.nodes.push(NodeState {
            id,
            host_id: host_id_for(id, 0),
            ip: node_ip(id),
            dc: dc.into(),
            rack: rack.into(),
            tokens,
            nr_shards,
            msb_ignore: 12,
            up: true,
            partitioned: false,
            in_ring: true,
            shard_aware_port_open: true,
            nat_permille: 0,
            prepared: BTreeMap::new(),
            system_queries_fail_until: 0,
        });
        id
    }

    pub fn node_by_ip(&self, ip: IpAddr) -> Option<NodeId> {
        self.nodes.iter().position(|n| n.ip == ip)
    }

    pub fn ring(&self) -> Vec<(i64, usize)> {
        let mut r: Vec<(i64, usize)> = self
            .nodes
            .iter()
            .filter(|n| n.in_ring)
            .flat_map(|n| n.tokens.iter().map(move |t| (*t, n.id)))
            .collect();
        r.sort();
        r
    }

    pub fn ring_nodes(&self) -> Vec<model::RingNode> {
        self.nodes
            .iter()
            .map(|n| model::RingNode {
                id: n.id,
                dc: n.dc.clone(),
                rack: n.rack.clone(),
            })
            .collect()
    }

    /// Replicas of a token in a (vnode) keyspace, by the independent model.
    pub fn replicas(&self, ks: &str, token: i64) -> Vec<NodeId> {
        let Some(k) = self.keyspaces.iter().find(|k| k.name == ks) else {
            return vec![];
        };
        let ring = self.ring();
        match &k.strategy {
            Strategy::Simple(rf) => model::simple_strategy(&ring, token, *rf),
            Strategy::Nts(dc_rf) => {
                model::network_topology_strategy(&ring, &self.ring_nodes(), token, dc_rf)
            }
            Strategy::Local => vec![],
        }
    }

    pub fn find_stmt(&self, text: &str) -> Option<usize> {
        // Leading whitespace is not part of a statement (requests may be padded with it).
        let text = text.trim_start();
        let (shape, _) = split_marker(text);
        self.catalog
            .iter()
            .position(|s| s.shape == text || s.shape == shape)
    }

    pub fn stmt_id(&self, text: &str) -> Vec<u8> {
        let v = self
            .find_stmt(text)
            .map(|i| self.catalog[i].id_version)
            .unwrap_or(0);
        let mut h = crate::rng::Fnv::default();
        h.str(text);
        h.u64(v as u64);
        let a = h.0;
        h.u64(0x1234);
        let b = h.0;
        let mut id = a.to_be_bytes().to_vec();
        id.extend_from_slice(&b.to_be_bytes());
        id
    }

    pub fn result_metadata_id(&self, stmt: &StmtDef) -> Vec<u8> {
        let mut h = crate::rng::Fnv::default();
        h.str(&stmt.shape);
        h.u64(stmt.schema_version as u64);
        for c in &stmt.result_cols {
            h.str(&c.name);
            h.str(&format!("{:?}", c.typ));
        }
        let a = h.0;
        h.u64(0x77);
        let b = h.0;
        let mut id = a.to_be_bytes().to_vec();
        id.extend_from_slice(&b.to_be_bytes());
        id
    }
}

/// Splits `... = 123` into (`... = `, Some(123)).
pub fn split_marker(text: &str) -> (&str, Option<u64>) {
    let trimmed = text.trim_end();
    let digits = trimmed
        .bytes()
        .rev()
        .take_while(|b| b.is_ascii_digit())
        .count();
    if digits == 0 || digits > 18 {
        return (text, None);
    }
    let (head, tail) = trimmed.split_at(trimmed.len() - digits);
    if !head.ends_with("= ") {
        return (text, None);
    }
    (head, tail.parse().ok())
}

#[derive(Debug, Clone)]
pub struct ReqInfo {
    pub seq: u64,
    pub t: u64,
    pub conn: ConnId,
    pub node: NodeId,
    pub shard: Option<u32>,
    pub stream: i16,
    pub opcode: u8,
    pub marker: Option<u64>,
    pub keyspace: Option<String>,
    pub is_control: bool,
    pub tracing: bool,
}

pub enum Reply {
    /// Built-in behaviour with a think time drawn from the tape.
    Default,
    /// Built-in behaviour after an explicit delay.
    DefaultAfter(u64),
    Raw {
        opcode: u8,
        body: Vec<u8>,
        env: Envelope,
        delay: u64,
    },
    Error {
        code: i32,
        msg: String,
        extra: Vec<u8>,
        delay: u64,
    },
    NoReply,
    /// Close the connection instead of answering.
    Close { rst: bool, delay: u64 },
}

pub trait Script: Send + 'static {
    fn on_connect(&mut self, _w: &mut World, _conn: ConnId) {}
    /// Every request frame that parsed, before it is processed.
    fn observe(&mut self, _w: &mut World, _rq: &ReqInfo, _req: &Request) {}
    /// User-level requests: QUERY (not system, not USE), PREPARE, EXECUTE, BATCH.
    fn on_user_request(&mut self, _w: &mut World, _rq: &ReqInfo, _req: &Request) -> Reply {
        Reply::Default
    }
    /// Handshake, REGISTER, system-table queries, USE.
    fn on_system_request(&mut self, _w: &mut World, _rq: &ReqInfo, _req: &Request) -> Reply {
        Reply::Default
    }
    /// Rows for a SELECT handled by the built-in behaviour.
    fn rows_for(&mut self, _w: &mut World, _rq: &ReqInfo, stmt: &StmtDef) -> Vec<Vec<Cell>> {
        default_rows(stmt, _rq.marker)
    }
    /// Called after the built-in behaviour answered a request.
    fn after_builtin(&mut self, _w: &mut World, _rq: &ReqInfo, _req: &Request) {}
    /// Extra envelope (custom payload, warnings) for a built-in answer.
    fn envelope_for(&mut self, _w: &mut World, _rq: &ReqInfo, _req: &Request) -> Envelope {
        Envelope::default()
    }
    fn as_any(&mut self) -> &mut dyn Any;
}

pub struct NoScript;
impl Script for NoScript {
    fn as_any(&mut self) -> &mut dyn Any {
        self
    }
}

pub fn default_rows(stmt: &StmtDef, marker: Option<u64>) -> Vec<Vec<Cell>> {
    let m = marker.unwrap_or(0) as i64;
    vec![stmt
        .result_cols
        .iter()
        .map(|c| default_cell(&c.typ, m))
        .collect()]
}

pub fn default_cell(t: &CType, m: i64) -> Cell {
    match t {
        CType::BigInt => Cell::BigInt(m),
        CType::Int => Cell::Int(m as i32),
        CType::Text | CType::Ascii => Cell::Text(format!("m{m}")),
        CType::Boolean => Cell::Boolean(m & 1 == 1),
        CType::Blob => Cell::Blob(m.to_be_bytes().to_vec()),
        CType::Double => Cell::Double(m as f64),
        CType::SmallInt => Cell::SmallInt(m as i16),
        CType::TinyInt => Cell::TinyInt(m as i8),
        CType::Uuid => {
            let mut u = [0u8; 16];
            u[8..].copy_from_slice(&m.to_be_bytes());
            Cell::Uuid(u)
        }
        CType::List(inner) | CType::Set(inner) => {
            Cell::List(vec![default_cell(inner, m), default_cell(inner, m + 1)])
        }
        CType::Map(k, v) => Cell::Map(vec![(default_cell(k, m), default_cell(v, m))]),
        CType::Tuple(ts) => Cell::Tuple(ts.iter().map(|t| default_cell(t, m)).collect()),
        CType::Udt { fields, .. } => {
            Cell::Tuple(fields.iter().map(|(_, t)| default_cell(t, m)).collect())
        }
        CType::Timestamp => Cell::BigInt(m),
        CType::Inet => Cell::Inet(node_ip(m as usize % 100)),
        CType::Raw(..) => Cell::Null,
    }
}

impl World {
    pub fn think(&mut self) -> u64 {
        tape::range("srv:think", self.cluster.think_min, self.cluster.think_max)
    }

    /// Encodes one server frame, applying the armed in-flight damage (C08) if
    /// this is the targeted frame. Returns (bytes, close_after).
    pub fn encode_frame(
        &mut self,
        conn: ConnId,
        stream: i16,
        opcode: u8,
        body: &[u8],
        env: &Envelope,
    ) -> (Vec<u8>, bool) {
        let compression = self.conns[conn].cql.compression;
        let idx = self.frames_out;
        self.frames_out += 1;
        let hit = matches!(&self.mutation, Some((target, _)) if *target == idx);
        if !hit {
            let bytes = wire::encode_response(stream, opcode, body, env, compression);
            if self.frame_lens.len() < 4096 {
                self.frame_lens.push(bytes.len());
            }
            return (bytes, false);
        }
        let (_, m) = self.mutation.take().unwrap();
        let body2 = m.apply_body(body);
        let clean = wire::encode_response(stream, opcode, &body2, env, compression);
        let (bytes, fin) = m.apply_wire(&clean);
        self.fault(Fault::Corrupt);
        self.mutation_fired = Some(format!(
            "frame#{idx} conn={conn} stream={stream} opcode={opcode:#x} len={} compressed={} {}",
            clean.len(),
            compression.is_some(),
            m.describe()
        ));
        self.log(&format!("mutated {}", self.mutation_fired.clone().unwrap()));
        crate::runner::note(&format!("mutated {}", self.mutation_fired.clone().unwrap()));
        (bytes, fin)
    }

    /// Schedules a response frame on `conn` after `delay`.
    pub fn respond(
        &mut self,
        conn: ConnId,
        stream: i16,
        opcode: u8,
        body: &[u8],
        env: &Envelope,
        delay: u64,
    ) {
        let (bytes, fin) = self.encode_frame(conn, stream, opcode, body, env);
        self.schedule(
            delay,
            Ev::SrvSend {
                conn,
                bytes,
                stream: Some(stream),
            },
        );
        if fin {
            self.schedule(delay, Ev::SrvClose { conn, rst: false });
        }
    }

    pub fn respond_error(&mut self, conn: ConnId, stream: i16, code: i32, msg: &str, extra: &[u8], delay: u64) {
        let body = wire::body_error(code, msg, extra);
        self.respond(conn, stream, OP_ERROR, &body, &Envelope::default(), delay);
    }

    /// Sends an EVENT frame to every connection registered for `kind`.
    pub fn broadcast_event(&mut self, kind: &str, body: Vec<u8>) {
        let targets: Vec<ConnId> = self
            .conns
            .iter()
            .filter(|c| !c.srv_closed && c.cql.registered.iter().any(|r| r == kind))
            .map(|c| c.id)
            .collect();
        for conn in targets {
            let (bytes, fin) = self.encode_frame(conn, -1, OP_EVENT, &body, &Envelope::default());
            let d = self.think();
            if fin {
                self.schedule(d, Ev::SrvClose { conn, rst: false });
            }
            self.schedule(
                d,
                Ev::SrvSend {
                    conn,
                    bytes,
                    stream: None,
                },
            );
        }
    }

    /// Node goes down: all its connections are reset, ports closed.
    pub fn crash_node(&mut self, node: NodeId) {
        self.cluster.nodes[node].up = false;
        self.fault(Fault::NodeCrash);
        self.log(&format!("node_crash node={node}"));
        for conn in self.live_conns_of(node) {
            self.srv_close_now(conn, true);
        }
    }

    /// Node comes back; the prepared cache is lost, shard count may change.
    pub fn restart_node(&mut self, node: NodeId, nr_shards: Option<u32>) {
        let n = &mut self.cluster.nodes[node];
        n.up = true;
        n.partitioned = false;
        n.prepared.clear();
        if let Some(s) = nr_shards {
            n.nr_shards = s;
        }
        self.fault(Fault::NodeRestart);
        self.log(&format!("node_restart node={node}"));
    }
}

fn supported_options(w: &World, conn: ConnId) -> Vec<(String, Vec<String>)> {
    let c = &w.conns[conn];
    let node = &w.cluster.nodes[c.node];
    let f = &w.cluster.features;
    let mut o: Vec<(String, Vec<String>)> = vec![
        ("CQL_VERSION".into(), vec!["3.4.5".into()]),
        ("COMPRESSION".into(), f.compression.clone()),
    ];
    if node.nr_shards > 0 {
        o.push(("SCYLLA_SHARD".into(), vec![c.shard.unwrap_or(0).to_string()]));
        o.push(("SCYLLA_NR_SHARDS".into(), vec![node.nr_shards.to_string()]));
        o.push((
            "SCYLLA_SHARDING_IGNORE_MSB".into(),
            vec![node.msb_ignore.to_string()],
        ));
        o.push((
            "SCYLLA_PARTITIONER".into(),
            vec!["org.apache.cassandra.dht.Murmur3Partitioner".into()],
        ));
        o.push((
            "SCYLLA_SHARDING_ALGORITHM".into(),
            vec!["biased-token-round-robin".into()],
        ));
        if f.advertise_shard_aware_port {
            o.push((
                "SCYLLA_SHARD_AWARE_PORT".into(),
                vec![SHARD_AWARE_PORT.to_string()],
            ));
        }
    }
    if f.tablets_ext {
        o.push(("TABLETS_ROUTING_V1".into(), vec!["".into()]));
    }
    if f.metadata_id_ext && !f.metadata_id_ext_except.contains(&c.node) {
        o.push(("SCYLLA_USE_METADATA_ID".into(), vec!["".into()]));
    }
    if f.lwt_ext {
        o.push((
            "SCYLLA_LWT_ADD_METADATA_MARK".into(),
            vec!["LWT_OPTIMIZATION_META_BIT_MASK=2147483648".into()],
        ));
    }
    if f.rate_limit_ext {
        o.push((
            "SCYLLA_RATE_LIMIT_ERROR".into(),
            vec!["ERROR_CODE=61440".into()],
        ));
    }
    o
}

pub fn handle_frame(w: &mut World, conn: ConnId, frame: ReqFrame) {
    let seq = w.next_seq();
    let t = w.now();
    let stream = frame.stream;
    let node = w.conns[conn].node;

    // Generic monitor: a stream id must not be carried by two requests that
    // are both unanswered by the server (C02 b) and must be non-negative (C02 c).
    if stream < 0 {
        w.violation(
            "c02.stream_id_range",
            format!("conn {conn}: request frame with negative stream id {stream}"),
        );
    } else if !w.conns[conn].cql.outstanding.insert(stream) {
        w.violation(
            "c02.stream_id_reuse",
            format!(
                "conn {conn}: stream id {stream} carried by a new request (opcode {:#x}) while an earlier request on it is still unanswered",
                frame.opcode
            ),
        );
    }

    if frame.version != 0x04 {
        w.violation(
            "c02.frame_wellformed",
            format!("conn {conn}: request frame with version byte {:#x}", frame.version),
        );
        w.respond_error(conn, stream, err::PROTOCOL_ERROR, "bad version", &[], 0);
        return;
    }
    let mut body = frame.body;
    if frame.flags & FLAG_COMPRESSION != 0 {
        match w.conns[conn].cql.compression {
            Some(c) => match wire::decompress(&body, c) {
                Ok(b) => body = b,
                Err(e) => {
                    w.violation(
                        "c02.frame_wellformed",
                        format!("conn {conn}: undecompressable request body: {}", e.0),
                    );
                    w.respond_error(conn, stream, err::PROTOCOL_ERROR, "bad compression", &[], 0);
                    return;
                }
            },
            None => {
                w.respond_error(conn, stream, err::PROTOCOL_ERROR, "compression not negotiated", &[], 0);
                return;
            }
        }
    }
    let md_ext = w.conns[conn].cql.metadata_id_ext;
    let req = match wire::parse_request(frame.opcode, &body, md_ext) {
        Ok(r) => r,
        Err(e) => {
            w.violation(
                "c02.frame_wellformed",
                format!("conn {conn}: unparseable request opcode {:#x}: {}", frame.opcode, e.0),
            );
            w.respond_error(conn, stream, err::PROTOCOL_ERROR, &e.0, &[], 0);
            return;
        }
    };

    let marker = marker_of(w, node, &req);
    if let Some(m) = marker {
        w.conns[conn].cql.outstanding_markers.insert(stream, m);
    }
    let rq = ReqInfo {
        seq,
        t,
        conn,
        node,
        shard: w.conns[conn].shard,
        stream,
        opcode: frame.opcode,
        marker,
        keyspace: w.conns[conn].cql.keyspace.clone(),
        is_control: !w.conns[conn].cql.registered.is_empty(),
        tracing: frame.flags & FLAG_TRACING != 0,
    };
    w.frames.push(FrameRec {
        seq,
        t,
        conn,
        node,
        shard: rq.shard,
        stream,
        opcode: frame.opcode,
        marker,
        keyspace: rq.keyspace.clone(),
        is_control: rq.is_control,
    });
    w.log(&format!(
        "frame conn={conn} node={node} stream={stream} op={:#x} marker={marker:?}",
        frame.opcode
    ));

    let mut script = w.script.take().unwrap_or_else(|| Box::new(NoScript));
    script.observe(w, &rq, &req);
    let system = is_system_request(w, node, &req);
    let reply = if system {
        script.on_system_request(w, &rq, &req)
    } else {
        w.conns[conn].cql.user_requests += 1;
        script.on_user_request(w, &rq, &req)
    };
    match reply {
        Reply::Default => {
            let d = w.think();
            w.last_rows_answer = None;
            builtin(w, &mut *script, &rq, &req, d);
            script.after_builtin(w, &rq, &req);
        }
        Reply::DefaultAfter(d) => {
            w.last_rows_answer = None;
            builtin(w, &mut *script, &rq, &req, d);
            script.after_builtin(w, &rq, &req);
        }
        Reply::Raw {
            opcode,
            body,
            env,
            delay,
        } => w.respond(conn, stream, opcode, &body, &env, delay),
        Reply::Error {
            code,
            msg,
            extra,
            delay,
        } => {
            w.fault(Fault::SrvError);
            w.respond_error(conn, stream, code, &msg, &extra, delay)
        }
        Reply::NoReply => {
            w.fault(Fault::NoReply);
        }
        Reply::Close { rst, delay } => {
            w.fault(if rst { Fault::Rst } else { Fault::Fin });
            w.schedule(delay, Ev::SrvClose { conn, rst });
        }
    }
    w.script = Some(script);
}

fn is_system_request(w: &World, node: NodeId, req: &Request) -> bool {
    match req {
        Request::Startup(_)
        | Request::Options
        | Request::AuthResponse(_)
        | Request::Register(_) => true,
        Request::Query { text, .. } => is_system_query(text) || parse_use(text).is_some(),
        Request::Prepare { text } => is_system_query(text),
        Request::Execute { id, .. } => w.cluster.nodes[node]
            .prepared
            .get(id)
            .map(|t| is_system_query(t))
            .unwrap_or(false),
        _ => false,
    }
}

fn is_system_query(text: &str) -> bool {
    let l = text.to_ascii_lowercase();
    l.contains(" from system.") || l.contains(" from system_schema.")
}

/// `USE ks` / `USE "Ks"` -> the keyspace name as the server would report it.
pub fn parse_use(text: &str) -> Option<String> {
    let t = text.trim();
    if t.len() < 4 || !t[..4].eq_ignore_ascii_case("use ") {
        return None;
    }
    let name = t[4..].trim().trim_end_matches(';').trim();
    if let Some(inner) = name.strip_prefix('"').and_then(|n| n.strip_suffix('"')) {
        Some(inner.to_string())
    } else {
        Some(name.to_ascii_lowercase())
    }
}

fn marker_of(w: &World, node: NodeId, req: &Request) -> Option<u64> {
    match req {
        Request::Query { text, .. } => split_marker(text).1,
        Request::Prepare { text } => split_marker(text).1,
        Request::Execute { id, params, .. } => {
            let text = w.cluster.nodes[node].prepared.get(id).or_else(|| w.cluster.all_ids.get(id))?;
            let stmt = &w.cluster.catalog[w.cluster.find_stmt(text)?];
            let idx = stmt.marker_bind?;
            match params.values.get(idx)? {
                Value::Bytes(b) if b.len() == 8 => {
                    Some(i64::from_be_bytes(b[..].try_into().unwrap()) as u64)
                }
                Value::Bytes(b) if b.len() == 4 => {
                    Some(i32::from_be_bytes(b[..].try_into().unwrap()) as u64)
                }
                _ => None,
            }
        }
        Request::Batch(b) => {
            for (stmt, values) in &b.statements {
                let text = match stmt {
                    BatchStmt::Query(t) => t.clone(),
                    BatchStmt::Prepared(id) => match w.cluster.nodes[node].prepared.get(id).or_else(|| w.cluster.all_ids.get(id)) {
                        Some(t) => t.clone(),
                        None => continue,
                    },
                };
                if let Some(m) = split_marker(&text).1 {
                    return Some(m);
                }
                if let Some(i) = w.cluster.find_stmt(&text) {
                    if let Some(idx) = w.cluster.catalog[i].marker_bind {
                        if let Some(Value::Bytes(b)) = values.get(idx) {
                            if b.len() == 8 {
                                return Some(i64::from_be_bytes(b[..].try_into().unwrap()) as u64);
                            }
                        }
                    }
                }
            }
            None
        }
        _ => None,
    }
}

/// Built-in server behaviour.
pub fn builtin(w: &mut World, script: &mut dyn Script, rq: &ReqInfo, req: &Request, delay: u64) {
    let conn = rq.conn;
    let stream = rq.stream;
    let none = Envelope::default();
    match req {
        Request::Options => {
            w.conns[conn].cql.options_seen = true;
            let body = wire::body_supported(&supported_options(w, conn));
            w.respond(conn, stream, OP_SUPPORTED, &body, &none, delay);
        }
        Request::Startup(opts) => {
            let mut compression = None;
            for (k, v) in opts {
                match k.as_str() {
                    "COMPRESSION" => {
                        compression = match v.as_str() {
                            "lz4" => Some(wire::Compression::Lz4),
                            "snappy" => Some(wire::Compression::Snappy),
                            _ => None,
                        }
                    }
                    "SCYLLA_USE_METADATA_ID" => w.conns[conn].cql.metadata_id_ext = true,
                    "TABLETS_ROUTING_V1" => w.conns[conn].cql.tablets_ext = true,
                    "SCYLLA_LWT_ADD_METADATA_MARK" => w.conns[conn].cql.lwt_ext = true,
                    "SCYLLA_RATE_LIMIT_ERROR" => w.conns[conn].cql.rate_limit_ext = true,
                    _ => {}
                }
            }
            w.conns[conn].cql.started = true;
            if w.cluster.features.auth {
                let mut b = W::new();
                b.string("org.apache.cassandra.auth.PasswordAuthenticator");
                // The answer to STARTUP itself is not compressed.
                w.respond(conn, stream, OP_AUTHENTICATE, &b.buf, &none, delay);
            } else {
                w.respond(conn, stream, OP_READY, &[], &none, delay);
            }
            // Compression applies to frames after STARTUP.
            w.conns[conn].cql.compression = compression;
        }
        Request::AuthResponse(_) => {
            w.conns[conn].cql.authenticated = true;
            let mut b = W::new();
            b.bytes(None);
            w.respond(conn, stream, OP_AUTH_SUCCESS, &b.buf, &none, delay);
        }
        Request::Register(kinds) => {
            w.conns[conn].cql.registered = kinds.clone();
            w.respond(conn, stream, OP_READY, &[], &none, delay);
        }
        Request::Query { text, params } => {
            if let Some(ks) = parse_use(text) {
                if w.cluster.keyspaces.iter().any(|k| k.name == ks)
                    || ks.starts_with("system")
                {
                    // The keyspace is in force once the server has processed the USE.
                    w.conns[conn].cql.keyspace = Some(ks.clone());
                    w.log(&format!("use conn={conn} ks={ks}"));
                    let body = wire::body_set_keyspace(&ks);
                    w.respond(conn, stream, OP_RESULT, &body, &none, delay);
                } else {
                    w.respond_error(
                        conn,
                        stream,
                        err::INVALID,
                        &format!("Keyspace '{ks}' does not exist"),
                        &[],
                        delay,
                    );
                }
                return;
            }
            if is_system_query(text) {
                system_query(w, rq, text, params, false, delay);
                return;
            }
            let Some(idx) = w.cluster.find_stmt(text) else {
                w.respond_error(conn, stream, err::INVALID, "unknown statement", &[], delay);
                return;
            };
            let stmt = w.cluster.catalog[idx].clone();
            answer_statement(w, script, rq, req, &stmt, params, false, delay);
        }
        Request::Prepare { text } if is_system_query(text) => {
            let cols = match system_table(w, rq.node, text) {
                Ok((cols, _)) => cols,
                Err(msg) => {
                    w.respond_error(conn, stream, err::INVALID, &msg, &[], delay);
                    return;
                }
            };
            let id = w.cluster.stmt_id(text);
            w.cluster.nodes[rq.node]
                .prepared
                .insert(id.clone(), text.clone());
            let bind_cols: Vec<ColSpec> = if text.to_ascii_lowercase().contains(" in ?") {
                vec![col(
                    &cols[0].ks,
                    &cols[0].table,
                    "keyspace_name",
                    CType::List(Box::new(CType::Text)),
                )]
            } else {
                vec![]
            };
            let mut h = crate::rng::Fnv::default();
            h.str(text);
            let mid = h.0.to_be_bytes().repeat(2);
            let md_ext = w.conns[conn].cql.metadata_id_ext;
            let body = wire::body_prepared(&PreparedBody {
                id: &id,
                result_metadata_id: if md_ext { Some(&mid) } else { None },
                bind_cols: &bind_cols,
                pk_indexes: &[],
                result_cols: &cols,
                lwt_mark: false,
            });
            w.respond(conn, stream, OP_RESULT, &body, &none, delay);
        }
        Request::Prepare { text } => {
            let Some(idx) = w.cluster.find_stmt(text) else {
                w.respond_error(conn, stream, err::INVALID, "unknown statement", &[], delay);
                return;
            };
            let stmt = w.cluster.catalog[idx].clone();
            let id = w.cluster.stmt_id(text);
            w.cluster.nodes[rq.node]
                .prepared
                .insert(id.clone(), text.clone());
            w.cluster.all_ids.insert(id.clone(), text.clone());
            let mid = w.cluster.result_metadata_id(&stmt);
            let md_ext = w.conns[conn].cql.metadata_id_ext;
            // Conditional statements are prepared without result columns (the node only
            // knows the columns of the "[applied]" row when it executes them).
            let hide_result_cols = stmt.kind == StmtKind::Lwt;
            // ... and the metadata id announced with the (empty) prepared metadata is not
            // the id of the real result metadata: the first execution learns the real one.
            let mid = if hide_result_cols && !w.cluster.features.hidden_cols_same_id {
                let mut m = mid.clone();
                if let Some(b) = m.first_mut() {
                    *b ^= 0xff;
                }
                m
            } else {
                mid
            };
            let body = wire::body_prepared(&PreparedBody {
                id: &id,
                result_metadata_id: if md_ext { Some(&mid) } else { None },
                bind_cols: &stmt.bind_cols,
                pk_indexes: &stmt.pk_indexes,
                result_cols: if hide_result_cols { &[] } else { &stmt.result_cols },
                lwt_mark: w.conns[conn].cql.lwt_ext && w.cluster.features.lwt_marked_shapes.iter().any(|s| *s == stmt.shape),
            });
            let mut env = Envelope::default();
            if stmt.kind == StmtKind::Lwt && w.conns[conn].cql.lwt_ext {
                // The LWT mark lives in the prepared metadata flags in ScyllaDB;
                // this mock does not set it (not needed by any oracle).
                env.extra_flags = 0;
            }
            w.log(&format!("prepared conn={conn} node={} text={text:?}", rq.node));
            w.respond(conn, stream, OP_RESULT, &body, &env, delay);
        }
        Request::Execute { id, params, .. } => {
            let Some(text) = w.cluster.nodes[rq.node].prepared.get(id).cloned() else {
                w.probe("unprepared_sent");
                let mut x = W::new();
                x.short_bytes(id);
                w.respond_error(conn, stream, err::UNPREPARED, "unprepared", &x.buf, delay);
                return;
            };
            if is_system_query(&text) {
                system_query(w, rq, &text, params, true, delay);
                return;
            }
            let Some(idx) = w.cluster.find_stmt(&text) else {
                w.respond_error(conn, stream, err::INVALID, "unknown statement", &[], delay);
                return;
            };
            let stmt = w.cluster.catalog[idx].clone();
            answer_statement(w, script, rq, req, &stmt, params, true, delay);
        }
        Request::Batch(b) => {
            for (stmt, _) in &b.statements {
                if let BatchStmt::Prepared(id) = stmt {
                    if !w.cluster.nodes[rq.node].prepared.contains_key(id) {
                        w.probe("unprepared_sent");
                        let mut x = W::new();
                        x.short_bytes(id);
                        w.respond_error(conn, stream, err::UNPREPARED, "unprepared", &x.buf, delay);
                        return;
                    }
                }
            }
            let env = script.envelope_for(w, rq, req);
            w.respond(conn, stream, OP_RESULT, &wire::body_void(), &env, delay);
        }
    }
}

#[allow(clippy::too_many_arguments)]
fn answer_statement(
    w: &mut World,
    script: &mut dyn Script,
    rq: &ReqInfo,
    req: &Request,
    stmt: &StmtDef,
    params: &QueryParams,
    prepared: bool,
    delay: u64,
) {
    let env = script.envelope_for(w, rq, req);
    match stmt.kind {
        StmtKind::Write | StmtKind::Lwt if stmt.result_cols.is_empty() => {
            w.respond(rq.conn, rq.stream, OP_RESULT, &wire::body_void(), &env, delay);
        }
        _ => {
            let rows = script.rows_for(w, rq, stmt);
            // Paging: honour the client's page size; paging state = row offset.
            let offset = params
                .paging_state
                .as_ref()
                .and_then(|ps| ps.get(..8).map(|b| u64::from_be_bytes(b.try_into().unwrap()) as usize))
                .unwrap_or(0)
                .min(rows.len());
            let page = match params.page_size {
                Some(ps) if ps > 0 => (ps as usize).min(rows.len() - offset),
                _ => rows.len() - offset,
            };
            let end = offset + page;
            let paging_state = if end < rows.len() {
                Some((end as u64).to_be_bytes().to_vec())
            } else {
                None
            };
            // With the metadata-id extension the server compares the id presented by
            // the EXECUTE with the current one and, on mismatch, sends the metadata
            // together with the new id (whatever skip_metadata says).
            let mut no_metadata = prepared && params.skip_metadata;
            if no_metadata
                && w.cluster.features.metadata_despite_skip_permille > 0
                && crate::tape::chance("srv:metadata_despite_skip", w.cluster.features.metadata_despite_skip_permille, 1000)
            {
                no_metadata = false;
                w.probe("metadata_sent_despite_skip");
            }
            let mut new_metadata_id = None;
            if prepared && w.conns[rq.conn].cql.metadata_id_ext {
                if let Request::Execute { result_metadata_id: Some(presented), .. } = req {
                    let current = w.cluster.result_metadata_id(stmt);
                    if *presented != current {
                        no_metadata = false;
                        new_metadata_id = Some(current);
                        w.probe("metadata_id_mismatch");
                    }
                }
            }
            w.last_rows_answer = Some((stmt.schema_version, !no_metadata));
            let body = wire::body_rows(
                &stmt.result_cols,
                &rows[offset..end],
                &RowsOpts {
                    no_metadata,
                    paging_state,
                    new_metadata_id,
                },
            );
            w.respond(rq.conn, rq.stream, OP_RESULT, &body, &env, delay);
        }
    }
}

// ---------------------------------------------------------------------------
// System tables

fn text_cell(s: &str) -> Cell {
    Cell::Text(s.to_string())
}

fn system_query(
    w: &mut World,
    rq: &ReqInfo,
    text: &str,
    params: &QueryParams,
    prepared: bool,
    delay: u64,
) {
    let conn = rq.conn;
    let delay = if text.to_ascii_lowercase().contains("from system.peers") { delay + w.cluster.system_peers_extra_delay } else { delay };
    if w.now() < w.cluster.nodes[rq.node].system_queries_fail_until {
        w.probe("system_query_failed");
        w.respond_error(conn, rq.stream, err::SERVER_ERROR, "metadata subsystem unavailable", &[], delay);
        return;
    }
    if params.paging_state.is_some() && text.to_ascii_lowercase().contains("from system.peers") {
        if let Some(n) = w.cluster.reset_on_peers_page {
            if n == 0 {
                w.cluster.reset_on_peers_page = None;
                w.fault(Fault::Rst);
                w.probe("reset_instead_of_later_peers_page");
                w.log(&format!("reset_instead_of_peers_page conn={conn}"));
                w.srv_close_now(conn, true);
                return;
            }
            w.cluster.reset_on_peers_page = Some(n - 1);
        }
    }
    let (cols, rows) = match system_table(w, rq.node, text) {
        Ok(x) => x,
        Err(msg) => {
            w.respond_error(conn, rq.stream, err::INVALID, &msg, &[], delay);
            return;
        }
    };
    // Paging of system answers (exercises the control-connection pager).
    let offset = params
        .paging_state
        .as_ref()
        .and_then(|ps| ps.get(..8).map(|b| u64::from_be_bytes(b.try_into().unwrap()) as usize))
        .unwrap_or(0)
        .min(rows.len());
    let mut page = rows.len() - offset;
    if let Some(ps) = params.page_size {
        if ps > 0 {
            page = page.min(ps as usize);
        }
    }
    if w.cluster.system_page_rows > 0 {
        page = page.min(w.cluster.system_page_rows);
    }
    // An empty page that is not the last one: the state keeps the offset and counts the
    // empty pages served in a row (at most 2).
    let empties = params.paging_state.as_ref().and_then(|ps| ps.get(8).copied()).unwrap_or(0);
    let serve_empty = w.cluster.system_empty_pages
        && offset < rows.len()
        && empties < 2
        && crate::tape::chance("sys:empty_page", 1, 3);
    if serve_empty {
        page = 0;
        w.probe("system_empty_page");
    }
    let end = offset + page;
    let paging_state = if serve_empty {
        let mut st = (end as u64).to_be_bytes().to_vec();
        st.push(empties + 1);
        Some(st)
    } else if end < rows.len() {
        Some((end as u64).to_be_bytes().to_vec())
    } else {
        None
    };
    if text.to_ascii_lowercase().contains("from system.peers") {
        let now = w.now();
        if params.paging_state.is_none() {
            w.peers_fetch_started.insert(conn, now);
        }
        if paging_state.is_none() {
            if let Some(start) = w.peers_fetch_started.remove(&conn) {
                w.peers_fetches.push((start, now + delay));
            }
        }
    }
    let body = wire::body_rows(
        &cols,
        &rows[offset..end],
        &RowsOpts {
            no_metadata: prepared && params.skip_metadata,
            paging_state,
            new_metadata_id: None,
        },
    );
    w.respond(conn, rq.stream, OP_RESULT, &body, &Envelope::default(), delay);
}

#[allow(clippy::type_complexity)]
fn system_table(
    w: &World,
    me: NodeId,
    text: &str,
) -> Result<(Vec<ColSpec>, Vec<Vec<Cell>>), String> {
    let l = text.to_ascii_lowercase();
    let (cols, rows): (Vec<ColSpec>, Vec<Vec<Cell>>) = if l.contains("from system.peers") {
        let cols = vec![
            col("system", "peers", "host_id", CType::Uuid),
            col("system", "peers", "rpc_address", CType::Inet),
            col("system", "peers", "data_center", CType::Text),
            col("system", "peers", "rack", CType::Text),
            col("system", "peers", "tokens", CType::Set(Box::new(CType::Text))),
        ];
        let rows = w
            .cluster
            .nodes
            .iter()
            .filter(|n| n.id != me && n.in_ring)
            .map(|n| {
                vec![
                    Cell::Uuid(n.host_id),
                    Cell::Inet(n.ip),
                    text_cell(&n.dc),
                    text_cell(&n.rack),
                    // A zero-token node reports a null token set.
                    if n.tokens.is_empty() { Cell::Null } else { Cell::List(n.tokens.iter().map(|t| text_cell(&t.to_string())).collect()) },
                ]
            })
            .collect();
        (cols, rows)
    } else if l.contains("from system.local") {
        let n = &w.cluster.nodes[me];
        if l.contains("schema_version") {
            (
                vec![col("system", "local", "schema_version", CType::Uuid)],
                vec![vec![Cell::Uuid(w.cluster.schema_version)]],
            )
        } else if l.contains("rpc_address") {
            (
                vec![
                    col("system", "local", "host_id", CType::Uuid),
                    col("system", "local", "rpc_address", CType::Inet),
                    col("system", "local", "data_center", CType::Text),
                    col("system", "local", "rack", CType::Text),
                    col("system", "local", "tokens", CType::Set(Box::new(CType::Text))),
                    col("system", "local", "cluster_name", CType::Text),
                ],
                vec![vec![
                    Cell::Uuid(n.host_id),
                    Cell::Inet(n.ip),
                    text_cell(&n.dc),
                    text_cell(&n.rack),
                    if n.tokens.is_empty() { Cell::Null } else { Cell::List(n.tokens.iter().map(|t| text_cell(&t.to_string())).collect()) },
                    text_cell(&w.cluster.name),
                ]],
            )
        } else {
            (
                vec![col("system", "local", "host_id", CType::Uuid)],
                vec![vec![Cell::Uuid(n.host_id)]],
            )
        }
    } else if l.contains("from system_schema.keyspaces") {
        let cols = vec![
            col("system_schema", "keyspaces", "keyspace_name", CType::Text),
            col(
                "system_schema",
                "keyspaces",
                "replication",
                CType::Map(Box::new(CType::Text), Box::new(CType::Text)),
            ),
            col("system_schema", "keyspaces", "durable_writes", CType::Boolean),
        ];
        let rows = w
            .cluster
            .keyspaces
            .iter()
            .map(|k| {
                let repl: Vec<(Cell, Cell)> = match &k.strategy {
                    Strategy::Simple(rf) => vec![
                        (
                            text_cell("class"),
                            text_cell("org.apache.cassandra.locator.SimpleStrategy"),
                        ),
                        (text_cell("replication_factor"), text_cell(&rf.to_string())),
                    ],
                    Strategy::Nts(dcs) => {
                        let mut v = vec![(
                            text_cell("class"),
                            text_cell("org.apache.cassandra.locator.NetworkTopologyStrategy"),
                        )];
                        for (dc, rf) in dcs {
                            v.push((text_cell(dc), text_cell(&rf.to_string())));
                        }
                        v
                    }
                    Strategy::Local => vec![(
                        text_cell("class"),
                        text_cell("org.apache.cassandra.locator.LocalStrategy"),
                    )],
                };
                vec![text_cell(&k.name), Cell::Map(repl), Cell::Boolean(true)]
            })
            .collect();
        (cols, rows)
    } else if l.contains("from system_schema.tables") {
        let cols = vec![
            col("system_schema", "tables", "keyspace_name", CType::Text),
            col("system_schema", "tables", "table_name", CType::Text),
        ];
        let rows = w
            .cluster
            .keyspaces
            .iter()
            .flat_map(|k| {
                k.tables
                    .iter()
                    .filter(|t| t.view_of.is_none())
                    .map(move |t| vec![text_cell(&k.name), text_cell(&t.name)])
            })
            .collect();
        (cols, rows)
    } else if l.contains("from system_schema.views") {
        let rows = w
            .cluster
            .keyspaces
            .iter()
            .flat_map(|k| {
                k.tables
                    .iter()
                    .filter_map(move |t| t.view_of.as_ref().map(|base| vec![text_cell(&k.name), text_cell(&t.name), text_cell(base)]))
            })
            .collect();
        (
            vec![
                col("system_schema", "views", "keyspace_name", CType::Text),
                col("system_schema", "views", "view_name", CType::Text),
                col("system_schema", "views", "base_table_name", CType::Text),
            ],
            rows,
        )
    } else if l.contains("from system_schema.scylla_tables") {
        if w.cluster.nodes[me].nr_shards == 0 {
            return Err("unconfigured table scylla_tables".into());
        }
        let cols = vec![
            col("system_schema", "scylla_tables", "keyspace_name", CType::Text),
            col("system_schema", "scylla_tables", "table_name", CType::Text),
            col("system_schema", "scylla_tables", "partitioner", CType::Text),
        ];
        let rows = w
            .cluster
            .keyspaces
            .iter()
            .flat_map(|k| {
                k.tables.iter().map(move |t| {
                    vec![
                        text_cell(&k.name),
                        text_cell(&t.name),
                        match &t.partitioner {
                            Some(p) => text_cell(p),
                            None => Cell::Null,
                        },
                    ]
                })
            })
            .collect();
        (cols, rows)
    } else if l.contains("from system_schema.scylla_keyspaces") {
        if w.cluster.nodes[me].nr_shards == 0 {
            return Err("unconfigured table scylla_keyspaces".into());
        }
        let cols = vec![
            col("system_schema", "scylla_keyspaces", "keyspace_name", CType::Text),
            col("system_schema", "scylla_keyspaces", "initial_tablets", CType::Int),
        ];
        let rows = w
            .cluster
            .keyspaces
            .iter()
            .map(|k| {
                vec![
                    text_cell(&k.name),
                    if k.tablets { Cell::Int(4) } else { Cell::Null },
                ]
            })
            .collect();
        (cols, rows)
    } else if l.contains("from system_schema.types") {
        (
            vec![
                col("system_schema", "types", "keyspace_name", CType::Text),
                col("system_schema", "types", "type_name", CType::Text),
                col("system_schema", "types", "field_names", CType::List(Box::new(CType::Text))),
                col("system_schema", "types", "field_types", CType::List(Box::new(CType::Text))),
            ],
            vec![],
        )
    } else if l.contains("from system_schema.columns") {
        (
            vec![
                col("system_schema", "columns", "keyspace_name", CType::Text),
                col("system_schema", "columns", "table_name", CType::Text),
                col("system_schema", "columns", "column_name", CType::Text),
                col("system_schema", "columns", "kind", CType::Text),
                col("system_schema", "columns", "position", CType::Int),
                col("system_schema", "columns", "type", CType::Text),
            ],
            vec![],
        )
    } else {
        return Err("unknown system table".into());
    };
    let _ = NATIVE_PORT;
    Ok((cols, rows))
}
