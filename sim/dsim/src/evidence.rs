//! Aggregation of run reports into evidence.

use crate::runner::{RunRequest, RunResult};
use serde_json::{Map, Value, json};
use std::collections::{BTreeMap, BTreeSet};

#[derive(Default)]
pub struct Agg {
    pub runs: u64,
    pub by_status: BTreeMap<String, u64>,
    pub virt_ns: u128,
    pub events: u64,
    pub frames: u64,
    pub polls: u64,
    pub faults: BTreeMap<String, u64>,
    pub probes: BTreeMap<String, u64>,
    pub counters: BTreeMap<String, u64>,
    pub nontrivial: u64,
    pub fault_free_runs: u64,
    /// Schedule signatures of non-trivial runs.
    pub sigs: BTreeSet<String>,
    pub samples: Vec<Value>,
    pub wall_ms: f64,
    pub budget_exhausted: bool,
    pub panics: u64,
    pub max_alloc: u64,
    pub timeouts_not_confirmed: u64,
}

fn add_map(dst: &mut BTreeMap<String, u64>, v: &Value) {
    if let Some(m) = v.as_object() {
        for (k, x) in m {
            *dst.entry(k.clone()).or_insert(0) += x.as_u64().unwrap_or(0);
        }
    }
}

impl Agg {
    pub fn add(&mut self, req: &RunRequest, res: &RunResult) {
        self.runs += 1;
        *self.by_status.entry(res.status.clone()).or_insert(0) += 1;
        let r = &res.report;
        self.virt_ns += r["virt_ns"].as_u64().unwrap_or(0) as u128;
        self.events += r["events"].as_u64().unwrap_or(0);
        self.frames += r["frames"].as_u64().unwrap_or(0);
        self.polls += r["polls"].as_u64().unwrap_or(0);
        add_map(&mut self.faults, &r["faults"]);
        add_map(&mut self.probes, &r["probes"]);
        add_map(&mut self.counters, &r["counters"]);
        self.wall_ms += res.wall_ms;
        self.panics += r["panics"].as_array().map(|a| a.len() as u64).unwrap_or(0);
        self.max_alloc = self.max_alloc.max(r["max_alloc"].as_u64().unwrap_or(0));
        let no_faults = r["faults"].as_object().map(|m| m.is_empty()).unwrap_or(true);
        if no_faults {
            self.fault_free_runs += 1;
        }
        if r["nontrivial"].as_bool().unwrap_or(false) {
            self.nontrivial += 1;
            if let Some(s) = r["sched_hash"].as_str() {
                if self.sigs.len() < 2_000_000 {
                    self.sigs.insert(format!("{}{}", s, r["log_hash"].as_str().unwrap_or("")));
                }
            }
            if self.samples.len() < 3 && !r["sample"].is_null() {
                self.samples.push(json!({
                    "run_index": req.run_index,
                    "seed": r["seed"],
                    "case": r["sample"],
                    "faults": r["faults"],
                    "virt_ms": r["virt_ns"].as_u64().unwrap_or(0) / 1_000_000,
                    "frames": r["frames"],
                    "tape_len": r["tape_len"],
                }));
            }
        }
    }

    pub fn to_json(&self) -> Value {
        json!({
            "runs": self.runs,
            "by_status": self.by_status,
            "virt_ns": self.virt_ns.to_string(),
            "events": self.events,
            "frames": self.frames,
            "polls": self.polls,
            "faults": self.faults,
            "probes": self.probes,
            "counters": self.counters,
            "nontrivial": self.nontrivial,
            "fault_free_runs": self.fault_free_runs,
            "sigs": self.sigs.iter().collect::<Vec<_>>(),
            "samples": self.samples,
            "wall_ms": self.wall_ms,
            "budget_exhausted": self.budget_exhausted,
            "panics": self.panics,
            "max_alloc": self.max_alloc,
            "timeouts_not_confirmed": self.timeouts_not_confirmed,
        })
    }

    pub fn merge_json(&mut self, v: &Value) {
        self.runs += v["runs"].as_u64().unwrap_or(0);
        add_map(&mut self.by_status, &v["by_status"]);
        self.virt_ns += v["virt_ns"].as_str().and_then(|s| s.parse::<u128>().ok()).unwrap_or(0);
        self.events += v["events"].as_u64().unwrap_or(0);
        self.frames += v["frames"].as_u64().unwrap_or(0);
        self.polls += v["polls"].as_u64().unwrap_or(0);
        add_map(&mut self.faults, &v["faults"]);
        add_map(&mut self.probes, &v["probes"]);
        add_map(&mut self.counters, &v["counters"]);
        self.nontrivial += v["nontrivial"].as_u64().unwrap_or(0);
        self.fault_free_runs += v["fault_free_runs"].as_u64().unwrap_or(0);
        if let Some(a) = v["sigs"].as_array() {
            for s in a {
                if let Some(s) = s.as_str() {
                    self.sigs.insert(s.to_string());
                }
            }
        }
        if let Some(a) = v["samples"].as_array() {
            for s in a {
                if self.samples.len() < 6 {
                    self.samples.push(s.clone());
                }
            }
        }
        self.wall_ms += v["wall_ms"].as_f64().unwrap_or(0.0);
        self.budget_exhausted |= v["budget_exhausted"].as_bool().unwrap_or(false);
        self.panics += v["panics"].as_u64().unwrap_or(0);
        self.max_alloc = self.max_alloc.max(v["max_alloc"].as_u64().unwrap_or(0));
        self.timeouts_not_confirmed += v["timeouts_not_confirmed"].as_u64().unwrap_or(0);
    }
}

pub fn map_to_json(m: &BTreeMap<String, u64>) -> Value {
    Value::Object(m.iter().map(|(k, v)| (k.clone(), json!(v))).collect::<Map<_, _>>())
}
