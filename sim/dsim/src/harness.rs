//! Runtime construction and the common frame of a simulation run.

use crate::cluster::Cluster;
use crate::rng::Fnv;
use crate::runner::RunRequest;
use crate::world::{self, NetCfg};
use serde_json::{Value, json};
use std::future::Future;
use std::hash::{Hash, Hasher};
use std::sync::Mutex;
use std::sync::OnceLock;
use std::sync::atomic::{AtomicU64, Ordering};
use std::time::Duration;

pub const SIM_STACK_BYTES: usize = 8 << 20;

static PANICS: Mutex<Vec<String>> = Mutex::new(Vec::new());

pub fn install_panic_hook() {
    std::panic::set_hook(Box::new(|info| {
        let loc = info
            .location()
            .map(|l| format!("{}:{}", l.file(), l.line()))
            .unwrap_or_default();
        let msg = if let Some(s) = info.payload().downcast_ref::<&str>() {
            s.to_string()
        } else if let Some(s) = info.payload().downcast_ref::<String>() {
            s.clone()
        } else {
            "panic".to_string()
        };
        if let Ok(mut p) = PANICS.lock() {
            if p.len() < 16 {
                p.push(format!("{msg} @ {loc}"));
            }
        }
    }));
}

pub fn take_panics() -> Vec<String> {
    PANICS.lock().map(|p| p.clone()).unwrap_or_default()
}

static SCHED_HASH: AtomicU64 = AtomicU64::new(0xcbf2_9ce4_8422_2325);
static POLLS: AtomicU64 = AtomicU64::new(0);
static POLL_LOG_ON: std::sync::atomic::AtomicBool = std::sync::atomic::AtomicBool::new(false);
static POLL_LOG: Mutex<Vec<(u64, u64)>> = Mutex::new(Vec::new());
static HANDLE: OnceLock<tokio::runtime::Handle> = OnceLock::new();

struct IdHasher(u64);
impl Hasher for IdHasher {
    fn finish(&self) -> u64 {
        self.0
    }
    fn write(&mut self, bytes: &[u8]) {
        for b in bytes {
            self.0 = (self.0 ^ *b as u64).wrapping_mul(0x0000_0100_0000_01B3);
        }
    }
    fn write_u64(&mut self, i: u64) {
        self.0 = i;
    }
}

/// The world stops while a `spawn_blocking` job runs, so that its completion
/// lands at a fixed point of the poll sequence.
fn wait_blocking_idle() {
    if let Some(h) = HANDLE.get() {
        let m = h.metrics();
        let mut spins = 0u64;
        loop {
            let busy = m.num_blocking_threads() - m.num_idle_blocking_threads();
            if busy == 0 && m.blocking_queue_depth() == 0 {
                break;
            }
            spins += 1;
            if spins > 50 {
                std::thread::sleep(Duration::from_micros(20));
            } else {
                std::thread::yield_now();
            }
        }
    }
}

pub fn build_runtime(seed: u64) -> tokio::runtime::Runtime {
    let mut seed_bytes = Vec::new();
    seed_bytes.extend_from_slice(&seed.to_le_bytes());
    let rt = tokio::runtime::Builder::new_current_thread()
        .enable_time()
        .start_paused(true)
        .rng_seed(tokio::runtime::RngSeed::from_bytes(&seed_bytes))
        .max_blocking_threads(1)
        .thread_keep_alive(Duration::from_secs(3600))
        .on_before_task_poll(|meta| {
            wait_blocking_idle();
            let mut h = IdHasher(0);
            meta.id().hash(&mut h);
            let id = h.finish();
            let cur = SCHED_HASH.load(Ordering::Relaxed);
            SCHED_HASH.store(
                (cur ^ id).wrapping_mul(0x0000_0100_0000_01B3),
                Ordering::Relaxed,
            );
            POLLS.fetch_add(1, Ordering::Relaxed);
            if POLL_LOG_ON.load(Ordering::Relaxed) {
                if let Ok(mut l) = POLL_LOG.lock() {
                    l.push((id, crate::world::now_ns_or_zero()));
                }
            }
        })
        .on_thread_park(wait_blocking_idle)
        .build()
        .expect("runtime");
    let _ = HANDLE.set(rt.handle().clone());
    rt
}

/// What a scenario's client side reports at the end of a run.
#[derive(Debug, Default)]
pub struct Outcome {
    pub violations: Vec<(String, String)>,
    pub inconclusive: Option<String>,
    /// Non-trivial by the property's stated rule.
    pub nontrivial: bool,
    /// Short description of the case, for evidence samples.
    pub sample: Value,
    /// Extra counters (summed over runs in evidence).
    pub counters: Vec<(String, u64)>,
    /// The scenario stopped early for a reason that is not a verdict.
    pub abandoned: bool,
}

impl Outcome {
    pub fn violation(&mut self, oracle: &str, msg: String) {
        if self.violations.len() < 32 {
            self.violations.push((oracle.to_string(), msg));
        }
    }
    pub fn count(&mut self, name: &str, n: u64) {
        if let Some(e) = self.counters.iter_mut().find(|(k, _)| k == name) {
            e.1 += n;
        } else {
            self.counters.push((name.to_string(), n));
        }
    }
}

pub struct SimSetup {
    pub cluster: Cluster,
    pub net: NetCfg,
    /// Virtual-time cap for the whole scenario.
    pub virt_cap: Duration,
    /// Oracle ids of the world's generic monitors that count as violations
    /// for this property (prefix match).
    pub world_oracles: Vec<&'static str>,
    /// Whether a panic anywhere in the process is a verdict for this property.
    pub panic_is_violation: bool,
    /// Address-space limit for the child (bytes).
    pub rlimit_as: Option<u64>,
    /// Base of the out-of-proportion allocation threshold (bytes).
    pub alloc_limit: Option<usize>,
}

/// Runs one simulation. `setup` draws the swarm configuration from the tape and
/// builds the cluster; `main` is the client side.
pub fn run_sim<S, F, Fut>(req: &RunRequest, setup: S) -> Value
where
    S: FnOnce() -> (SimSetup, F),
    F: FnOnce() -> Fut,
    Fut: Future<Output = Outcome>,
{
    let seed = req.run_seed();
    crate::shims::set_entropy_seed(crate::rng::mix(&[seed, 0xE27]));
    match &req.tape {
        Some(t) => crate::tape::install_replay(t.clone()),
        None => crate::tape::install_generate(seed),
    }
    install_panic_hook();
    let (s, main) = setup();
    let virt_cap = s.virt_cap;
    let world_oracles = s.world_oracles.clone();
    let panic_is_violation = s.panic_is_violation;
    if let Some(lim) = s.rlimit_as {
        let r = libc::rlimit {
            rlim_cur: lim,
            rlim_max: lim,
        };
        unsafe { libc::setrlimit(libc::RLIMIT_AS, &r) };
        crate::world::world_note_rlimit();
    }
    if let Some(a) = s.alloc_limit {
        crate::shims::ALLOC_BASE_LIMIT.store(a, Ordering::SeqCst);
    }
    if std::env::var("DSIM_POLL_LOG").is_ok() {
        POLL_LOG_ON.store(true, Ordering::Relaxed);
    }
    // Debugging aid (never set by the checks): the driver's own tracing events on stderr,
    // e.g. DSIM_DRIVER_LOG=scylla=debug.
    if let Ok(filter) = std::env::var("DSIM_DRIVER_LOG") {
        let _ = tracing_subscriber::fmt()
            .with_env_filter(tracing_subscriber::EnvFilter::new(filter))
            .without_time()
            .with_writer(std::io::stderr)
            .try_init();
    }
    let rt = build_runtime(seed);
    let (outcome, timed_out, virt_ns) = rt.block_on(async move {
        world::install(s.cluster, s.net, req.trace);
        world::install_connector();
        let pump = tokio::spawn(world::pump());
        let res = tokio::time::timeout(virt_cap, main()).await;
        pump.abort();
        let virt = world::now_ns();
        match res {
            Ok(o) => (o, false, virt),
            Err(_) => (Outcome::default(), true, virt),
        }
    });
    std::mem::forget(rt);

    let mut w = world::world();
    let mut status = "ok";
    let mut oracle = String::new();
    let mut msg = String::new();
    let mut all_violations: Vec<(String, String)> = Vec::new();
    for v in &w.violations {
        if world_oracles.iter().any(|p| v.oracle.starts_with(p)) {
            all_violations.push((v.oracle.clone(), v.msg.clone()));
        }
    }
    all_violations.extend(outcome.violations.iter().cloned());
    let panics = take_panics();
    if panic_is_violation && !panics.is_empty() {
        let ctx = w.mutation_fired.clone().map(|m| format!(" [{m}]")).unwrap_or_default();
        all_violations.push(("process.panic".into(), format!("{}{}", panics.join(" | "), ctx)));
    }
    if timed_out {
        // The scenario future is always wrapped in a virtual-time timeout:
        // "waits on nothing" shows up here.
        all_violations.push((
            "liveness.scenario_deadline".into(),
            format!("scenario did not finish within {} virtual s", virt_cap.as_secs()),
        ));
    }
    if w.event_cap_hit {
        status = "inconclusive";
        msg = "event cap hit".into();
    }
    if let Some(first) = all_violations.first() {
        status = "violation";
        oracle = first.0.clone();
        msg = first.1.clone();
    } else if let Some(why) = &outcome.inconclusive {
        status = "inconclusive";
        msg = why.clone();
    }
    let faults: serde_json::Map<String, Value> = w
        .faults
        .iter()
        .map(|(k, v)| (format!("{k:?}"), json!(v)))
        .collect();
    let probes: serde_json::Map<String, Value> = w
        .probes
        .iter()
        .map(|(k, v)| (k.to_string(), json!(v)))
        .collect();
    let counters: serde_json::Map<String, Value> = outcome
        .counters
        .iter()
        .map(|(k, v)| (k.clone(), json!(v)))
        .collect();
    let mut log_hash = Fnv(w.log_hash.0);
    log_hash.u64(w.frames.len() as u64);
    let tape = crate::tape::take_recorded();
    let mut report = json!({
        "status": status,
        "oracle": oracle,
        "msg": msg,
        "violations": all_violations.iter().map(|(o, m)| json!({"oracle": o, "msg": m})).collect::<Vec<_>>(),
        "seed": seed,
        "run_index": req.run_index,
        "tape_len": tape.len(),
        "log_hash": format!("{:016x}", log_hash.0),
        "sched_hash": format!("{:016x}", SCHED_HASH.load(Ordering::Relaxed)),
        "polls": POLLS.load(Ordering::Relaxed),
        "virt_ns": virt_ns,
        "events": w.events_run,
        "frames": w.frames.len(),
        "conns": w.conns.len(),
        "bytes_to_client": w.bytes_to_client,
        "bytes_to_server": w.bytes_to_server,
        "faults": faults,
        "probes": probes,
        "counters": counters,
        "nontrivial": outcome.nontrivial,
        "sample": outcome.sample,
        "panics": panics,
        "max_alloc": crate::shims::MAX_SINGLE_ALLOC.load(Ordering::Relaxed),
        "entropy_calls": crate::shims::ENTROPY_CALLS.load(Ordering::Relaxed),
    });
    if status != "ok" || req.tape.is_some() || req.trace {
        report["tape"] = json!(tape);
    }
    if let Ok(dir) = std::env::var("DSIM_POLL_LOG") {
        let l = POLL_LOG.lock().unwrap();
        let text: Vec<String> = l.iter().map(|(id, t)| format!("{id} {t}")).collect();
        let _ = std::fs::write(
            format!("{dir}/polls-{}-{:016x}.txt", req.run_index, SCHED_HASH.load(Ordering::Relaxed)),
            text.join("\n"),
        );
    }
    if let Some(tr) = w.trace.take() {
        report["trace"] = json!(tr);
    }
    report
}
