#![allow(dead_code)]
//! dsim - engine A: deterministic cluster simulation of the real driver.

mod client;
mod cluster;
mod evidence;
mod harness;
mod model;
mod mutate;
mod props;
mod rng;
mod runner;
mod shims;
mod tape;
mod wire;
mod world;

use runner::{RunRequest, RunResult};
use serde_json::{Value, json};
use std::collections::BTreeMap;
use std::path::PathBuf;
use std::time::{Duration, Instant};

#[global_allocator]
static GLOBAL: shims::CountingAlloc = shims::CountingAlloc;

fn arg(args: &[String], name: &str) -> Option<String> {
    args.iter()
        .position(|a| a == name)
        .and_then(|i| args.get(i + 1).cloned())
}

fn flag(args: &[String], name: &str) -> bool {
    args.iter().any(|a| a == name)
}

fn verif_dir() -> PathBuf {
    std::env::var("VERIF_DIR")
        .map(PathBuf::from)
        .unwrap_or_else(|_| PathBuf::from("/verif"))
}

fn main() {
    let args: Vec<String> = std::env::args().collect();
    let cmd = args.get(1).map(|s| s.as_str()).unwrap_or("");
    let code = match cmd {
        "run" => cmd_run(&args),
        "one" => cmd_one(&args),
        "replay" => cmd_replay(&args),
        "determinism" => cmd_determinism(&args),
        _ => {
            eprintln!("usage: dsim run|one|replay|determinism ...");
            2
        }
    };
    std::process::exit(code);
}

fn tape_of(res: &RunResult) -> Vec<u64> {
    res.report["tape"]
        .as_array()
        .map(|a| a.iter().map(|v| v.as_u64().unwrap_or(0)).collect())
        .unwrap_or_default()
}

fn cmd_run(args: &[String]) -> i32 {
    let property = arg(args, "--property").expect("--property");
    let tier = arg(args, "--tier").unwrap_or_else(|| "quick".into());
    let seed: u64 = arg(args, "--seed").and_then(|s| s.parse().ok()).unwrap_or(1);
    let jobs: usize = arg(args, "--jobs").and_then(|s| s.parse().ok()).unwrap_or(16);
    let out_path = arg(args, "--out").expect("--out");
    let Some(f) = props::scenario_for(&property) else {
        eprintln!("unknown property {property}");
        return 2;
    };
    let (mut runs, wall_s, mut budget_s) = props::budget(&property, &tier);
    if let Some(r) = arg(args, "--runs").and_then(|s| s.parse().ok()) {
        runs = r;
    }
    if let Some(b) = arg(args, "--budget-s").and_then(|s| s.parse().ok()) {
        budget_s = b;
    }
    let started = Instant::now();
    if property == "C08" {
        // Measure the scripted exchange once, so that the truncation
        // enumeration covers exactly every offset of every frame.
        let req = RunRequest {
            property: property.clone(),
            tier: tier.clone(),
            base_seed: seed,
            run_index: 0,
            tape: None,
            trace: false,
            seed_override: None,
        };
        let res = runner::run_in_child(&req, props::c08::dry_run_table, Duration::from_secs(60));
        let lens = res.report["sample"]["frame_lens"].clone();
        if res.status == "harness_error" {
            eprintln!("C08 dry run failed: {} {}", res.status, res.msg);
            return 2;
        }
        if res.status != "ok" || !lens.is_array() {
            // The fault-free exchange itself violates the property (e.g. a decoder that
            // panics on a well-formed frame): no table, the batch below runs into the
            // same violation and reports it the normal way.
            eprintln!("C08 dry run: {} {} - continuing without the frame-length table", res.status, res.msg);
        } else {
            let dir = verif_dir().join("target").join("runs");
            let _ = std::fs::create_dir_all(&dir);
            let path = dir.join(format!("c08-table-{}.json", std::process::id()));
            std::fs::write(&path, lens.to_string()).expect("write table");
            unsafe { std::env::set_var("VERIF_C08_TABLE", &path) };
        }
    }
    let tmp = verif_dir().join("target").join("runs").join(format!("{property}-{tier}-{}", std::process::id()));
    let lines = runner::run_batch(
        &property,
        &tier,
        seed,
        runs,
        jobs,
        f,
        Duration::from_secs(wall_s),
        Duration::from_secs(budget_s),
        &tmp,
    );
    let _ = std::fs::remove_dir_all(&tmp);
    let mut enum_total: Option<u64> = None;
    if let Ok(p) = std::env::var("VERIF_C08_TABLE") {
        if let Ok(t) = std::fs::read_to_string(&p) {
            if let Ok(v) = serde_json::from_str::<Value>(&t) {
                enum_total = v.as_array().map(|a| a.iter().map(|x| x.as_u64().unwrap_or(0)).sum());
            }
        }
        let _ = std::fs::remove_file(&p);
    }
    let mut agg = evidence::Agg::default();
    let mut bad: Vec<Value> = Vec::new();
    let mut harness_errors = 0;
    for l in &lines {
        match l["kind"].as_str() {
            Some("summary") => agg.merge_json(&l["agg"]),
            Some("run") => {
                let st = l["status"].as_str().unwrap_or("");
                if st == "harness_error" {
                    harness_errors += 1;
                    eprintln!("harness error in run {}: {}", l["run_index"], l["msg"]);
                } else if st != "inconclusive" {
                    bad.push(l.clone());
                }
            }
            _ => harness_errors += 1,
        }
    }
    bad.sort_by_key(|v| v["run_index"].as_u64().unwrap_or(0));

    // One minimised replay per violation class (at most 4 classes).
    let mut by_class: BTreeMap<String, Value> = BTreeMap::new();
    for b in &bad {
        let class = format!("{}:{}", b["status"].as_str().unwrap_or(""), b["oracle"].as_str().unwrap_or(""));
        by_class.entry(class).or_insert_with(|| b.clone());
    }
    let mut violations: Vec<Value> = Vec::new();
    let replay_dir = verif_dir().join("replays");
    let _ = std::fs::create_dir_all(&replay_dir);
    for (class, b) in by_class.iter().take(4) {
        let run_index = b["run_index"].as_u64().unwrap_or(0);
        let req = RunRequest {
            property: property.clone(),
            tier: tier.clone(),
            base_seed: seed,
            run_index,
            tape: None,
            trace: false,
            seed_override: None,
        };
        let first = RunResult {
            status: b["status"].as_str().unwrap_or("").into(),
            oracle: b["oracle"].as_str().unwrap_or("").into(),
            msg: b["msg"].as_str().unwrap_or("").into(),
            report: b["report"].clone(),
            wall_ms: 0.0,
        };
        let budget = if tier == "thorough" { 400 } else { 150 };
        let orig_len = tape_of(&first).len();
        let (tape, res, used) = if orig_len > 0 {
            runner::minimise(&req, f, Duration::from_secs(wall_s), &first, budget)
        } else {
            // The child died before it could report its tape: replay by seed
            // (generation is a pure function of the seed).
            let again = runner::run_in_child(&req, f, Duration::from_secs(wall_s));
            (Vec::new(), again, 1)
        };
        let reproduced = res.class() == first.class() && used > 0;
        let res = if reproduced { res } else { first.clone() };
        let path = replay_dir.join(format!("{property}-{seed}-{run_index}.json"));
        let replay = json!({
            "engine": "dsim",
            "property": property,
            "tier": tier,
            "base_seed": seed,
            "run_index": run_index,
            "tape": if orig_len > 0 { json!(tape) } else { Value::Null },
            "original_tape_len": orig_len,
            "minimise_runs": used,
            "expected": {"status": res.status, "oracle": res.oracle, "msg": res.msg,
                          "log_hash": res.report["log_hash"], "sched_hash": res.report["sched_hash"]},
            "reproduced_on_replay": reproduced,
            "sample": res.report["sample"],
            "faults": res.report["faults"],
        });
        let _ = std::fs::write(&path, serde_json::to_string_pretty(&replay).unwrap());
        let count = bad
            .iter()
            .filter(|x| {
                format!("{}:{}", x["status"].as_str().unwrap_or(""), x["oracle"].as_str().unwrap_or("")) == *class
            })
            .count();
        violations.push(json!({
            "class": class,
            "oracle": res.oracle,
            "status": res.status,
            "msg": res.msg,
            "first_msg": first.msg,
            "run_index": run_index,
            "replay": path.to_string_lossy(),
            "tape_len": tape.len(),
            "original_tape_len": orig_len,
            "reproduced_on_replay": reproduced,
            "runs_in_class": count,
            "signature": res.report.get("signature").cloned().unwrap_or(Value::Null),
            "oversize_alloc": res.report.get("oversize_alloc").cloned().unwrap_or(Value::Null),
        }));
    }
    let wall_s_total = started.elapsed().as_secs_f64();
    let result = json!({
        "property": property,
        "tier": tier,
        "seed": seed,
        "jobs": jobs,
        "runs_requested": runs,
        "agg": agg.to_json(),
        "distinct_nontrivial": agg.sigs.len(),
        "violations": violations,
        "bad_runs": bad.len(),
        "harness_errors": harness_errors,
        "wall_s": wall_s_total,
    });
    // The signature list is large; keep only its size in the result file.
    let mut result = result;
    if let Some(t) = enum_total {
        result["agg"]["counters"]["enum_truncation_points_total"] = json!(t);
    }
    result["agg"]["sigs"] = json!(agg.sigs.len());
    std::fs::write(&out_path, serde_json::to_string(&result).unwrap()).expect("write result");
    if harness_errors > 0 {
        return 2;
    }
    if violations.is_empty() { 0 } else { 1 }
}

fn print_report(res: &RunResult, verbose: bool) {
    let mut r = res.report.clone();
    if !verbose {
        if let Some(o) = r.as_object_mut() {
            o.remove("tape");
        }
    }
    let trace = r.as_object_mut().and_then(|o| o.remove("trace"));
    if let Some(Value::Array(tr)) = trace {
        for l in tr {
            println!("{}", l.as_str().unwrap_or(""));
        }
    }
    println!("{}", serde_json::to_string_pretty(&r).unwrap());
    println!("status={} oracle={} msg={} wall_ms={:.1}", res.status, res.oracle, res.msg, res.wall_ms);
}

fn cmd_one(args: &[String]) -> i32 {
    let property = arg(args, "--property").expect("--property");
    let tier = arg(args, "--tier").unwrap_or_else(|| "quick".into());
    let seed: u64 = arg(args, "--seed").and_then(|s| s.parse().ok()).unwrap_or(1);
    let index: u64 = arg(args, "--index").and_then(|s| s.parse().ok()).unwrap_or(0);
    let Some(f) = props::scenario_for(&property) else {
        return 2;
    };
    let req = RunRequest {
        property,
        tier,
        base_seed: seed,
        run_index: index,
        tape: None,
        trace: flag(args, "--trace"),
        seed_override: None,
    };
    let res = runner::run_in_child(&req, f, Duration::from_secs(120));
    print_report(&res, flag(args, "--tape"));
    if res.status == "ok" { 0 } else { 1 }
}

fn cmd_replay(args: &[String]) -> i32 {
    let path = args.get(2).expect("replay file");
    let text = std::fs::read_to_string(path).expect("read replay");
    let v: Value = serde_json::from_str(&text).expect("replay json");
    let property = v["property"].as_str().unwrap_or("").to_string();
    let Some(f) = props::scenario_for(&property) else {
        return 2;
    };
    let tape: Vec<u64> = v["tape"]
        .as_array()
        .map(|a| a.iter().map(|x| x.as_u64().unwrap_or(0)).collect())
        .unwrap_or_default();
    let req = RunRequest {
        property: property.clone(),
        tier: v["tier"].as_str().unwrap_or("quick").into(),
        base_seed: v["base_seed"].as_u64().unwrap_or(1),
        run_index: v["run_index"].as_u64().unwrap_or(0),
        tape: if v["tape"].is_null() { None } else { Some(tape) },
        trace: flag(args, "--trace"),
        seed_override: None,
    };
    let res = runner::run_in_child(&req, f, Duration::from_secs(180));
    print_report(&res, false);
    let exp = &v["expected"];
    let same_class = exp["status"].as_str() == Some(res.status.as_str())
        && exp["oracle"].as_str() == Some(res.oracle.as_str());
    let same_hash = exp["log_hash"] == res.report["log_hash"];
    println!(
        "replay: expected {}:{} got {}:{} same_class={} same_event_log_hash={}",
        exp["status"], exp["oracle"], res.status, res.oracle, same_class, same_hash
    );
    if res.is_violation() {
        println!("VIOLATION property={property} replay={path}");
        1
    } else {
        0
    }
}

/// Runs each of `--runs` seeds twice and compares event-log hash, schedule
/// signature and verdict. Any mismatch is a harness error.
fn cmd_determinism(args: &[String]) -> i32 {
    let property = arg(args, "--property").expect("--property");
    let tier = arg(args, "--tier").unwrap_or_else(|| "quick".into());
    let seed: u64 = arg(args, "--seed").and_then(|s| s.parse().ok()).unwrap_or(1);
    let runs: u64 = arg(args, "--runs").and_then(|s| s.parse().ok()).unwrap_or(100);
    let jobs: u64 = arg(args, "--jobs").and_then(|s| s.parse().ok()).unwrap_or(16);
    let Some(f) = props::scenario_for(&property) else {
        return 2;
    };
    let mut pids = Vec::new();
    for k in 0..jobs {
        let pid = unsafe { libc::fork() };
        if pid == 0 {
            let mut mismatches = 0;
            let mut idx = k;
            while idx < runs {
                let req = RunRequest {
                    property: property.clone(),
                    tier: tier.clone(),
                    base_seed: seed,
                    run_index: idx,
                    tape: None,
                    trace: false,
                    seed_override: None,
                };
                let a = runner::run_in_child(&req, f, Duration::from_secs(120));
                let b = runner::run_in_child(&req, f, Duration::from_secs(120));
                // Third: replay of the recorded tape must also be identical.
                let mut req_c = req.clone();
                req_c.trace = true; // makes the child include its tape
                let c0 = runner::run_in_child(&req_c, f, Duration::from_secs(120));
                let mut req_d = req.clone();
                req_d.tape = Some(tape_of(&c0));
                let d = runner::run_in_child(&req_d, f, Duration::from_secs(120));
                let key = |r: &RunResult| {
                    format!(
                        "{}|{}|{}|{}|{}",
                        r.status, r.oracle, r.report["log_hash"], r.report["sched_hash"], r.report["tape_len"]
                    )
                };
                if key(&a) != key(&b) || key(&a) != key(&d) {
                    mismatches += 1;
                    eprintln!(
                        "DETERMINISM MISMATCH property={property} index={idx}\n  a={}\n  b={}\n  replay={}",
                        key(&a),
                        key(&b),
                        key(&d)
                    );
                }
                idx += jobs;
            }
            unsafe { libc::_exit(if mismatches > 0 { 1 } else { 0 }) };
        }
        pids.push(pid);
    }
    let mut bad = 0;
    for pid in pids {
        let mut status = 0;
        unsafe { libc::waitpid(pid, &mut status, 0) };
        if !(libc::WIFEXITED(status) && libc::WEXITSTATUS(status) == 0) {
            bad += 1;
        }
    }
    if bad > 0 {
        println!("determinism: MISMATCH in {bad} workers");
        2
    } else {
        println!("determinism: {runs} seeds x (2 generate + 1 replay) identical for {property}");
        0
    }
}
