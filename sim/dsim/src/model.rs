//! Independent reference implementations of the placement functions:
//! Cassandra's Murmur3 partitioner, compound-key serialisation, ring walk for
//! SimpleStrategy / NetworkTopologyStrategy and ScyllaDB's shard-of-token.
//! Written from the algorithm descriptions, not from the driver's code.

/// Cassandra's MurmurHash3_x64_128 (with its signed-byte tail quirk), first half.
pub fn murmur3_token(data: &[u8]) -> i64 {
    let h = murmur3_x64_128_h1(data);
    if h == i64::MIN { i64::MAX } else { h }
}

fn rotl64(v: i64, n: u32) -> i64 {
    ((v as u64).rotate_left(n)) as i64
}

fn fmix(mut k: i64) -> i64 {
    k ^= ((k as u64) >> 33) as i64;
    k = k.wrapping_mul(0xff51afd7ed558ccd_u64 as i64);
    k ^= ((k as u64) >> 33) as i64;
    k = k.wrapping_mul(0xc4ceb9fe1a85ec53_u64 as i64);
    k ^= ((k as u64) >> 33) as i64;
    k
}

fn murmur3_x64_128_h1(data: &[u8]) -> i64 {
    let length = data.len();
    let nblocks = length / 16;
    let mut h1: i64 = 0;
    let mut h2: i64 = 0;
    let c1: i64 = 0x87c37b91114253d5_u64 as i64;
    let c2: i64 = 0x4cf5ad432745937f_u64 as i64;

    for i in 0..nblocks {
        let b = &data[i * 16..i * 16 + 16];
        let mut k1 = i64::from_le_bytes(b[0..8].try_into().unwrap());
        let mut k2 = i64::from_le_bytes(b[8..16].try_into().unwrap());
        k1 = k1.wrapping_mul(c1);
        k1 = rotl64(k1, 31);
        k1 = k1.wrapping_mul(c2);
        h1 ^= k1;
        h1 = rotl64(h1, 27);
        h1 = h1.wrapping_add(h2);
        h1 = h1.wrapping_mul(5).wrapping_add(0x52dce729);
        k2 = k2.wrapping_mul(c2);
        k2 = rotl64(k2, 33);
        k2 = k2.wrapping_mul(c1);
        h2 ^= k2;
        h2 = rotl64(h2, 31);
        h2 = h2.wrapping_add(h1);
        h2 = h2.wrapping_mul(5).wrapping_add(0x38495ab5);
    }

    let tail = &data[nblocks * 16..];
    let mut k1: i64 = 0;
    let mut k2: i64 = 0;
    // Cassandra sign-extends each tail byte (Java `byte` is signed).
    let t = |i: usize| -> i64 { tail[i] as i8 as i64 };
    let rem = length & 15;
    if rem >= 15 {
        k2 ^= t(14) << 48;
    }
    if rem >= 14 {
        k2 ^= t(13) << 40;
    }
    if rem >= 13 {
        k2 ^= t(12) << 32;
    }
    if rem >= 12 {
        k2 ^= t(11) << 24;
    }
    if rem >= 11 {
        k2 ^= t(10) << 16;
    }
    if rem >= 10 {
        k2 ^= t(9) << 8;
    }
    if rem >= 9 {
        k2 ^= t(8);
        k2 = k2.wrapping_mul(c2);
        k2 = rotl64(k2, 33);
        k2 = k2.wrapping_mul(c1);
        h2 ^= k2;
    }
    if rem >= 8 {
        k1 ^= t(7) << 56;
    }
    if rem >= 7 {
        k1 ^= t(6) << 48;
    }
    if rem >= 6 {
        k1 ^= t(5) << 40;
    }
    if rem >= 5 {
        k1 ^= t(4) << 32;
    }
    if rem >= 4 {
        k1 ^= t(3) << 24;
    }
    if rem >= 3 {
        k1 ^= t(2) << 16;
    }
    if rem >= 2 {
        k1 ^= t(1) << 8;
    }
    if rem >= 1 {
        k1 ^= t(0);
        k1 = k1.wrapping_mul(c1);
        k1 = rotl64(k1, 31);
        k1 = k1.wrapping_mul(c2);
        h1 ^= k1;
    }

    h1 ^= length as i64;
    h2 ^= length as i64;
    h1 = h1.wrapping_add(h2);
    h2 = h2.wrapping_add(h1);
    h1 = fmix(h1);
    h2 = fmix(h2);
    h1 = h1.wrapping_add(h2);
    h1
}

/// Serialised partition key: the single component as is, or for a compound key
/// each component as `<u16 len><bytes><0>`.
pub fn partition_key_bytes(components: &[Vec<u8>]) -> Vec<u8> {
    if components.len() == 1 {
        return components[0].clone();
    }
    let mut out = Vec::new();
    for c in components {
        out.extend_from_slice(&(c.len() as u16).to_be_bytes());
        out.extend_from_slice(c);
        out.push(0);
    }
    out
}

/// ScyllaDB's shard-of-token.
pub fn shard_of(token: i64, nr_shards: u32, msb_ignore: u8) -> u32 {
    let mut biased = (token as u64).wrapping_add(1u64 << 63);
    biased = biased.checked_shl(msb_ignore as u32).unwrap_or(0);
    ((biased as u128 * nr_shards as u128) >> 64) as u32
}

#[derive(Debug, Clone)]
pub struct RingNode {
    pub id: usize,
    pub dc: String,
    pub rack: String,
}

/// Ring: sorted (token, node index) pairs.
pub fn ring_order_from(ring: &[(i64, usize)], token: i64) -> impl Iterator<Item = usize> + '_ {
    let start = ring.partition_point(|(t, _)| *t < token);
    ring[start..].iter().chain(ring[..start].iter()).map(|(_, n)| *n)
}

pub fn simple_strategy(ring: &[(i64, usize)], token: i64, rf: usize) -> Vec<usize> {
    let mut out: Vec<usize> = Vec::new();
    for n in ring_order_from(ring, token) {
        if out.len() >= rf {
            break;
        }
        if !out.contains(&n) {
            out.push(n);
        }
    }
    out
}

/// Cassandra's NetworkTopologyStrategy.calculateNaturalEndpoints.
pub fn network_topology_strategy(
    ring: &[(i64, usize)],
    nodes: &[RingNode],
    token: i64,
    dc_rf: &[(String, usize)],
) -> Vec<usize> {
    use std::collections::{BTreeMap, BTreeSet};
    struct DcState {
        rf: usize,
        nodes_total: usize,
        racks_total: usize,
        replicas: Vec<usize>,
        seen_racks: BTreeSet<String>,
        skipped: Vec<usize>,
    }
    let ring_nodes: BTreeSet<usize> = ring.iter().map(|(_, n)| *n).collect();
    let mut dcs: BTreeMap<String, DcState> = BTreeMap::new();
    for (dc, rf) in dc_rf {
        let members: Vec<&RingNode> = nodes
            .iter()
            .filter(|n| &n.dc == dc && ring_nodes.contains(&n.id))
            .collect();
        let racks: BTreeSet<&String> = members.iter().map(|n| &n.rack).collect();
        dcs.insert(
            dc.clone(),
            DcState {
                rf: *rf,
                nodes_total: members.len(),
                racks_total: racks.len(),
                replicas: Vec::new(),
                seen_racks: BTreeSet::new(),
                skipped: Vec::new(),
            },
        );
    }
    let mut out = Vec::new();
    let mut visited: BTreeSet<usize> = BTreeSet::new();
    for n in ring_order_from(ring, token) {
        if !visited.insert(n) {
            continue;
        }
        let node = nodes.iter().find(|x| x.id == n).unwrap();
        let Some(st) = dcs.get_mut(&node.dc) else {
            continue;
        };
        let done = |st: &DcState| st.replicas.len() >= st.rf.min(st.nodes_total);
        if done(st) {
            continue;
        }
        if st.seen_racks.len() == st.racks_total {
            st.replicas.push(n);
            out.push(n);
        } else if st.seen_racks.contains(&node.rack) {
            st.skipped.push(n);
        } else {
            st.replicas.push(n);
            out.push(n);
            st.seen_racks.insert(node.rack.clone());
            if st.seen_racks.len() == st.racks_total {
                while !st.skipped.is_empty() && !done(st) {
                    let s = st.skipped.remove(0);
                    st.replicas.push(s);
                    out.push(s);
                }
            }
        }
    }
    out
}

#[cfg(test)]
mod tests {
    use super::*;

    // The 7-node / 2-DC fixture ring and the expected replica sets below are the
    // literals of the repo's own tests (scylla/src/routing/locator/test.rs).
    fn fixture() -> (Vec<(i64, usize)>, Vec<RingNode>) {
        let n = |id: usize, dc: &str, rack: &str| RingNode { id, dc: dc.into(), rack: rack.into() };
        let nodes = vec![
            n(1, "eu", "r1"), n(2, "eu", "r1"), n(3, "eu", "r1"), n(4, "us", "r1"),
            n(5, "us", "r1"), n(6, "us", "r2"), n(7, "eu", "r2"),
        ];
        let ring: Vec<(i64, usize)> = vec![
            (50, 1), (100, 2), (150, 5), (200, 6), (250, 1), (300, 3), (350, 4), (400, 1), (450, 6),
            (500, 7), (550, 4), (600, 2), (650, 3), (700, 3), (750, 5), (800, 7), (900, 2),
        ];
        (ring, nodes)
    }

    fn set(v: Vec<usize>) -> std::collections::BTreeSet<usize> {
        v.into_iter().collect()
    }

    #[test]
    fn simple_strategy_fixture() {
        let (ring, _) = fixture();
        assert_eq!(set(simple_strategy(&ring, 450, 3)), set(vec![6, 7, 4]));
        assert_eq!(set(simple_strategy(&ring, 450, 4)), set(vec![6, 7, 4, 2]));
        assert_eq!(set(simple_strategy(&ring, 201, 4)), set(vec![1, 3, 4, 6]));
        assert!(simple_strategy(&ring, 201, 0).is_empty());
    }

    #[test]
    fn nts_fixture() {
        let (ring, nodes) = fixture();
        let rf = |eu: usize, us: usize| vec![("eu".to_string(), eu), ("us".to_string(), us)];
        assert_eq!(set(network_topology_strategy(&ring, &nodes, 75, &rf(1, 1))), set(vec![2, 5]));
        // "NTS takes the first 2 nodes from that list - {B, E} and the last one - G
        //  because it is the only eu node that lives on rack r2."
        assert_eq!(set(network_topology_strategy(&ring, &nodes, 75, &rf(2, 1))), set(vec![2, 5, 7]));
        let unknown = vec![("unknown".to_string(), 2), ("us".to_string(), 1)];
        assert_eq!(set(network_topology_strategy(&ring, &nodes, 75, &unknown)), set(vec![5]));
    }

    #[test]
    fn shard_of_fixture() {
        // Literals of scylla/src/routing/sharding.rs test_shard_of.
        assert_eq!(shard_of(-9219783007514621794, 4, 12), 3);
        assert_eq!(shard_of(9222582454147032830, 4, 12), 3);
    }

    #[test]
    fn murmur_vectors() {
        // Vectors present as literals in the driver's own unit tests
        // (scylla/src/routing/partitioner.rs), originally from Cassandra.
        assert_eq!(murmur3_token(b"test"), -6017608668500074083);
        assert_eq!(murmur3_token(b"xd"), 4507812186440344727);
        assert_eq!(murmur3_token(b"primary_key"), -1632642444691073360);
        assert_eq!(murmur3_token("kremówki".as_bytes()), 4354931215268080151);
    }
}
