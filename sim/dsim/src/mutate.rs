//! In-flight damage to one server frame (C08).

use crate::wire;

#[derive(Debug, Clone)]
pub enum Mutation {
    /// Deliver only the first `at` bytes of the frame, then FIN.
    Truncate { at: usize },
    /// Flip bits of the wire bytes: (byte index, bit).
    BitFlip(Vec<(usize, u8)>),
    /// Overwrite `width` bytes (1, 2 or 4) at `at` of the wire bytes (after
    /// compression, header included) with `value` big-endian.
    WireOverwrite { at: usize, width: usize, value: u32 },
    /// Overwrite inside the body *before* compression: damaged content inside
    /// a well-formed container.
    BodyOverwrite { at: usize, width: usize, value: u32 },
    /// XOR the header flags byte.
    HeaderFlags(u8),
    HeaderOpcode(u8),
    HeaderVersion(u8),
    /// Replace the header length field.
    HeaderLen(u32),
    /// Replace the whole frame by these bytes.
    Replace(Vec<u8>),
    /// Alter the 4-byte uncompressed-length prefix of an LZ4 body.
    Lz4Prefix(u32),
    /// Replace the body by the given bytes (header length fixed up).
    BodyReplace(Vec<u8>),
}

pub const SPECIAL_U32: [u32; 10] = [
    0,
    0xffff_ffff,
    1,
    0x7fff_ffff,
    0x8000_0000,
    0x0000_ffff,
    0x0001_0000,
    0x00ff_ffff,
    2,
    0x7fff_fffe,
];

impl Mutation {
    pub fn describe(&self) -> String {
        match self {
            Mutation::Replace(b) => format!("Replace({} bytes)", b.len()),
            Mutation::BodyReplace(b) => format!("BodyReplace({} bytes)", b.len()),
            other => format!("{other:?}"),
        }
    }

    /// Applies the pre-compression part; returns the (possibly changed) body.
    pub fn apply_body(&self, body: &[u8]) -> Vec<u8> {
        let mut b = body.to_vec();
        match self {
            Mutation::BodyOverwrite { at, width, value } if !b.is_empty() => {
                let at = at % b.len();
                let bytes = value.to_be_bytes();
                for i in 0..*width {
                    if at + i < b.len() {
                        b[at + i] = bytes[4 - width + i];
                    }
                }
            }
            Mutation::BodyReplace(r) => b = r.clone(),
            _ => {}
        }
        b
    }

    /// Applies the wire-level part. Returns (bytes, fin_after).
    pub fn apply_wire(&self, frame: &[u8]) -> (Vec<u8>, bool) {
        let mut f = frame.to_vec();
        let n = f.len();
        match self {
            Mutation::Truncate { at } => {
                f.truncate((*at).min(n.saturating_sub(1)));
                return (f, true);
            }
            Mutation::BitFlip(bits) => {
                for (i, bit) in bits {
                    let i = i % n;
                    f[i] ^= 1 << (bit % 8);
                }
            }
            Mutation::WireOverwrite { at, width, value } => {
                let at = at % n;
                let bytes = value.to_be_bytes();
                for i in 0..*width {
                    if at + i < n {
                        f[at + i] = bytes[4 - width + i];
                    }
                }
            }
            Mutation::HeaderFlags(x) => f[1] ^= x,
            Mutation::HeaderOpcode(o) => f[4] = *o,
            Mutation::HeaderVersion(v) => f[0] = *v,
            Mutation::HeaderLen(l) => f[5..9].copy_from_slice(&l.to_be_bytes()),
            Mutation::Replace(r) => f = r.clone(),
            Mutation::Lz4Prefix(v) => {
                if f[1] & wire::FLAG_COMPRESSION != 0 && n >= wire::HEADER + 4 {
                    f[wire::HEADER..wire::HEADER + 4].copy_from_slice(&v.to_be_bytes());
                }
            }
            Mutation::BodyOverwrite { .. } | Mutation::BodyReplace(_) => {}
        }
        (f, false)
    }
}
