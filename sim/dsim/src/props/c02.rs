//! C02 - every response reaches exactly the request it answers on a shared
//! connection; a stream id is never carried by two unanswered requests.

use crate::client::{self, SessionCfg};
use crate::cluster::{Cluster, Reply, ReqInfo, Script, Strategy};
use crate::harness::{Outcome, SimSetup, run_sim};
use crate::runner::RunRequest;
use crate::tape;
use crate::wire::Request;
use crate::world::{self, Fault, MS, NetCfg, SEC, World};
use scylla::client::PoolSize;
use scylla::policies::retry::FallthroughRetryPolicy;
use serde_json::{Value, json};
use std::any::Any;
use std::num::NonZeroUsize;
use std::sync::Arc;
use std::time::Duration;

/// Marker layout: index * 16 + flags.
const F_CANCEL: u64 = 1; // the caller will abandon this request
const F_HOLD: u64 = 2; // the server may hold it for long / never answer
const F_HOLDALL: u64 = 4; // exhaustion mode: the server sits on it until released

struct C02Script {
    max_outstanding: usize,
    slow_permille: u64,
    noreply_permille: u64,
    big_permille: u64,
    event_permille: u64,
    /// Once per run (1 run in 8): while requests are outstanding the node pushes a frame
    /// with an UNKNOWN opcode whose body is itself a well-formed RESULT frame addressed
    /// to the stream of an outstanding request, carrying another request's content. A
    /// client that keeps the connection after such a frame must not resynchronise
    /// inside its body.
    trojan_armed: bool,
    /// Markers of requests the server has decided never to answer.
    held: u64,
    /// Exhaustion mode: (conn, stream, marker) of requests awaiting release.
    parked: Vec<(usize, i16, u64)>,
}

impl Script for C02Script {
    fn on_user_request(&mut self, w: &mut World, rq: &ReqInfo, req: &Request) -> Reply {
        let out = w.conns[rq.conn].cql.outstanding.len();
        self.max_outstanding = self.max_outstanding.max(out);
        if matches!(req, Request::Prepare { .. }) {
            return Reply::Default;
        }
        let m = rq.marker.unwrap_or(0);
        if self.trojan_armed && m & F_HOLDALL == 0 && w.conns[rq.conn].cql.outstanding.len() >= 2 && tape::chance("c02:trojan_now", 1, 6) {
            self.trojan_armed = false;
            let inner = crate::wire::encode_response(
                rq.stream,
                crate::wire::OP_RESULT,
                &crate::wire::body_rows(
                    &[crate::wire::col("ks1", "t1", "v", crate::wire::CType::BigInt)],
                    &[vec![crate::wire::Cell::BigInt(424_242)]],
                    &crate::wire::RowsOpts { no_metadata: false, paging_state: None, new_metadata_id: None },
                ),
                &crate::wire::Envelope::default(),
                None,
            );
            let mut unused: i16 = 30000;
            while w.conns[rq.conn].cql.outstanding.contains(&unused) {
                unused -= 1;
            }
            let mut f = vec![0x84u8, 0];
            f.extend_from_slice(&unused.to_be_bytes());
            f.push(0x7f);
            f.extend_from_slice(&(inner.len() as u32).to_be_bytes());
            f.extend_from_slice(&inner);
            w.fault(Fault::Garbage);
            w.probe("unknown_opcode_frame_with_embedded_response");
            w.srv_send_now(rq.conn, f, None);
        }
        // Some nodes push EVENT frames (stream -1) on a connection that never registered for
        // them; a client simply has no use for those. Here one travels in the same segment
        // as (right in front of) the answer to this request, usually with other answers
        // right behind it.
        if self.event_permille > 0 && m & F_HOLDALL == 0 && tape::chance("c02:event", self.event_permille, 1000) {
            let ip = w.cluster.nodes[rq.node].ip;
            let ev = crate::wire::encode_response(
                -1,
                crate::wire::OP_EVENT,
                &crate::wire::body_event_status("UP", ip, 9042),
                &crate::wire::Envelope::default(),
                None,
            );
            w.conns[rq.conn].prepend_next_response = Some(ev);
            w.probe("event_frame_in_front_of_an_answer");
        }
        if m & F_HOLDALL != 0 {
            self.parked.push((rq.conn, rq.stream, m));
            return Reply::NoReply;
        }
        if m & F_HOLD != 0 {
            // The caller abandons this one; the server may sit on it.
            match tape::weighted("c02:hold", &[2, 2, 1]) {
                0 => {}
                1 => {
                    w.fault(Fault::ReorderResp);
                    return Reply::DefaultAfter(tape::range("c02:hold_len", SEC, 5 * SEC));
                }
                _ => {
                    self.held += 1;
                    return Reply::NoReply;
                }
            }
        }
        if self.slow_permille > 0 && tape::chance("c02:slow", self.slow_permille, 1000) {
            w.fault(Fault::ReorderResp);
            return Reply::DefaultAfter(tape::range("c02:slow_len", MS, 1500 * MS));
        }
        let _ = self.noreply_permille;
        Reply::Default
    }
    /// Some answers are big (> 64 KiB frame, through server warnings) so that reading a
    /// large body with other responses queued right behind it is exercised.
    fn envelope_for(&mut self, w: &mut World, rq: &ReqInfo, req: &Request) -> crate::wire::Envelope {
        let mut env = crate::wire::Envelope::default();
        if self.big_permille > 0
            && rq.marker.map(|m| m & F_HOLDALL == 0).unwrap_or(false)
            && !matches!(req, Request::Prepare { .. })
            && tape::chance("c02:big", self.big_permille, 1000)
        {
            let n = tape::range("c02:big_parts", 2, 4) as usize;
            let len = tape::range("c02:big_len", 20_000, 60_000) as usize;
            env.warnings = (0..n).map(|k| "w".repeat(len + k)).collect();
            w.probe("big_response");
        }
        // The answer to a request whose caller goes away: sometimes it carries, in a custom
        // payload nobody asked for, 6..40 KB made of copies of a complete, well-formed
        // RESULT/Void frame addressed to the stream of ANOTHER, live request. A client that
        // reads the response it no longer needs in any other way than frame by frame must
        // not end up parsing the inside of it.
        if rq.marker.map(|m| m & F_CANCEL != 0 && m & F_HOLDALL == 0).unwrap_or(false)
            && !matches!(req, Request::Prepare { .. })
            && w.conns[rq.conn].cql.compression.is_none()
            && tape::chance("c02:orphan_payload", 1, 3)
        {
            let live = w.conns[rq.conn]
                .cql
                .outstanding_markers
                .iter()
                .find(|(s, m)| **s != rq.stream && **m & (F_CANCEL | F_HOLDALL) == 0)
                .map(|(s, _)| *s);
            if let Some(s) = live {
                let tile = crate::wire::encode_response(s, crate::wire::OP_RESULT, &1i32.to_be_bytes(), &crate::wire::Envelope::default(), None);
                let copies = tape::range("c02:orphan_payload_len", 6_000, 40_000) as usize / tile.len();
                let mut pad = Vec::with_capacity(copies * tile.len());
                for _ in 0..copies {
                    pad.extend_from_slice(&tile);
                }
                env.custom_payload.push(("pad".into(), pad));
                w.probe("abandoned_request_answered_with_embedded_frames");
            }
        }
        env
    }
    fn as_any(&mut self) -> &mut dyn Any {
        self
    }
}

#[derive(Clone, Debug)]
struct Plan {
    tasks: usize,
    per_task: usize,
    coalescing: u64,
    cancel_permille: u64,
    prepared_permille: u64,
    exhaust: bool,
    big_requests: bool,
}

pub fn run(req: &RunRequest) -> Value {
    let thorough = req.tier == "thorough";
    run_sim(req, move || {
        let plan = Plan {
            tasks: tape::range("c02:tasks", 2, if thorough { 96 } else { 48 }) as usize,
            per_task: tape::range("c02:per_task", 1, 6) as usize,
            coalescing: tape::choose("c02:coalescing", 4),
            cancel_permille: [0, 100, 300, 600][tape::choose("c02:cancel_rate", 4) as usize],
            prepared_permille: [0, 300, 1000][tape::choose("c02:prepared_rate", 3) as usize],
            // Rarely: fill the whole 32768-id space of the connection.
            exhaust: tape::chance("c02:exhaust", if thorough { 20 } else { 3 }, 1000),
            big_requests: tape::chance("c02:big_requests", 1, 3),
        };
        let mut cluster = Cluster::new("c02");
        cluster.add_node("dc1", "r1", 0, vec![0]);
        client::standard_catalog(&mut cluster, Strategy::Simple(1), false);
        cluster.think_min = 0;
        cluster.think_max = [200_000, 5 * MS, 40 * MS][tape::choose("c02:think", 3) as usize];
        let net = NetCfg {
            chaos_yield_permille: [0, 50, 200][tape::choose("c02:chaos", 3) as usize],
            chunk_permille: [0, 100, 500][tape::choose("c02:chunk", 3) as usize],
            backpressure_permille: [0, 0, 30][tape::choose("c02:backpressure", 3) as usize],
            spike_permille: [0, 20][tape::choose("c02:spike", 2) as usize],
            ..NetCfg::default()
        };
        let slow_permille = [0, 50, 250][tape::choose("c02:slow_rate", 3) as usize];
        let setup = SimSetup {
            cluster,
            net,
            virt_cap: Duration::from_secs(600),
            world_oracles: vec!["c02."],
            panic_is_violation: true,
            rlimit_as: None,
            alloc_limit: None,
        };
        (setup, move || main(plan, slow_permille))
    })
}

async fn main(plan: Plan, slow_permille: u64) -> Outcome {
    let mut out = Outcome::default();
    {
        let mut w = world::world();
        w.script = Some(Box::new(C02Script {
            max_outstanding: 0,
            slow_permille,
            noreply_permille: 0,
            big_permille: [0, 0, 50, 300][tape::choose("c02:big_rate", 4) as usize],
            event_permille: [0, 0, 0, 60][tape::choose("c02:event_rate", 4) as usize],
            trojan_armed: tape::chance("c02:trojan", 1, 8),
            held: 0,
            parked: Vec::new(),
        }));
    }
    let cfg = SessionCfg {
        pool: PoolSize::PerHost(NonZeroUsize::new(1).unwrap()),
        coalescing: plan.coalescing,
        retry: Some(Arc::new(FallthroughRetryPolicy)),
        compression: client::draw_compression(),
        ..SessionCfg::default()
    };
    let session = match client::build_session(&cfg).await {
        Ok(s) => Arc::new(s),
        Err(e) => {
            out.inconclusive = Some(format!("session: {e}"));
            return out;
        }
    };
    let prepared = match session.prepare(client::Q_PREPARED_SELECT).await {
        Ok(p) => Arc::new(p),
        Err(e) => {
            out.inconclusive = Some(format!("prepare: {e}"));
            return out;
        }
    };

    if plan.exhaust {
        return exhaust(out, session).await;
    }
    // Plan every request up front (all choices come from the tape).
    struct ReqPlan {
        marker: u64,
        prepared: bool,
        pad: usize,
        /// None: run to completion. Some(None): drop before first poll.
        /// Some(Some(ns)): abandon after ns.
        cancel: Option<Option<u64>>,
        gap: u64,
    }
    let mut idx = 0u64;
    let mut handles = Vec::new();
    let mut planned_cancels = 0u64;
    for t in 0..plan.tasks {
        let start_delay = tape::range("c02:start", 0, 3 * MS);
        let mut reqs = Vec::new();
        for _ in 0..plan.per_task {
            idx += 1;
            let cancel = if tape::chance("c02:cancel", plan.cancel_permille, 1000) {
                planned_cancels += 1;
                Some(match tape::weighted("c02:cancel_kind", &[1, 2, 3, 3, 2]) {
                    0 => None,
                    1 => Some(0),
                    2 => Some(tape::range("c02:cancel_at", 1, 3 * MS)),
                    3 => Some(tape::range("c02:cancel_at2", 3 * MS, 60 * MS)),
                    _ => Some(tape::range("c02:cancel_at3", 60 * MS, 3 * SEC)),
                })
            } else {
                None
            };
            let mut flags = 0;
            if cancel.is_some() {
                flags |= F_CANCEL;
                // Only requests abandoned early may be held by the server.
                if !matches!(cancel, Some(Some(d)) if d >= 60 * MS) {
                    flags |= F_HOLD;
                }
            }
            reqs.push(ReqPlan {
                marker: idx * 16 + flags,
                prepared: tape::chance("c02:prepared", plan.prepared_permille, 1000),
                // A request frame larger than the connection's write buffer (the statement
                // text is padded with leading whitespace): written in several pieces, with
                // back-pressure possible in the middle of it.
                pad: if plan.big_requests && tape::chance("c02:big_request", 1, 6) { tape::range("c02:pad", 8_000, 40_000) as usize } else { 0 },
                cancel,
                gap: [0, 0, 1, 200_000, 5 * MS][tape::choose("c02:gap", 5) as usize],
            });
        }
        let session = session.clone();
        let prepared = prepared.clone();
        handles.push(tokio::spawn(async move {
            let mut violations: Vec<String> = Vec::new();
            let mut ok = 0u64;
            let mut errs = 0u64;
            let mut cancelled = 0u64;
            world::sleep_ns(start_delay).await;
            for r in reqs {
                let m = r.marker;
                let fut = async {
                    if r.prepared {
                        session.execute_unpaged(&prepared, (t as i64, m as i64)).await
                    } else {
                        if r.pad > 0 {
                            world::world().probe("big_request_sent");
                        }
                        session.query_unpaged(format!("{}{}", " ".repeat(r.pad), client::q_marker(m)), ()).await
                    }
                };
                let res = match r.cancel {
                    None => Some(fut.await),
                    Some(None) => {
                        drop(fut);
                        None
                    }
                    Some(Some(d)) => {
                        match tokio::time::timeout(Duration::from_nanos(d), fut).await {
                            Ok(r) => Some(r),
                            Err(_) => None,
                        }
                    }
                };
                match res {
                    None => {
                        cancelled += 1;
                        world::world().fault(Fault::Cancel);
                    }
                    Some(Ok(qr)) => {
                        ok += 1;
                        if let Err(e) = client::check_marker_rows(qr, m) {
                            violations.push(e);
                        }
                    }
                    Some(Err(_)) => errs += 1,
                }
                match r.gap {
                    0 => {}
                    1 => tokio::task::yield_now().await,
                    g => world::sleep_ns(g).await,
                }
            }
            (violations, ok, errs, cancelled)
        }));
    }
    let mut ok = 0;
    let mut errs = 0;
    let mut cancelled = 0;
    // Every request that is not abandoned is answered by the node within seconds.
    let join_deadline = tokio::time::Instant::now() + Duration::from_secs(600);
    for h in handles {
        match tokio::time::timeout_at(join_deadline, h).await {
            Ok(Ok((v, o, e, c))) => {
                for m in v {
                    out.violation("c02.attribution", m);
                }
                ok += o;
                errs += e;
                cancelled += c;
            }
            Ok(Err(e)) => out.violation("c02.client_task", format!("client task failed: {e}")),
            Err(_) => {
                out.violation(
                    "c02.response_never_delivered",
                    "a caller is still waiting 600 virtual s after the workload started although the node answers every request that was not abandoned within seconds: a response reached no one".into(),
                );
                break;
            }
        }
    }
    // Let late responses to abandoned requests arrive (orphan path); requests the
    // node never answered stay abandoned for good.
    world::sleep_ns(tape::range("c02:settle", 6, 12) * SEC).await;
    // A burst of fresh requests: they may only use ids that are really free.
    let mut burst = Vec::new();
    for k in 0..tape::range("c02:burst", 0, 64) {
        let m = (idx + 100 + k) * 16;
        let session = session.clone();
        burst.push(tokio::spawn(async move {
            let r = tokio::time::timeout(Duration::from_secs(60), session.query_unpaged(client::q_marker(m), ())).await;
            (m, r)
        }));
    }
    for h in burst {
        if let Ok((m, Ok(Ok(qr)))) = h.await {
            if let Err(e) = client::check_marker_rows(qr, m) {
                out.violation("c02.attribution", e);
            }
        }
    }
    // Bounded liveness / recovery: a fresh request is served.
    let m = (idx + 1) * 16;
    match tokio::time::timeout(
        Duration::from_secs(120),
        session.query_unpaged(client::q_marker(m), ()),
    )
    .await
    {
        Ok(Ok(qr)) => {
            if let Err(e) = client::check_marker_rows(qr, m) {
                out.violation("c02.attribution", e);
            }
        }
        Ok(Err(_)) => {}
        Err(_) => out.violation(
            "c02.liveness",
            "fresh request after quiescence did not return within 120 virtual s".into(),
        ),
    }
    let max_out = {
        let mut w = world::world();
        let mut s = w.script.take().unwrap();
        let sc = s.as_any().downcast_mut::<C02Script>().unwrap();
        let r = (sc.max_outstanding, sc.held);
        w.script = Some(s);
        r
    };
    out.nontrivial = max_out.0 >= 2 || cancelled > 0;
    out.count("requests_ok", ok);
    out.count("requests_err", errs);
    out.count("requests_cancelled", cancelled);
    out.count("server_never_answered", max_out.1);
    out.count("max_outstanding_on_conn", max_out.0 as u64);
    out.sample = json!({
        "tasks": plan.tasks, "per_task": plan.per_task, "coalescing": plan.coalescing,
        "cancel_permille": plan.cancel_permille, "planned_cancels": planned_cancels,
        "ok": ok, "err": errs, "cancelled": cancelled, "max_outstanding": max_out.0,
        "server_never_answered": max_out.1,
    });
    out
}

/// Stream-id exhaustion: more requests than ids are outstanding at once; the
/// server then answers a chosen few (block boundaries of the id bitmap
/// included) and the freed ids - and only those - may be used again.
async fn exhaust(mut out: Outcome, session: Arc<scylla::client::session::Session>) -> Outcome {
    const FILL: usize = 32768;
    const N: usize = FILL + 300;
    let mut handles = Vec::with_capacity(N);
    for i in 0..FILL {
        let m = (i as u64 + 10) * 16 + F_HOLDALL;
        let session = session.clone();
        handles.push(tokio::spawn(async move {
            let r = session.query_unpaged(client::q_marker(m), ()).await;
            (m, r.map_err(|e| client::short_err(&e)))
        }));
    }
    // Let everything reach the node, then a few callers abandon their (still
    // unanswered) requests: their ids must stay reserved.
    world::sleep_ns(300 * MS).await;
    let abandon = tape::range("c02:exhaust_abandon", 0, 40) as usize;
    for k in 0..abandon {
        let idx = tape::choose("c02:exhaust_abandon_idx", FILL as u64) as usize;
        handles[idx].abort();
        let _ = k;
        world::world().fault(Fault::Cancel);
    }
    world::sleep_ns(50 * MS).await;
    for i in FILL..N {
        let m = (i as u64 + 10) * 16 + F_HOLDALL;
        let session = session.clone();
        handles.push(tokio::spawn(async move {
            let r = session.query_unpaged(client::q_marker(m), ()).await;
            (m, r.map_err(|e| client::short_err(&e)))
        }));
    }
    world::sleep_ns(200 * MS).await;
    let parked: Vec<(usize, i16, u64)> = {
        let mut w = world::world();
        let mut s = w.script.take().unwrap();
        let p = s.as_any().downcast_mut::<C02Script>().unwrap().parked.clone();
        w.script = Some(s);
        p
    };
    out.count("exhaustion_outstanding", parked.len() as u64);
    let distinct: std::collections::BTreeSet<(usize, i16)> = parked.iter().map(|(c, s, _)| (*c, *s)).collect();
    if distinct.len() != parked.len() {
        out.violation("c02.stream_id_reuse", "two outstanding requests share a stream id (exhaustion mode)".into());
    }
    if parked.len() > 32768 {
        out.violation("c02.stream_id_range", format!("{} requests outstanding on one connection", parked.len()));
    }
    // Release a chosen subset.
    let mut release: Vec<i16> = vec![0, 1, 63, 64, 65, 127, 128, 4095, 4096, 32703, 32704, 32767];
    for _ in 0..20 {
        release.push(tape::choose("c02:release_id", 32768) as i16);
    }
    release.sort();
    release.dedup();
    let mut released_markers = Vec::new();
    {
        let mut w = world::world();
        let cols = vec![crate::wire::col(client::KS, client::TABLE, "v", crate::wire::CType::BigInt)];
        for (conn, stream, m) in &parked {
            if release.contains(stream) {
                let body = crate::wire::body_rows(&cols, &[vec![crate::wire::Cell::BigInt(*m as i64)]], &Default::default());
                w.respond(*conn, *stream, crate::wire::OP_RESULT, &body, &Default::default(), 0);
                released_markers.push(*m);
            }
        }
    }
    world::sleep_ns(100 * MS).await;
    // New requests: they can only get the freed ids; the mock's monitor flags any other reuse.
    let mut fresh = Vec::new();
    for k in 0..released_markers.len() {
        let m = (100_000 + k as u64) * 16;
        let session = session.clone();
        fresh.push(tokio::spawn(async move {
            let r = tokio::time::timeout(Duration::from_secs(30), session.query_unpaged(client::q_marker(m), ())).await;
            (m, r)
        }));
    }
    let mut fresh_ok = 0u64;
    for h in fresh {
        if let Ok((m, Ok(Ok(qr)))) = h.await {
            fresh_ok += 1;
            if let Err(e) = client::check_marker_rows(qr, m) {
                out.violation("c02.attribution", e);
            }
        }
    }
    out.count("exhaustion_fresh_ok", fresh_ok);
    // Collect: released ones must have succeeded with their own marker; the excess failed.
    let mut unable = 0u64;
    let mut done = 0u64;
    for h in handles {
        if h.is_finished() {
            if let Ok((m, r)) = h.await {
                done += 1;
                match r {
                    Ok(qr) => {
                        if let Err(e) = client::check_marker_rows(qr, m) {
                            out.violation("c02.attribution", e);
                        }
                        if !released_markers.contains(&m) {
                            out.violation("c02.attribution", format!("request marker {m} completed although the server never answered it"));
                        }
                    }
                    Err(e) => {
                        if e.contains("stream") {
                            unable += 1;
                        }
                    }
                }
            }
        } else {
            h.abort();
        }
    }
    out.count("exhaustion_unable_to_alloc", unable);
    out.count("exhaustion_done", done);
    if parked.len() == 32768 && unable == 0 {
        out.violation("c02.exhaustion", "all 32768 ids were outstanding but no excess request failed for lack of a stream id".into());
    }
    out.nontrivial = true;
    out.sample = json!({"mode": "exhaustion", "outstanding": parked.len(), "released": released_markers.len(), "fresh_ok": fresh_ok, "unable_to_alloc": unable});
    out
}
