//! C06 - a request not marked idempotent is never re-sent after it may have
//! been applied; the driver sends exactly the attempts the policy decided.

use crate::client::{self, SessionCfg};
use crate::cluster::{Cluster, Reply, ReqInfo, Script, Strategy};
use crate::harness::{Outcome, SimSetup, run_sim};
use crate::runner::RunRequest;
use crate::tape;
use crate::wire::{self, Request, W, err};
use crate::world::{self, Fault, MS, NetCfg, SEC, World};
use scylla::client::PoolSize;
use scylla::policies::retry::{
    DefaultRetryPolicy, DowngradingConsistencyRetryPolicy, FallthroughRetryPolicy, RequestInfo,
    RetryDecision, RetryPolicy, RetrySession,
};
use scylla::statement::batch::Batch;
use scylla::statement::{Consistency, Statement};
use serde_json::{Value, json};
use std::any::Any;
use std::collections::BTreeMap;
use std::num::NonZeroUsize;
use std::sync::{Arc, Mutex};
use std::time::Duration;

#[derive(Debug, Clone, PartialEq)]
pub enum AttemptOutcome {
    Success,
    Unavailable { alive: i32, required: i32 },
    ReadTimeout { received: i32, required: i32, data_present: bool },
    WriteTimeout { received: i32, required: i32, write_type: &'static str },
    Overloaded,
    ServerError,
    TruncateError,
    IsBootstrapping,
    ReadFailure,
    WriteFailure,
    FunctionFailure,
    Invalid,
    Syntax,
    Unauthorized,
    AlreadyExists,
    ConfigError,
    RateLimit,
    UnknownCode,
    /// The node received the request and then reset the connection.
    RstAfterReceive,
    /// The node answers with a RESULT whose body is cut short (parse error).
    CorruptBody,
    /// The node received the request; then local writes on the connection start to
    /// fail (the next keepalive hits it) while nothing is ever read.
    WriteFailAfterReceive,
}

impl AttemptOutcome {
    /// Outcomes after which the statement text of the property allows a
    /// non-idempotent request to be sent again ("proves not applied").
    fn proves_not_applied(&self) -> bool {
        matches!(
            self,
            AttemptOutcome::Unavailable { .. }
                | AttemptOutcome::IsBootstrapping
                | AttemptOutcome::ReadTimeout { .. }
        )
    }
}

const WRITE_TYPES: [&str; 9] = [
    "SIMPLE", "BATCH", "UNLOGGED_BATCH", "COUNTER", "BATCH_LOG", "CAS", "VIEW", "CDC", "WEIRD",
];

fn draw_outcome(success_weight: u64, rst: bool) -> AttemptOutcome {
    use AttemptOutcome::*;
    match tape::weighted(
        "c06:outcome",
        &[success_weight, 4, 4, 5, 2, 2, 2, 3, 1, 1, 1, 1, 1, 1, 1, 1, 1, 1, if rst { 4 } else { 0 }, 1, if rst { 3 } else { 0 }],
    ) {
        0 => Success,
        1 => Unavailable {
            alive: tape::choose("c06:alive", 4) as i32,
            required: 1 + tape::choose("c06:required", 3) as i32,
        },
        2 => {
            let required = 1 + tape::choose("c06:rt_required", 3) as i32;
            ReadTimeout {
                received: tape::choose("c06:rt_received", 4) as i32,
                required,
                data_present: tape::chance("c06:rt_data", 1, 2),
            }
        }
        3 => WriteTimeout {
            received: tape::choose("c06:wt_received", 3) as i32,
            required: 1 + tape::choose("c06:wt_required", 3) as i32,
            write_type: WRITE_TYPES[tape::choose("c06:wt_type", WRITE_TYPES.len() as u64) as usize],
        },
        4 => Overloaded,
        5 => ServerError,
        6 => TruncateError,
        7 => IsBootstrapping,
        8 => ReadFailure,
        9 => WriteFailure,
        10 => FunctionFailure,
        11 => Invalid,
        12 => Syntax,
        13 => Unauthorized,
        14 => AlreadyExists,
        15 => ConfigError,
        16 => RateLimit,
        17 => UnknownCode,
        18 => RstAfterReceive,
        19 => CorruptBody,
        _ => WriteFailAfterReceive,
    }
}

fn error_reply(o: &AttemptOutcome, cl: u16, delay: u64) -> Reply {
    use AttemptOutcome::*;
    let mut w = W::new();
    let code = match o {
        Unavailable { alive, required } => {
            w.u16(cl).i32(*required).i32(*alive);
            err::UNAVAILABLE
        }
        ReadTimeout { received, required, data_present } => {
            w.u16(cl).i32(*received).i32(*required).u8(*data_present as u8);
            err::READ_TIMEOUT
        }
        WriteTimeout { received, required, write_type } => {
            w.u16(cl).i32(*received).i32(*required).string(write_type);
            err::WRITE_TIMEOUT
        }
        Overloaded => err::OVERLOADED,
        ServerError => err::SERVER_ERROR,
        TruncateError => err::TRUNCATE_ERROR,
        IsBootstrapping => err::IS_BOOTSTRAPPING,
        ReadFailure => {
            w.u16(cl).i32(0).i32(1).i32(1).u8(0);
            err::READ_FAILURE
        }
        WriteFailure => {
            w.u16(cl).i32(0).i32(1).i32(1).string("SIMPLE");
            err::WRITE_FAILURE
        }
        FunctionFailure => {
            w.string("ks1").string("f").string_list(&[]);
            err::FUNCTION_FAILURE
        }
        Invalid => err::INVALID,
        Syntax => err::SYNTAX_ERROR,
        Unauthorized => err::UNAUTHORIZED,
        AlreadyExists => {
            w.string("ks1").string("t1");
            err::ALREADY_EXISTS
        }
        ConfigError => err::CONFIG_ERROR,
        RateLimit => {
            w.u8(1).u8(0);
            61440
        }
        UnknownCode => 0x6666,
        Success | RstAfterReceive | CorruptBody | WriteFailAfterReceive => unreachable!(),
    };
    Reply::Error {
        code,
        msg: format!("{o:?}"),
        extra: w.buf,
        delay,
    }
}

#[derive(Debug, Clone)]
struct FrameSeen {
    node: usize,
    consistency: u16,
    outcome: AttemptOutcome,
}

#[derive(Default)]
struct C06Script {
    success_weight: u64,
    /// Connection resets are only scripted when requests run one at a time: a
    /// reset would otherwise destroy other requests' attempts on the shared
    /// connection and the per-request histories could not be aligned.
    rst: bool,
    frames: BTreeMap<u64, Vec<FrameSeen>>,
    /// Speculative runs: answers take 0..120 ms.
    slow_answers: bool,
    exhaust_mode: bool,
    fill_outstanding: u64,
    /// Forgetful runs: per request, how many more EXECUTEs are answered UNPREPARED (the
    /// node has dropped the statement again); u32::MAX = every one, forever.
    forgetful: bool,
    unprep_budget: BTreeMap<u64, u32>,
    unprepared_frames: BTreeMap<u64, u64>,
}

/// Marker flag of the requests that fill a connection's stream-id space.
const F_FILL: u64 = 1;
/// Marker flag: a two-row result read through the paging iterator with page size 1; the
/// first page is simply served, the request that is scripted and judged is the one for
/// the SECOND page (it starts at the first page's coordinator and has a plan of its own).
const F_PAGE2: u64 = 2;

impl Script for C06Script {
    fn rows_for(&mut self, _w: &mut World, rq: &ReqInfo, stmt: &crate::cluster::StmtDef) -> Vec<Vec<crate::wire::Cell>> {
        let rows = crate::cluster::default_rows(stmt, rq.marker);
        if rq.marker.map(|m| m & F_PAGE2 != 0).unwrap_or(false) && !self.exhaust_mode {
            return vec![rows[0].clone(), rows[0].clone()];
        }
        rows
    }
    fn on_user_request(&mut self, w: &mut World, rq: &ReqInfo, req: &Request) -> Reply {
        let (cl, is_prepare) = match req {
            Request::Query { params, .. } => (params.consistency, false),
            Request::Execute { params, .. } => (params.consistency, false),
            Request::Batch(b) => (b.consistency, false),
            Request::Prepare { .. } => (0, true),
            _ => (0, true),
        };
        if is_prepare {
            return Reply::Default;
        }
        let Some(m) = rq.marker else {
            return Reply::Default;
        };
        if m & F_PAGE2 != 0 && !self.exhaust_mode && !self.forgetful {
            let has_state = match req {
                Request::Query { params, .. } | Request::Execute { params, .. } => params.paging_state.is_some(),
                _ => false,
            };
            if !has_state {
                return Reply::Default;
            }
        }
        if self.forgetful {
            if let Request::Execute { id, .. } = req {
                let k = self
                    .unprep_budget
                    .entry(m)
                    .or_insert_with(|| [1u32, 1, 2, 3, 6, u32::MAX][tape::choose("c06:unprepared_times", 6) as usize]);
                if *k > 0 {
                    if *k != u32::MAX {
                        *k -= 1;
                    }
                    w.cluster.nodes[rq.node].prepared.remove(id);
                    *self.unprepared_frames.entry(m).or_insert(0) += 1;
                    w.fault(Fault::Evict);
                    return Reply::Default; // the node does not know the id: UNPREPARED
                }
            }
            self.frames.entry(m).or_default().push(FrameSeen {
                node: rq.node,
                consistency: cl,
                outcome: AttemptOutcome::Success,
            });
            return Reply::DefaultAfter(w.think());
        }
        if self.exhaust_mode {
            // Exhaustion runs: the fill requests are never answered (their stream ids
            // stay taken), everything else succeeds.
            if m & F_FILL != 0 {
                if rq.node == 0 {
                    self.fill_outstanding += 1;
                }
                return Reply::NoReply;
            }
            self.frames.entry(m).or_default().push(FrameSeen {
                node: rq.node,
                consistency: cl,
                outcome: AttemptOutcome::Success,
            });
            return Reply::DefaultAfter(w.think());
        }
        // A quarter of the requests are "sticky" (every attempt gets the outcome of
        // the first one) and a quarter follow a two-outcome "pattern" (attempts
        // alternate between the first two outcomes), so that one-shot retry rules
        // are exercised past their budget, also across target changes.
        let mode = m / 16 % 4;
        let seen: Vec<AttemptOutcome> = self
            .frames
            .get(&m)
            .map(|f| f.iter().map(|x| x.outcome.clone()).collect())
            .unwrap_or_default();
        let outcome = match mode {
            1 if !seen.is_empty() && seen[0] != AttemptOutcome::Success => seen[0].clone(),
            2 if seen.len() >= 2 && seen[..2].iter().all(|o| *o != AttemptOutcome::Success) => {
                seen[seen.len() % 2].clone()
            }
            2 if seen.len() < 2 => draw_outcome(1, self.rst),
            _ => draw_outcome(self.success_weight, self.rst),
        };
        self.frames.entry(m).or_default().push(FrameSeen {
            node: rq.node,
            consistency: cl,
            outcome: outcome.clone(),
        });
        let mut delay = w.think();
        if self.slow_answers {
            delay += tape::range("c06:spec_delay", 0, 120) * MS;
        }
        match outcome {
            AttemptOutcome::Success => Reply::DefaultAfter(delay),
            AttemptOutcome::RstAfterReceive => Reply::Close { rst: true, delay },
            AttemptOutcome::WriteFailAfterReceive => {
                w.conns[rq.conn].fail_writes = true;
                Reply::NoReply
            }
            AttemptOutcome::CorruptBody => {
                w.fault(Fault::Corrupt);
                // RESULT/Rows announcing one column but ending right there.
                let mut b = W::new();
                b.i32(0x0002).i32(0x0001).i32(1);
                Reply::Raw {
                    opcode: wire::OP_RESULT,
                    body: b.buf,
                    env: Default::default(),
                    delay,
                }
            }
            o => error_reply(&o, cl, delay),
        }
    }
    fn as_any(&mut self) -> &mut dyn Any {
        self
    }
}

#[derive(Debug, Clone)]
struct Decision {
    consistency_in: Consistency,
    error: String,
    decision: RetryDecision,
}

#[derive(Debug)]
struct RecPolicy {
    inner: Arc<dyn RetryPolicy>,
    log: Arc<Mutex<Vec<Decision>>>,
}

struct RecSession {
    inner: Box<dyn RetrySession>,
    log: Arc<Mutex<Vec<Decision>>>,
}

impl RetryPolicy for RecPolicy {
    fn new_session(&self) -> Box<dyn RetrySession> {
        Box::new(RecSession {
            inner: self.inner.new_session(),
            log: self.log.clone(),
        })
    }
}

impl RetrySession for RecSession {
    fn decide_should_retry(&mut self, info: RequestInfo) -> RetryDecision {
        let consistency_in = info.consistency;
        let error: String = format!("{}", info.error).chars().take(60).collect();
        let d = self.inner.decide_should_retry(info);
        self.log.lock().unwrap().push(Decision {
            consistency_in,
            error,
            decision: d.clone(),
        });
        d
    }
    fn reset(&mut self) {
        self.inner.reset()
    }
}

#[derive(Clone, Copy, Debug, PartialEq, Eq)]
enum Policy {
    Default,
    Downgrading,
    Fallthrough,
}

const CONSISTENCIES: [Consistency; 8] = [
    Consistency::One,
    Consistency::Quorum,
    Consistency::All,
    Consistency::EachQuorum,
    Consistency::LocalQuorum,
    Consistency::Two,
    Consistency::Serial,
    Consistency::LocalSerial,
];

#[derive(Clone, Debug)]
struct Plan {
    nodes: usize,
    requests: usize,
    concurrent: bool,
    success_weight: u64,
    /// The execution profile carries a speculative execution policy (and attempts are
    /// slow enough for it to fire): a statement not marked idempotent must still be sent
    /// exactly as the retry policy decides. Idempotent requests are not judged in such
    /// runs (speculative copies are not retry decisions).
    speculative: bool,
    /// Rare: every stream id of the connection to the replica is taken; the attempt at
    /// it fails locally ("no free stream id") and the retry policy decides what follows.
    exhaust: bool,
    /// A node keeps forgetting prepared statements: EXECUTEs are answered UNPREPARED once,
    /// several times in a row, or forever. However often the driver re-prepares and
    /// repeats within one attempt, the number of frames stays bounded by the attempts
    /// the policy decided, and the call returns.
    forgetful: bool,
}

pub fn run(req: &RunRequest) -> Value {
    let thorough = req.tier == "thorough";
    run_sim(req, move || {
        let plan = Plan {
            nodes: tape::range("c06:nodes", 2, 6) as usize,
            requests: tape::range("c06:requests", 1, 12) as usize,
            concurrent: tape::chance("c06:concurrent", 1, 3),
            success_weight: [2, 6, 20][tape::choose("c06:success_weight", 3) as usize],
            speculative: tape::chance("c06:speculative", 1, 5),
            exhaust: tape::chance("c06:exhaust", if thorough { 10 } else { 2 }, 1000),
            forgetful: tape::chance("c06:forgetful", 1, 8),
        };
        let mut plan = plan;
        if std::env::var("VERIF_C06_EXHAUST").is_ok() {
            plan.exhaust = true; // manual testing only
        }
        if plan.exhaust {
            plan.nodes = 2;
            plan.speculative = false;
            plan.concurrent = false;
            plan.forgetful = false;
        }
        if plan.forgetful {
            plan.speculative = false;
        }
        let plan = plan;
        let mut cluster = Cluster::new("c06");
        for i in 0..plan.nodes {
            cluster.add_node("dc1", "r1", 0, vec![(i as i64) * 1000 - 2500]);
        }
        // Exhaustion runs: one replica per key, so that the plan starts at a known node.
        client::standard_catalog(&mut cluster, Strategy::Simple(if plan.exhaust { 1 } else { plan.nodes.min(3) }), false);
        cluster.think_min = 0;
        cluster.think_max = 3 * MS;
        let net = NetCfg {
            chaos_yield_permille: [0, 50][tape::choose("c06:chaos", 2) as usize],
            chunk_permille: [0, 300][tape::choose("c06:chunk", 2) as usize],
            ..NetCfg::default()
        };
        let setup = SimSetup {
            cluster,
            net,
            virt_cap: Duration::from_secs(1200),
            world_oracles: vec![],
            panic_is_violation: true,
            rlimit_as: None,
            alloc_limit: None,
        };
        (setup, move || main(plan))
    })
}

struct ReqSpec {
    marker: u64,
    idempotent: bool,
    policy: Policy,
    consistency: Consistency,
    kind: u64, // 0 select, 1 write, 2 prepared select, 3 prepared insert, 4 batch
}

async fn main(plan: Plan) -> Outcome {
    let mut out = Outcome::default();
    {
        let mut w = world::world();
        w.script = Some(Box::new(C06Script {
            success_weight: plan.success_weight,
            rst: !plan.concurrent,
            slow_answers: plan.speculative,
            exhaust_mode: plan.exhaust,
            forgetful: plan.forgetful,
            ..Default::default()
        }));
    }
    let cfg = SessionCfg {
        contact_nodes: vec![0],
        pool: PoolSize::PerHost(NonZeroUsize::new(if plan.exhaust { 1 } else { tape::range("c06:pool", 1, 2) as usize }).unwrap()),
        retry: Some(Arc::new(FallthroughRetryPolicy)),
        fetch_schema: plan.exhaust, // token-aware routing needs the keyspace's replication
        keepalive_interval: if plan.exhaust { None } else { Some(Duration::from_secs(1)) },
        keepalive_timeout: if plan.exhaust { None } else { Some(Duration::from_secs(2)) },
        ..SessionCfg::default()
    };
    let mut cfg = cfg;
    if plan.speculative {
        cfg.profile = Some(
            scylla::client::execution_profile::ExecutionProfile::builder()
                .request_timeout(None)
                .retry_policy(Arc::new(FallthroughRetryPolicy))
                .speculative_execution_policy(Some(Arc::new(
                    scylla::policies::speculative_execution::SimpleSpeculativeExecutionPolicy {
                        max_retry_count: 2,
                        retry_interval: Duration::from_millis(30),
                    },
                )))
                .build(),
        );
        out.count("speculative_policy_runs", 1);
    }
    let session = match client::build_session(&cfg).await {
        Ok(s) => Arc::new(s),
        Err(e) => {
            out.inconclusive = Some(format!("session: {e}"));
            return out;
        }
    };
    world::sleep_ns(500 * MS).await;
    let p_select = session.prepare(client::Q_PREPARED_SELECT).await;
    let p_insert = session.prepare(client::Q_PREPARED_INSERT).await;
    let (Ok(p_select), Ok(p_insert)) = (p_select, p_insert) else {
        out.inconclusive = Some("prepare failed".into());
        return out;
    };
    if plan.exhaust {
        return exhaustion(out, session, p_select).await;
    }

    let mut specs = Vec::new();
    for i in 0..plan.requests {
        let kind = if plan.forgetful { [2u64, 3, 6][tape::choose("c06:kind_prepared", 3) as usize] } else { tape::choose("c06:kind", 12) };
        specs.push(ReqSpec {
            marker: (i as u64 + 1) * 16 + if kind >= 10 { F_PAGE2 } else { 0 },
            idempotent: tape::chance("c06:idempotent", 1, 2),
            policy: [Policy::Default, Policy::Downgrading, Policy::Fallthrough]
                [tape::weighted("c06:policy", &[3, 3, 1])],
            consistency: CONSISTENCIES[tape::weighted("c06:cl", &[3, 2, 1, 1, 1, 1, 1, 1])],
            kind,
        });
    }
    let mut handles = Vec::new();
    let mut results = Vec::new();
    for s in specs {
        let session = session.clone();
        let p_select = p_select.clone();
        let p_insert = p_insert.clone();
        let log: Arc<Mutex<Vec<Decision>>> = Arc::new(Mutex::new(Vec::new()));
        let inner: Arc<dyn RetryPolicy> = match s.policy {
            Policy::Default => Arc::new(DefaultRetryPolicy::new()),
            Policy::Downgrading => Arc::new(DowngradingConsistencyRetryPolicy::new()),
            Policy::Fallthrough => Arc::new(FallthroughRetryPolicy),
        };
        let rec: Arc<dyn RetryPolicy> = Arc::new(RecPolicy {
            inner,
            log: log.clone(),
        });
        let log2 = log.clone();
        let fut = async move {
            let m = s.marker;
            let res: Result<(), String> = match s.kind {
                0 | 1 => {
                    let text = if s.kind == 0 { client::q_marker(m) } else { client::q_write_marker(m) };
                    let mut st = Statement::new(text);
                    st.set_is_idempotent(s.idempotent);
                    st.set_consistency(s.consistency);
                    st.set_retry_policy(Some(rec));
                    session.query_unpaged(st, ()).await.map(|_| ()).map_err(|e| client::short_err(&e))
                }
                2 | 3 => {
                    let mut p = if s.kind == 2 { p_select.clone() } else { p_insert.clone() };
                    p.set_is_idempotent(s.idempotent);
                    p.set_consistency(s.consistency);
                    p.set_retry_policy(Some(rec));
                    session
                        .execute_unpaged(&p, (m as i64 % 7, m as i64))
                        .await
                        .map(|_| ())
                        .map_err(|e| client::short_err(&e))
                }
                10 | 11 => {
                    // The paging iterator over two pages: what is scripted and judged is the
                    // request for the second page.
                    use futures::StreamExt;
                    let pager = if s.kind == 10 {
                        let mut st = Statement::new(client::q_marker(m));
                        st.set_is_idempotent(s.idempotent);
                        st.set_consistency(s.consistency);
                        st.set_retry_policy(Some(rec));
                        st.set_page_size(1);
                        session.query_iter(st, ()).await
                    } else {
                        let mut p = p_select.clone();
                        p.set_is_idempotent(s.idempotent);
                        p.set_consistency(s.consistency);
                        p.set_retry_policy(Some(rec));
                        p.set_page_size(1);
                        session.execute_iter(p, (m as i64 % 7, m as i64)).await
                    };
                    match pager {
                        Ok(pager) => match pager.rows_stream::<(i64,)>() {
                            Ok(mut rs) => {
                                let mut r = Ok(());
                                while let Some(item) = rs.next().await {
                                    if let Err(e) = item {
                                        r = Err(format!("{e}").chars().take(120).collect());
                                        break;
                                    }
                                }
                                r
                            }
                            Err(e) => Err(format!("type check: {e}")),
                        },
                        Err(e) => Err(format!("{e}").chars().take(120).collect()),
                    }
                }
                8 | 9 => {
                    // Manual paging: one page fetched with query_single_page /
                    // execute_single_page, from the start or (m / 16 odd) continuing from a
                    // paging state the caller kept from an earlier page.
                    use scylla::response::PagingState;
                    let state = if m / 16 % 2 == 1 { PagingState::new_from_raw_bytes(vec![0u8; 8]) } else { PagingState::start() };
                    if s.kind == 8 {
                        let mut st = Statement::new(client::q_marker(m));
                        st.set_is_idempotent(s.idempotent);
                        st.set_consistency(s.consistency);
                        st.set_retry_policy(Some(rec));
                        session.query_single_page(st, (), state).await.map(|_| ()).map_err(|e| client::short_err(&e))
                    } else {
                        let mut p = p_select.clone();
                        p.set_is_idempotent(s.idempotent);
                        p.set_consistency(s.consistency);
                        p.set_retry_policy(Some(rec));
                        session
                            .execute_single_page(&p, (m as i64 % 7, m as i64), state)
                            .await
                            .map(|_| ())
                            .map_err(|e| client::short_err(&e))
                    }
                }
                7 => {
                    // An unprepared statement WITH values: every attempt prepares it on its
                    // connection and executes it.
                    let mut st = Statement::new(client::Q_PREPARED_INSERT);
                    st.set_is_idempotent(s.idempotent);
                    st.set_consistency(s.consistency);
                    st.set_retry_policy(Some(rec));
                    session
                        .query_unpaged(st, (m as i64 % 7, m as i64))
                        .await
                        .map(|_| ())
                        .map_err(|e| client::short_err(&e))
                }
                5 | 6 => {
                    // The paging iterator (first page only matters here).
                    use futures::StreamExt;
                    let pager = if s.kind == 5 {
                        let mut st = Statement::new(client::q_marker(m));
                        st.set_is_idempotent(s.idempotent);
                        st.set_consistency(s.consistency);
                        st.set_retry_policy(Some(rec));
                        session.query_iter(st, ()).await
                    } else {
                        let mut p = p_select.clone();
                        p.set_is_idempotent(s.idempotent);
                        p.set_consistency(s.consistency);
                        p.set_retry_policy(Some(rec));
                        session.execute_iter(p, (m as i64 % 7, m as i64)).await
                    };
                    match pager {
                        Ok(pager) => match pager.rows_stream::<(i64,)>() {
                            Ok(mut rs) => match rs.next().await {
                                Some(Err(e)) => Err(format!("{e}").chars().take(120).collect()),
                                _ => Ok(()),
                            },
                            Err(e) => Err(format!("type check: {e}")),
                        },
                        Err(e) => Err(format!("{e}").chars().take(120).collect()),
                    }
                }
                _ => {
                    let mut b = Batch::default();
                    // The statements inside may carry their own idempotence marks; only the
                    // batch's own flag counts for the batch request.
                    let mut member = p_insert.clone();
                    member.set_is_idempotent(m / 16 % 2 == 0);
                    b.append_statement(member.clone());
                    b.append_statement(member);
                    b.set_is_idempotent(s.idempotent);
                    b.set_consistency(s.consistency);
                    b.set_retry_policy(Some(rec));
                    session
                        .batch(&b, ((1i64, m as i64), (2i64, m as i64)))
                        .await
                        .map(|_| ())
                        .map_err(|e| client::short_err(&e))
                }
            };
            (s, res, log2)
        };
        if plan.concurrent {
            handles.push(tokio::spawn(fut));
        } else {
            match tokio::time::timeout(Duration::from_secs(600), fut).await {
                Ok(r) => results.push(r),
                Err(_) => out.violation("c06.hang", "request did not return within 600 virtual s".into()),
            }
            // Let pools notice connections reset by this request before the next one starts.
            world::sleep_ns(30 * MS).await;
        }
    }
    for h in handles {
        match tokio::time::timeout(Duration::from_secs(600), h).await {
            Ok(Ok(r)) => results.push(r),
            Ok(Err(e)) => out.violation("c06.client_task", format!("client task failed: {e}")),
            Err(_) => out.violation("c06.hang", "request did not return within 600 virtual s".into()),
        }
    }
    // Let straggling frames (there must be none) arrive.
    world::sleep_ns(2 * SEC).await;

    let frames_by_marker = {
        let mut w = world::world();
        let mut s = w.script.take().unwrap();
        let f = s.as_any().downcast_mut::<C06Script>().unwrap().frames.clone();
        w.script = Some(s);
        f
    };
    let unprepared_by_marker = {
        let mut w = world::world();
        let mut s = w.script.take().unwrap();
        let f = s.as_any().downcast_mut::<C06Script>().unwrap().unprepared_frames.clone();
        w.script = Some(s);
        f
    };
    let mut retried = 0u64;
    let mut total_frames = 0u64;
    let mut sample_hist = Vec::new();
    for (s, res, log) in &results {
        let frames = frames_by_marker.get(&s.marker).cloned().unwrap_or_default();
        let decisions = log.lock().unwrap().clone();
        total_frames += frames.len() as u64;
        if frames.len() > 1 {
            retried += 1;
        }
        let ctx = format!(
            "marker {} idempotent={} policy={:?} cl={:?} kind={} frames={:?} decisions={:?}",
            s.marker,
            s.idempotent,
            s.policy,
            s.consistency,
            s.kind,
            frames.iter().map(|f| (f.node, f.consistency, format!("{:?}", f.outcome))).collect::<Vec<_>>(),
            decisions.iter().map(|d| format!("{:?}", d.decision)).collect::<Vec<_>>()
        );
        if sample_hist.len() < 4 {
            sample_hist.push(ctx.clone());
        }
        if plan.speculative && s.idempotent {
            // Speculative copies of an idempotent request are not retry decisions. What
            // still holds: all copies and their retries draw from one plan, which names
            // every node once, so a node receives the request again only through a
            // same-target decision (iterator kinds: per page, not judged here).
            if s.kind < 5 || s.kind == 7 {
                let same_target = decisions.iter().filter(|d| matches!(d.decision, RetryDecision::RetrySameTarget(_))).count();
                for n in 0..plan.nodes {
                    let to_n = frames.iter().filter(|f| f.node == n).count();
                    if to_n > 1 + same_target {
                        out.violation(
                            "c06.same_node_without_decision",
                            format!("node {n} received the request {to_n} times with {same_target} same-target decision(s) (speculative run): {ctx}"),
                        );
                    }
                }
            }
            continue;
        }
        if plan.forgetful {
            // Within one attempt the driver re-prepares and repeats; that may not multiply
            // beyond the attempts the policy decided (one repeat, generously two, each).
            let unprepared = unprepared_by_marker.get(&s.marker).copied().unwrap_or(0);
            let retry_decisions = decisions
                .iter()
                .filter(|d| matches!(d.decision, RetryDecision::RetrySameTarget(_) | RetryDecision::RetryNextTarget(_)))
                .count() as u64;
            if unprepared > 2 * (1 + retry_decisions) {
                out.violation(
                    "c06.unbounded_reexecution",
                    format!("{unprepared} EXECUTE frames were answered UNPREPARED for one request with {} attempt(s) decided: {ctx}", 1 + retry_decisions),
                );
            }
            out.count("forgetful_requests_judged", 1);
            continue;
        }
        // (a) non-idempotent: re-sent only after an outcome that proves non-application.
        if !s.idempotent {
            for k in 0..frames.len().saturating_sub(1) {
                if !frames[k].outcome.proves_not_applied() {
                    out.violation(
                        "c06.nonidempotent_resent",
                        format!("re-sent after attempt {k} ended with {:?}: {ctx}", frames[k].outcome),
                    );
                }
            }
        }
        // (b) default policy never retries at serial consistency.
        if s.policy == Policy::Default
            && matches!(s.consistency, Consistency::Serial | Consistency::LocalSerial)
            && frames.len() > 1
        {
            out.violation("c06.default_serial_retried", ctx.clone());
        }
        // (c) attempts bounded by plan length + fixed same-node retries.
        let bonus = match s.policy {
            Policy::Default => 2,
            Policy::Downgrading => 1,
            Policy::Fallthrough => 0,
        };
        if frames.len() > plan.nodes + bonus {
            out.violation("c06.too_many_attempts", ctx.clone());
        }
        // The policy's fixed number of same-node retries.
        let same_target = decisions
            .iter()
            .filter(|d| matches!(d.decision, RetryDecision::RetrySameTarget(_)))
            .count();
        if same_target > bonus {
            out.violation(
                "c06.too_many_same_node_retries",
                format!("{same_target} same-node retries, the policy has a fixed budget of {bonus}: {ctx}"),
            );
        }
        if s.policy == Policy::Fallthrough && frames.len() > 1 {
            out.violation("c06.fallthrough_retried", ctx.clone());
        }
        // (d) exactly the attempts the policy decided.
        let retry_decisions = decisions
            .iter()
            .filter(|d| matches!(d.decision, RetryDecision::RetrySameTarget(_) | RetryDecision::RetryNextTarget(_)))
            .count();
        if frames.len() > 1 + retry_decisions {
            out.violation("c06.more_attempts_than_decided", ctx.clone());
        }
        for (i, d) in decisions.iter().enumerate() {
            let terminal = matches!(d.decision, RetryDecision::DontRetry | RetryDecision::IgnoreWriteError);
            if terminal && i + 1 < decisions.len() {
                out.violation("c06.continued_after_stop", ctx.clone());
            }
            // A decision is taken per failed attempt the driver observed; further
            // frames after a terminal decision must not exist.
            if terminal && frames.len() > i + 1 {
                out.violation("c06.sent_after_stop", ctx.clone());
            }
        }
        // (e) consistency and target of each re-sent frame follow the decision.
        for k in 1..frames.len() {
            if let Some(d) = decisions.get(k - 1) {
                let (new_cl, same) = match &d.decision {
                    RetryDecision::RetrySameTarget(c) => (*c, Some(true)),
                    RetryDecision::RetryNextTarget(c) => (*c, Some(false)),
                    _ => (None, None),
                };
                let expected_cl = new_cl.map(|c| c as u16).unwrap_or(frames[k - 1].consistency);
                if frames[k].consistency != expected_cl {
                    out.violation(
                        "c06.consistency_not_as_decided",
                        format!("attempt {k} sent at consistency {} but the policy chose {expected_cl}: {ctx}", frames[k].consistency),
                    );
                }
                match same {
                    Some(true) if frames[k].node != frames[k - 1].node => out.violation(
                        "c06.target_not_as_decided",
                        format!("RetrySameTarget but attempt {k} went to another node: {ctx}"),
                    ),
                    Some(false) if frames[k].node == frames[k - 1].node => out.violation(
                        "c06.target_not_as_decided",
                        format!("RetryNextTarget but attempt {k} went to the same node: {ctx}"),
                    ),
                    _ => {}
                }
            }
        }
        // Result seen by the caller.
        let last_success = frames.last().map(|f| f.outcome == AttemptOutcome::Success).unwrap_or(false);
        let ignored = matches!(decisions.last().map(|d| &d.decision), Some(RetryDecision::IgnoreWriteError));
        if last_success && res.is_err() && frames.len() == decisions.len() + 1 {
            out.violation("c06.success_reported_as_error", format!("{ctx} result={res:?}"));
        }
        if !last_success && !ignored && res.is_ok() && !frames.is_empty() {
            out.violation("c06.error_reported_as_success", format!("{ctx} result={res:?}"));
        }
    }
    out.nontrivial = total_frames > results.len() as u64 || retried > 0;
    out.count("requests", results.len() as u64);
    out.count("requests_retried", retried);
    out.count("frames", total_frames);
    out.sample = json!({"nodes": plan.nodes, "requests": plan.requests, "concurrent": plan.concurrent, "histories": sample_hist});
    out
}


/// Exhaustion runs. All 32768 stream ids of the (only) connection to the replica of a
/// key are taken by requests the node never answers. A probe for that key then fails
/// locally at its first target ("no free stream id"), and what happens next is the
/// retry policy's decision: the default and downgrading policies move on to the next
/// target (the failure proves the request was not sent) - except that the default
/// policy never retries at serial consistency - and the fall-through policy gives up.
/// The other node answers every probe successfully, so a probe has exactly one frame
/// if its first decision was a retry and none otherwise.
async fn exhaustion(mut out: Outcome, session: Arc<scylla::client::session::Session>, p_select: scylla::statement::prepared::PreparedStatement) -> Outcome {
    let frames_of = |m: u64| -> Vec<FrameSeen> {
        let mut w = world::world();
        let mut s = w.script.take().unwrap();
        let f = s.as_any().downcast_mut::<C06Script>().unwrap().frames.get(&m).cloned().unwrap_or_default();
        w.script = Some(s);
        f
    };
    // A key whose first target is node 0.
    let mut pk: Option<i64> = None;
    for cand in 0..40i64 {
        let m = (900_000 + cand as u64) * 16;
        let mut p = p_select.clone();
        p.set_is_idempotent(true);
        if session.execute_unpaged(&p, (cand, m as i64)).await.is_err() {
            continue;
        }
        if frames_of(m).first().map(|f| f.node) == Some(0) {
            pk = Some(cand);
            break;
        }
    }
    let Some(pk) = pk else {
        out.inconclusive = Some("no key routed to node 0".into());
        return out;
    };
    const FILL: usize = 32768 + 64;
    let mut handles = Vec::with_capacity(FILL);
    for i in 0..FILL {
        let m = (i as u64 + 10) * 16 + F_FILL;
        let session = session.clone();
        let mut p = p_select.clone();
        p.set_is_idempotent(false);
        handles.push(tokio::spawn(async move {
            let _ = session.execute_unpaged(&p, (pk, m as i64)).await;
        }));
    }
    world::sleep_ns(500 * MS).await;
    let filled = {
        let mut w = world::world();
        let mut s = w.script.take().unwrap();
        let n = s.as_any().downcast_mut::<C06Script>().unwrap().fill_outstanding;
        w.script = Some(s);
        n
    };
    out.count("exhaustion_fill_outstanding", filled);
    if filled < 32768 {
        out.inconclusive = Some(format!("only {filled} fill requests reached the replica"));
        for h in handles {
            h.abort();
        }
        return out;
    }
    let mut judged = 0u64;
    for i in 0..tape::range("c06:exhaust_probes", 4, 16) {
        let m = (800_000 + i) * 16;
        let idempotent = tape::chance("c06:idempotent", 1, 2);
        let policy = [Policy::Default, Policy::Downgrading, Policy::Fallthrough][tape::weighted("c06:policy", &[3, 3, 2])];
        let consistency = CONSISTENCIES[tape::weighted("c06:cl", &[3, 2, 1, 1, 1, 1, 1, 1])];
        let log: Arc<Mutex<Vec<Decision>>> = Arc::new(Mutex::new(Vec::new()));
        let inner: Arc<dyn RetryPolicy> = match policy {
            Policy::Default => Arc::new(DefaultRetryPolicy::new()),
            Policy::Downgrading => Arc::new(DowngradingConsistencyRetryPolicy::new()),
            Policy::Fallthrough => Arc::new(FallthroughRetryPolicy),
        };
        let mut p = p_select.clone();
        p.set_is_idempotent(idempotent);
        p.set_consistency(consistency);
        p.set_retry_policy(Some(Arc::new(RecPolicy { inner, log: log.clone() })));
        let res = match tokio::time::timeout(Duration::from_secs(120), session.execute_unpaged(&p, (pk, m as i64))).await {
            Ok(r) => r.map(|_| ()).map_err(|e| client::short_err(&e)),
            Err(_) => {
                out.violation("c06.hang", format!("probe marker {m} did not return within 120 virtual s with every stream id of the replica's connection taken"));
                break;
            }
        };
        world::sleep_ns(20 * MS).await;
        let frames = frames_of(m);
        let decisions = log.lock().unwrap().clone();
        let ctx = format!(
            "probe marker {m} idempotent={idempotent} policy={policy:?} cl={consistency:?} result={res:?} frames={:?} decisions={:?} (every stream id of the connection to the replica, node 0, is taken)",
            frames.iter().map(|f| f.node).collect::<Vec<_>>(),
            decisions.iter().map(|d| (d.error.chars().take(60).collect::<String>(), format!("{:?}", d.decision))).collect::<Vec<_>>()
        );
        judged += 1;
        if frames.iter().any(|f| f.node == 0) {
            out.violation("c06.exhaustion_model", format!("a probe reached node 0 although its connection has no free stream id: {ctx}"));
            continue;
        }
        let first_retry = decisions
            .first()
            .map(|d| matches!(d.decision, RetryDecision::RetrySameTarget(_) | RetryDecision::RetryNextTarget(_)))
            .unwrap_or(false);
        // Exactly the attempts the policy decided.
        if !first_retry && !frames.is_empty() {
            out.violation("c06.attempt_without_decision", format!("the request was sent to another node although the policy did not decide to retry: {ctx}"));
        }
        if first_retry && frames.is_empty() {
            out.violation("c06.more_attempts_than_decided", format!("the policy decided to retry but nothing was sent: {ctx}"));
        }
        if policy == Policy::Fallthrough && !frames.is_empty() {
            out.violation("c06.fallthrough_retried", ctx.clone());
        }
        if policy == Policy::Default && matches!(consistency, Consistency::Serial | Consistency::LocalSerial) && !frames.is_empty() {
            out.violation("c06.default_serial_retried", ctx.clone());
        }
        if res.is_ok() != !frames.is_empty() {
            out.violation("c06.error_reported_as_success", format!("outcome does not match the attempts: {ctx}"));
        }
    }
    for h in handles {
        h.abort();
    }
    out.nontrivial = judged > 0;
    out.count("exhaustion_probes_judged", judged);
    out.sample = json!({"mode": "stream-id exhaustion", "fill_outstanding": filled, "probes": judged});
    out
}
