//! C07 - paged iteration yields every row exactly once, in order, then ends.

use crate::client::{self, SessionCfg};
use crate::cluster::{Cluster, Reply, ReqInfo, Script, StmtDef, StmtKind, Strategy};
use crate::harness::{Outcome, SimSetup, run_sim};
use crate::runner::RunRequest;
use crate::tape;
use crate::wire::{self, CType, Cell, Envelope, Request, RowsOpts, col, err};
use crate::world::{self, Fault, MS, NetCfg, SEC, World};
use futures::StreamExt;
use scylla::client::PoolSize;
use scylla::policies::retry::{DefaultRetryPolicy, FallthroughRetryPolicy};
use scylla::statement::Statement;
use serde_json::{Value, json};
use std::any::Any;
use std::collections::BTreeMap;
use std::num::NonZeroUsize;
use std::sync::Arc;
use std::time::Duration;

const PAGED_Q: &str = "SELECT i, t FROM ks1.t1 WHERE q = ";
const PAGED_PREPARED: &str = "SELECT i, t FROM ks1.t1 WHERE pk = ? AND q = ?";

#[derive(Debug, Clone, Copy, PartialEq, Eq)]
enum PageFault {
    None,
    /// Error the Default policy retries for idempotent statements (next target).
    Retryable(u8),
    /// Error nobody retries.
    Fatal(u8),
    /// Connection reset instead of an answer.
    Rst,
    /// Answer delayed by seconds.
    Slow,
    /// The statement was evicted from this node's cache: UNPREPARED.
    Unprepared,
    /// UNAVAILABLE (see `PagePlan::sick`).
    Unavailable,
}

#[derive(Debug, Clone)]
struct PagePlan {
    total_rows: usize,
    /// Rows per page (may contain zeros); sums to total_rows.
    sizes: Vec<usize>,
    /// Paging state issued with page j (for j < last).
    states: Vec<Vec<u8>>,
    fault_permille: u64,
    fatal_allowed: bool,
    slow_allowed: bool,
    /// Every non-final page carries the SAME opaque paging state (the node keeps the
    /// cursor; fault-free, non-speculative queries only, so that "the page after the
    /// last delivered one" is well defined).
    constant_state: bool,
    /// One page (>= 1) of the query meets a node that cannot serve it, in one of two ways:
    /// (page, 0): the node that served the previous page - to which the pager sends the
    /// request first - answers UNAVAILABLE, every other node serves it (the Default
    /// policy's one retry on the NEXT target saves the stream);
    /// (page, 1): every node answers UNAVAILABLE (1 of 2 required replicas alive) unless
    /// the request comes at consistency ONE (the DowngradingConsistency policy's retry at
    /// the consistency it chose saves the stream).
    sick: Option<(usize, u8)>,
    /// The table gained a column after the statement was prepared: every page comes with
    /// three columns (and, unless the client asks the node to leave it out, their metadata).
    widened: bool,
    /// The rows have fixed-size columns only (bigint, int), the second one NULL in every
    /// third row.
    fixed: bool,
}

#[derive(Debug, Clone)]
struct PageReq {
    t: u64,
    node: usize,
    page: Option<usize>,
    fault: PageFault,
    has_state: bool,
    /// When the node answers (or closes the connection).
    t_answer: u64,
}

#[derive(Default)]
struct C07Script {
    plans: BTreeMap<u64, PagePlan>,
    reqs: BTreeMap<u64, Vec<PageReq>>,
    /// Constant-handle plans: pages delivered so far per query.
    delivered: BTreeMap<u64, usize>,
    /// Node that delivered the latest page of each query.
    coordinator: BTreeMap<u64, usize>,
}

fn row(m: u64, i: usize) -> Vec<Cell> {
    vec![
        Cell::BigInt((m as i64) * 100_000 + i as i64),
        Cell::Text(format!("r{i}")),
    ]
}

impl Script for C07Script {
    // (on_user_request: with `constant_state` the node keeps the cursor itself - a legal
    // server may hand out the same opaque handle with every page - and serves the page
    // after the last one it delivered.)
    fn on_user_request(&mut self, w: &mut World, rq: &ReqInfo, req: &Request) -> Reply {
        let params = match req {
            Request::Query { text, params } if text.starts_with(PAGED_Q) => params,
            Request::Execute { params, .. } if rq.marker.is_some() => params,
            _ => return Reply::Default,
        };
        let Some(m) = rq.marker else {
            return Reply::Default;
        };
        let Some(plan) = self.plans.get(&m).cloned() else {
            return Reply::Default;
        };
        let page = match &params.paging_state {
            None => Some(0),
            Some(ps) if plan.constant_state => {
                if plan.states.first() == Some(ps) {
                    Some(self.delivered.get(&m).copied().unwrap_or(0))
                } else {
                    None
                }
            }
            Some(ps) => plan.states.iter().position(|s| s == ps).map(|j| j + 1),
        };
        let fault = if plan.fault_permille > 0 && tape::chance("c07:fault", plan.fault_permille, 1000) {
            let prepared = matches!(req, Request::Execute { .. });
            match tape::weighted(
                "c07:fault_kind",
                &[
                    4,
                    if plan.fatal_allowed { 1 } else { 0 },
                    2,
                    if plan.slow_allowed { 2 } else { 0 },
                    if prepared { 3 } else { 0 },
                ],
            ) {
                0 => PageFault::Retryable(tape::choose("c07:retryable", 3) as u8),
                1 => PageFault::Fatal(tape::choose("c07:fatal", 2) as u8),
                2 => PageFault::Rst,
                3 => PageFault::Slow,
                _ => PageFault::Unprepared,
            }
        } else {
            PageFault::None
        };
        let fault = match (plan.sick, page) {
            (Some((sp, 0)), Some(j)) if sp == j && self.coordinator.get(&m) == Some(&rq.node) => PageFault::Unavailable,
            (Some((sp, 1)), Some(j)) if sp == j && params.consistency != 0x0001 => PageFault::Unavailable,
            _ => fault,
        };
        self.reqs.entry(m).or_default().push(PageReq {
            t: w.now(),
            node: rq.node,
            page,
            fault,
            has_state: params.paging_state.is_some(),
            t_answer: 0,
        });
        let Some(j) = page else {
            w.violation(
                "c07.unknown_paging_state",
                format!("marker {m}: page request carries a paging state the server never issued"),
            );
            return Reply::Error {
                code: err::INVALID,
                msg: "bad paging state".into(),
                extra: vec![],
                delay: 0,
            };
        };
        if j >= plan.sizes.len() {
            w.violation(
                "c07.request_after_last_page",
                format!("marker {m}: page request beyond the last page"),
            );
            return Reply::Error {
                code: err::INVALID,
                msg: "no such page".into(),
                extra: vec![],
                delay: 0,
            };
        }
        let delay = w.think();
        let delay = if fault == PageFault::Slow {
            w.fault(Fault::Delay);
            tape::range("c07:slow", SEC, 4 * SEC)
        } else {
            delay
        };
        if let Some(r) = self.reqs.get_mut(&m).and_then(|v| v.last_mut()) {
            r.t_answer = w.now() + delay;
        }
        match fault {
            PageFault::Retryable(k) => {
                let (code, extra) = match k {
                    0 => (err::OVERLOADED, vec![]),
                    1 => (err::IS_BOOTSTRAPPING, vec![]),
                    _ => (err::SERVER_ERROR, vec![]),
                };
                return Reply::Error { code, msg: "retryable".into(), extra, delay };
            }
            PageFault::Fatal(k) => {
                let code = if k == 0 { err::INVALID } else { err::SYNTAX_ERROR };
                return Reply::Error { code, msg: "fatal".into(), extra: vec![], delay };
            }
            PageFault::Rst => return Reply::Close { rst: true, delay },
            PageFault::Unavailable => {
                let mut x = crate::wire::W::new();
                x.u16(params.consistency).i32(2).i32(1);
                w.fault(Fault::SrvError);
                w.probe("page_request_answered_unavailable");
                return Reply::Error { code: err::UNAVAILABLE, msg: "unavailable".into(), extra: x.buf, delay };
            }
            PageFault::Unprepared => {
                if let Request::Execute { id, .. } = req {
                    // Evicted: the node forgets the statement and says so.
                    w.cluster.nodes[rq.node].prepared.remove(id);
                    w.fault(Fault::Evict);
                    let mut x = crate::wire::W::new();
                    x.short_bytes(id);
                    return Reply::Error { code: err::UNPREPARED, msg: "unprepared".into(), extra: x.buf, delay };
                }
            }
            _ => {}
        }
        let start: usize = plan.sizes[..j].iter().sum();
        let mut rows: Vec<Vec<Cell>> = (start..start + plan.sizes[j]).map(|i| row(m, i)).collect();
        let mut cols = vec![
            col("ks1", "t1", "i", CType::BigInt),
            col("ks1", "t1", "t", CType::Text),
        ];
        if plan.widened {
            cols.push(col("ks1", "t1", "added", CType::Int));
            for r in rows.iter_mut() {
                r.push(Cell::Int(7));
            }
        }
        if plan.fixed {
            cols[1] = col("ks1", "t1", "n", CType::Int);
            for (k, r) in rows.iter_mut().enumerate() {
                r[1] = if (start + k) % 3 == 1 { Cell::Null } else { Cell::Int((start + k) as i32) };
            }
        }
        let last = j + 1 == plan.sizes.len();
        if plan.constant_state {
            self.delivered.insert(m, j + 1);
        }
        self.coordinator.insert(m, rq.node);
        let prepared = matches!(req, Request::Execute { .. });
        let body = wire::body_rows(
            &cols,
            &rows,
            &RowsOpts {
                no_metadata: prepared && params.skip_metadata,
                paging_state: if last { None } else { Some(plan.states[j].clone()) },
                new_metadata_id: None,
            },
        );
        Reply::Raw {
            opcode: wire::OP_RESULT,
            body,
            env: Envelope::default(),
            delay,
        }
    }
    fn as_any(&mut self) -> &mut dyn Any {
        self
    }
}

#[derive(Clone, Debug)]
struct Plan {
    nodes: usize,
    queries: usize,
    system_page_rows: usize,
}

pub fn run(req: &RunRequest) -> Value {
    run_sim(req, move || {
        let plan = Plan {
            nodes: tape::range("c07:nodes", 1, 5) as usize,
            queries: tape::range("c07:queries", 1, 5) as usize,
            system_page_rows: tape::choose("c07:sys_page", 4) as usize,
        };
        let mut cluster = Cluster::new("c07");
        for i in 0..plan.nodes {
            cluster.add_node("dc1", "r1", 0, vec![(i as i64) * 1000 - 2500]);
        }
        client::standard_catalog(&mut cluster, Strategy::Simple(plan.nodes.min(3)), false);
        let cols = vec![
            col("ks1", "t1", "i", CType::BigInt),
            col("ks1", "t1", "t", CType::Text),
        ];
        cluster.catalog.push(StmtDef {
            shape: PAGED_Q.into(),
            ks: "ks1".into(),
            table: "t1".into(),
            kind: StmtKind::Select,
            bind_cols: vec![],
            pk_indexes: vec![],
            result_cols: cols.clone(),
            marker_bind: None,
            schema_version: 0,
            id_version: 0,
        });
        cluster.catalog.push(StmtDef {
            shape: PAGED_PREPARED.into(),
            ks: "ks1".into(),
            table: "t1".into(),
            kind: StmtKind::Select,
            bind_cols: vec![
                col("ks1", "t1", "pk", CType::BigInt),
                col("ks1", "t1", "q", CType::BigInt),
            ],
            pk_indexes: vec![0],
            result_cols: cols,
            marker_bind: Some(1),
            schema_version: 0,
            id_version: 0,
        });
        cluster.think_min = 0;
        cluster.think_max = 3 * MS;
        cluster.system_page_rows = plan.system_page_rows;
        cluster.system_empty_pages = plan.system_page_rows > 0 && tape::chance("c07:sys_empty", 1, 2);
        let net = NetCfg {
            chaos_yield_permille: [0, 50][tape::choose("c07:chaos", 2) as usize],
            chunk_permille: [0, 300][tape::choose("c07:chunk", 2) as usize],
            ..NetCfg::default()
        };
        let setup = SimSetup {
            cluster,
            net,
            virt_cap: Duration::from_secs(1800),
            world_oracles: vec!["c07."],
            panic_is_violation: true,
            rlimit_as: None,
            alloc_limit: None,
        };
        (setup, move || main(plan))
    })
}

fn draw_page_plan(slow_allowed: bool) -> PagePlan {
    let total_rows = match tape::weighted("c07:rows_kind", &[1, 3, 3, 1]) {
        0 => 0,
        1 => tape::range("c07:rows_small", 1, 8) as usize,
        2 => tape::range("c07:rows_mid", 9, 60) as usize,
        _ => tape::range("c07:rows_big", 61, 200) as usize,
    };
    let mut sizes = Vec::new();
    let mut left = total_rows;
    let max_pages = 40;
    loop {
        if sizes.len() + 1 >= max_pages {
            sizes.push(left);
            break;
        }
        // Empty pages are legal anywhere, including last.
        let s = match tape::weighted("c07:page_kind", &[5, 2, 2]) {
            0 => tape::range("c07:page_size", 1, 12).min(left as u64) as usize,
            1 => 0,
            _ => left,
        };
        sizes.push(s);
        left -= s;
        if left == 0 && !tape::chance("c07:trailing_empty", 1, 4) {
            break;
        }
    }
    // One page of some plans hands out a ZERO-LENGTH paging state together with
    // has_more_pages (any byte string is a legal, opaque state).
    let empty_state_at = if sizes.len() > 1 && tape::chance("c07:empty_state", 1, 5) {
        Some(tape::choose("c07:empty_state_at", sizes.len() as u64 - 1) as usize)
    } else {
        None
    };
    let states: Vec<Vec<u8>> = (0..sizes.len().saturating_sub(1))
        .map(|j| {
            if empty_state_at == Some(j) {
                return Vec::new();
            }
            let n = tape::range("c07:state_len", 1, 12) as usize;
            let mut s: Vec<u8> = (0..n).map(|_| tape::choose("c07:state_byte", 256) as u8).collect();
            // Make states unique per page.
            s.extend_from_slice(&(j as u16).to_be_bytes());
            s
        })
        .collect();
    PagePlan {
        total_rows,
        sizes,
        states,
        sick: None,
        widened: false,
        fixed: false,
        fault_permille: [0, 0, 100, 300][tape::choose("c07:fault_rate", 4) as usize],
        fatal_allowed: tape::chance("c07:fatal_allowed", 1, 2),
        slow_allowed,
        constant_state: false,
    }
}

async fn main(plan: Plan) -> Outcome {
    let mut out = Outcome::default();
    {
        let mut w = world::world();
        w.script = Some(Box::new(C07Script::default()));
    }
    let default_retry = !tape::chance("c07:fallthrough", 1, 4);
    // 1 in 6 runs: the DowngradingConsistency policy (a retry may carry another
    // consistency than the statement's).
    let downgrading = tape::chance("c07:downgrading", 1, 6);
    let default_retry = default_retry && !downgrading;
    // 1 in 4 runs: speculative execution of the (idempotent) page requests.
    let speculative: Option<(usize, u64)> = if !downgrading && tape::chance("c07:speculative", 1, 4) {
        Some((tape::range("c07:spec_max", 1, 2) as usize, [20, 50, 200][tape::choose("c07:spec_interval", 3) as usize]))
    } else {
        None
    };
    let cfg = SessionCfg {
        contact_nodes: vec![0],
        pool: PoolSize::PerHost(NonZeroUsize::new(1).unwrap()),
        retry: Some(if downgrading {
            Arc::new(scylla::policies::retry::DowngradingConsistencyRetryPolicy::new())
        } else if default_retry {
            Arc::new(DefaultRetryPolicy::new())
        } else {
            Arc::new(FallthroughRetryPolicy)
        }),
        fetch_schema: true,
        compression: client::draw_compression(),
        ..SessionCfg::default()
    };
    let mut cfg = cfg;
    if let Some((max, interval_ms)) = speculative {
        let retry: Arc<dyn scylla::policies::retry::RetryPolicy> =
            if default_retry { Arc::new(DefaultRetryPolicy::new()) } else { Arc::new(FallthroughRetryPolicy) };
        cfg.profile = Some(
            scylla::client::execution_profile::ExecutionProfile::builder()
                .request_timeout(None)
                .retry_policy(retry)
                .speculative_execution_policy(Some(Arc::new(
                    scylla::policies::speculative_execution::SimpleSpeculativeExecutionPolicy {
                        max_retry_count: max,
                        retry_interval: Duration::from_millis(interval_ms),
                    },
                )))
                .build(),
        );
        out.count("speculative_runs", 1);
    }
    let session = match client::build_session(&cfg).await {
        Ok(s) => Arc::new(s),
        Err(e) => {
            out.inconclusive = Some(format!("session: {e}"));
            return out;
        }
    };
    // Control-connection pager: system tables were served in pages of
    // `system_page_rows`; the published topology must have every node once.
    {
        let state = session.get_cluster_state();
        let n = state.get_nodes_info().len();
        if n != plan.nodes {
            out.violation(
                "c07.control_pager",
                format!(
                    "system.peers/local paged by {} rows: published topology has {n} nodes, cluster has {}",
                    plan.system_page_rows, plan.nodes
                ),
            );
        }
    }
    world::sleep_ns(300 * MS).await;
    let prepared = session.prepare(PAGED_PREPARED).await.ok();

    let mut hist = Vec::new();
    let mut pages_total = 0u64;
    let mut faults_total = 0u64;
    let mut manual_total = 0u64;
    for qi in 0..plan.queries {
        let m = (qi as u64 + 1) * 16;
        // Some queries run with a (short) client-side request timeout; slow pages
        // are not scripted for those, so that every scripted page is deliverable.
        let req_timeout: Option<u64> = [None, None, Some(300 * MS), Some(2 * SEC)][tape::choose("c07:req_timeout", 4) as usize];
        let mut pp = draw_page_plan(req_timeout.is_none());
        if speculative.is_none() && pp.states.len() >= 2 && tape::chance("c07:constant_state", 1, 8) {
            pp.constant_state = true;
            pp.fault_permille = 0;
            let s0 = if pp.states[0].is_empty() { vec![7u8] } else { pp.states[0].clone() };
            for s in pp.states.iter_mut() {
                *s = s0.clone();
            }
            out.count("constant_paging_state_queries", 1);
        }
        // A page that meets a node which cannot serve it, in a way the retry policy's
        // decision overcomes (no other faults, no client-side timeout in such a query).
        let mut req_timeout = req_timeout;
        if speculative.is_none() && !pp.constant_state && pp.sizes.len() >= 2 && (downgrading || (default_retry && plan.nodes >= 2)) && tape::chance("c07:sick", 1, 5) {
            pp.sick = Some((1 + tape::choose("c07:sick_page", pp.sizes.len() as u64 - 1) as usize, downgrading as u8));
            pp.fault_permille = 0;
            req_timeout = None;
            out.count("queries_with_a_sick_page", 1);
        }
        {
            let mut w = world::world();
            let mut s = w.script.take().unwrap();
            s.as_any().downcast_mut::<C07Script>().unwrap().plans.insert(m, pp.clone());
            w.script = Some(s);
        }
        // 0 eager, 1 slow consumer, 2 early drop, 3 manual paging: the caller fetches page
        // by page (query_single_page / execute_single_page) and hands the paging state back.
        let consumer = tape::weighted("c07:consumer", &[3, 1, 1, 2]);
        // A consumer may also stall once for longer than the request timeout.
        let stall_at = if tape::chance("c07:stall", 1, 3) && pp.total_rows > 0 {
            Some((tape::choose("c07:stall_row", pp.total_rows as u64) as usize, req_timeout.unwrap_or(SEC) * 2 + 100 * MS))
        } else {
            None
        };
        let drop_after = if consumer == 2 {
            tape::choose("c07:drop_after", pp.total_rows as u64 + 1) as usize
        } else {
            usize::MAX
        };
        let use_prepared = prepared.is_some() && tape::chance("c07:prepared", 1, 2);
        manual_total += (consumer == 3) as u64;
        // 1 in 6 prepared queries: the table has gained a column since the statement was
        // prepared; the rows are read as dynamic rows (first column checked).
        // 1 in 6 unprepared queries: a table with fixed-size columns only, one of them NULL in
        // every third row (read as dynamic rows too).
        let fixed = !use_prepared && tape::chance("c07:fixed_size_columns", 1, 6);
        if fixed {
            let mut w = world::world();
            let mut s = w.script.take().unwrap();
            if let Some(p) = s.as_any().downcast_mut::<C07Script>().unwrap().plans.get_mut(&m) {
                p.fixed = true;
            }
            w.script = Some(s);
            out.count("queries_on_fixed_size_columns_with_nulls", 1);
        }
        let widened = use_prepared && tape::chance("c07:widened", 1, 6);
        let dynamic_read = widened || fixed;
        if widened {
            let mut w = world::world();
            let mut s = w.script.take().unwrap();
            if let Some(p) = s.as_any().downcast_mut::<C07Script>().unwrap().plans.get_mut(&m) {
                p.widened = true;
            }
            w.script = Some(s);
            out.count("queries_on_a_widened_table", 1);
        }
        let mut seen: Vec<i64> = Vec::new();
        let mut error: Option<String> = None;
        let mut ended = false;
        let t_start = world::now_ns();
        let run = async {
            if consumer == 3 {
                use scylla::response::{PagingState, PagingStateResponse};
                let mut state = PagingState::start();
                let mut fetched = 0u32;
                loop {
                    // The node has at most 40 pages; a caller that is still being handed
                    // "more pages" after 120 fetches stops (the chain oracle will tell why).
                    fetched += 1;
                    if fetched > 120 {
                        error = Some("caller gave up after 120 pages".into());
                        return;
                    }
                    let page = if use_prepared {
                        let mut p = prepared.clone().unwrap();
                        p.set_is_idempotent(true);
                        p.set_request_timeout(req_timeout.map(Duration::from_nanos));
                        session.execute_single_page(&p, (qi as i64, m as i64), state).await
                    } else {
                        let mut st = Statement::new(format!("{PAGED_Q}{m}"));
                        st.set_is_idempotent(true);
                        st.set_request_timeout(req_timeout.map(Duration::from_nanos));
                        session.query_single_page(st, (), state).await
                    };
                    let (qr, next) = match page {
                        Ok(x) => x,
                        Err(e) => {
                            error = Some(format!("{e}").chars().take(100).collect());
                            return;
                        }
                    };
                    let rows = match qr.into_rows_result() {
                        Ok(r) => r,
                        Err(e) => {
                            error = Some(format!("not rows: {e}"));
                            return;
                        }
                    };
                    if dynamic_read {
                        match rows.rows::<scylla::value::Row>() {
                            Ok(it) => {
                                for r in it {
                                    match r.map(|r| r.columns.first().cloned().flatten()) {
                                        Ok(Some(scylla::value::CqlValue::BigInt(i))) => seen.push(i),
                                        other => {
                                            error = Some(format!("row: {other:?}").chars().take(100).collect());
                                            return;
                                        }
                                    }
                                }
                            }
                            Err(e) => {
                                error = Some(format!("type check: {e}"));
                                return;
                            }
                        }
                    } else {
                        match rows.rows::<(i64, String)>() {
                            Ok(it) => {
                                for r in it {
                                    match r {
                                        Ok((i, _t)) => seen.push(i),
                                        Err(e) => {
                                            error = Some(format!("row: {e}"));
                                            return;
                                        }
                                    }
                                }
                            }
                            Err(e) => {
                                error = Some(format!("type check: {e}"));
                                return;
                            }
                        }
                    }
                    match next {
                        PagingStateResponse::HasMorePages { state: s } => state = s,
                        PagingStateResponse::NoMorePages => {
                            ended = true;
                            return;
                        }
                    }
                    if let Some((row, len)) = stall_at {
                        if seen.len() > row && seen.len() <= row + 3 {
                            world::sleep_ns(len).await;
                        }
                    }
                }
            }
            let pager = if use_prepared {
                let mut p = prepared.clone().unwrap();
                p.set_is_idempotent(true);
                p.set_request_timeout(req_timeout.map(Duration::from_nanos));
                session.execute_iter(p, (qi as i64, m as i64)).await
            } else {
                let mut st = Statement::new(format!("{PAGED_Q}{m}"));
                st.set_is_idempotent(true);
                st.set_request_timeout(req_timeout.map(Duration::from_nanos));
                session.query_iter(st, ()).await
            };
            let pager = match pager {
                Ok(p) => p,
                Err(e) => {
                    // A failure of the first page is returned by the call itself.
                    error = Some(format!("{e}").chars().take(100).collect());
                    return;
                }
            };
            // (A widened table is read as dynamic rows; the first column is what counts.)
            let typed = if dynamic_read { None } else { Some(()) };
            let mut stream: std::pin::Pin<Box<dyn futures::Stream<Item = Result<(i64, String), String>>>> = if typed.is_some() {
                match pager.rows_stream::<(i64, String)>() {
                    Ok(s) => Box::pin(s.map(|r| r.map_err(|e| e.to_string()))),
                    Err(e) => {
                        error = Some(format!("type check: {e}"));
                        return;
                    }
                }
            } else {
                match pager.rows_stream::<scylla::value::Row>() {
                    Ok(s) => Box::pin(s.map(|r| match r {
                        Ok(row) => match row.columns.first().cloned().flatten() {
                            Some(scylla::value::CqlValue::BigInt(i)) => Ok((i, String::new())),
                            other => Err(format!("first column: {other:?}")),
                        },
                        Err(e) => Err(e.to_string()),
                    })),
                    Err(e) => {
                        error = Some(format!("type check: {e}"));
                        return;
                    }
                }
            };
            loop {
                if seen.len() >= drop_after {
                    break;
                }
                match stream.next().await {
                    Some(Ok((i, _t))) => {
                        seen.push(i);
                        if let Some((row, len)) = stall_at {
                            if seen.len() == row + 1 {
                                world::sleep_ns(len).await;
                            }
                        }
                        if consumer == 1 {
                            world::sleep_ns(tape::range("c07:consumer_sleep", 0, 30) * MS).await;
                        }
                    }
                    Some(Err(e)) => {
                        error = Some(format!("{e}").chars().take(100).collect());
                        break;
                    }
                    None => {
                        ended = true;
                        break;
                    }
                }
            }
        };
        if tokio::time::timeout(Duration::from_secs(300), run).await.is_err() {
            out.violation("c07.hang", format!("paged query marker {m} did not finish within 300 virtual s"));
            break;
        }
        let t_drop = world::now_ns();
        // Let a prefetching producer notice the drop / finish.
        world::sleep_ns(6 * SEC).await;
        let reqs = {
            let mut w = world::world();
            let mut s = w.script.take().unwrap();
            let r = s
                .as_any()
                .downcast_mut::<C07Script>()
                .unwrap()
                .reqs
                .get(&m)
                .cloned()
                .unwrap_or_default();
            w.script = Some(s);
            r
        };
        pages_total += reqs.len() as u64;
        faults_total += reqs.iter().filter(|r| r.fault != PageFault::None).count() as u64;
        let expect_all: Vec<i64> = (0..pp.total_rows).map(|i| (m as i64) * 100_000 + i as i64).collect();
        let ctx = format!(
            "marker {m} prepared={use_prepared} consumer={consumer} drop_after={} sizes={:?} requests={:?} seen={} error={error:?} ended={ended}",
            if drop_after == usize::MAX { -1 } else { drop_after as i64 },
            pp.sizes,
            reqs.iter().map(|r| (r.node, r.page, format!("{:?}", r.fault))).collect::<Vec<_>>(),
            seen.len(),
        );
        if hist.len() < 3 {
            hist.push(ctx.clone());
        }
        // (a) order / exactly-once: what was seen is always a prefix of the model rows.
        if seen.len() > expect_all.len() || seen[..] != expect_all[..seen.len()] {
            out.violation("c07.rows_not_prefix", format!("rows seen are not a prefix of the server's rows in order (first rows seen {:?}): {ctx}", &seen[..seen.len().min(6)]));
        }
        // Pages the server delivered successfully, from its own history.
        let delivered: Vec<usize> = reqs
            .iter()
            .filter(|r| matches!(r.fault, PageFault::None | PageFault::Slow))
            .filter_map(|r| r.page)
            .collect();
        let max_delivered = delivered.iter().copied().max();
        if ended {
            // Normal termination: every row, and the last page was delivered.
            if seen != expect_all {
                out.violation("c07.rows_missing_at_end", format!("stream ended after {} of {} rows: {ctx}", seen.len(), expect_all.len()));
            }
            if max_delivered != Some(pp.sizes.len() - 1) {
                out.violation("c07.ended_before_last_page", ctx.clone());
            }
        } else if let Some(_e) = &error {
            // (c) a non-retried failure surfaces after all rows of the pages delivered before it.
            // The page the stream failed at: the furthest page with a failed attempt (pages
            // only advance; with speculative copies the mock's arrival order is not page order).
            let failed_page = reqs.iter().filter(|r| !matches!(r.fault, PageFault::None | PageFault::Slow)).filter_map(|r| r.page).max();
            if let Some(fp) = failed_page {
                let rows_before: usize = pp.sizes[..fp].iter().sum();
                if seen.len() != rows_before {
                    out.violation(
                        "c07.error_position",
                        format!("error surfaced after {} rows but the pages delivered before the failed page {fp} hold {rows_before}: {ctx}", seen.len()),
                    );
                }
            } else {
                out.violation("c07.spurious_error", format!("stream failed although the server failed no page: {ctx}"));
            }
            // The one failure of this query was one the policy's decision overcomes.
            match pp.sick {
                Some((_, 0)) => out.violation(
                    "c07.gave_up_with_targets_left",
                    format!("the stream failed although only the previous page's coordinator answered UNAVAILABLE and the policy's retry goes to the next target, which serves the page: {ctx}"),
                ),
                Some((_, _)) => out.violation(
                    "c07.retry_not_as_decided",
                    format!("the stream failed although the nodes serve the page at the consistency the DowngradingConsistency policy chooses for its retry: {ctx}"),
                ),
                None => {}
            }
            // "Transient failures that the retry policy retries": with the default policy an
            // idempotent page request that meets Overloaded / IsBootstrapping / ServerError is
            // retried on the next target, each page with a plan of its own. If only such
            // failures happened in this query (no reset took a connection away, no timeout),
            // the stream may fail at page p only after EVERY node failed the request for p.
            if default_retry && speculative.is_none() && req_timeout.is_none() {
                if let Some(fp) = failed_page {
                    let only_retryable = reqs.iter().all(|r| matches!(r.fault, PageFault::None | PageFault::Slow | PageFault::Retryable(_)));
                    let tried: std::collections::BTreeSet<usize> = reqs.iter().filter(|r| r.page == Some(fp)).map(|r| r.node).collect();
                    if only_retryable && tried.len() < plan.nodes {
                        out.violation(
                            "c07.gave_up_with_targets_left",
                            format!("the stream failed at page {fp} after trying {} of {} nodes although every failure was one the policy retries on the next target: {ctx}", tried.len(), plan.nodes),
                        );
                    }
                }
            }
        } else if consumer == 2 {
            // (d) early drop: the producer stops; it may have prefetched a little.
            // Distinct pages (retries of a fetch already in progress are the same page request).
            let after = reqs
                .iter()
                .filter(|r| r.t > t_drop + MS)
                .filter_map(|r| r.page)
                .collect::<std::collections::BTreeSet<_>>()
                .len();
            // How far a dropped stream's producer prefetches is not part of the property:
            // counted, not judged.
            if after > 2 {
                out.count("pages_requested_after_drop_gt2", 1);
            }
        }
        // (b) paging-state chain, from the server's history.
        let mut expected_page = 0usize;
        let mut prev_ok = true; // whether the previous request for `expected_page - 1`.. see below
        for (k, r) in reqs.iter().enumerate() {
            let Some(p) = r.page else { continue };
            if k == 0 {
                if r.has_state || p != 0 {
                    out.violation("c07.first_request_has_state", ctx.clone());
                }
            } else if let Some((max, _)) = speculative {
                // Speculative copies travel to other nodes: arrival order across nodes is
                // not sending order, so the chain is judged by time instead of position.
                // A request for page p is legal as long as the client may not yet have
                // received a successful answer for p (first successful answer + a round
                // trip: 2 x 2 ms latency, timer granularity, coalescing, fragmentation ->
                // 20 ms), at most 1 + max copies are outstanding at once, and - sanity -
                // page p-1 had been answered successfully before (the state is unguessable).
                let ok = |r: &PageReq| matches!(r.fault, PageFault::None | PageFault::Slow);
                let first_ok = reqs.iter().filter(|e| e.page == Some(p) && ok(e)).map(|e| e.t_answer).min();
                if let Some(t_ok) = first_ok {
                    if r.t > t_ok + 20 * MS {
                        out.violation("c07.page_requested_twice", format!("page {p} requested again {} ms after it was delivered (speculative run): {ctx}", (r.t - t_ok) / MS));
                    }
                }
                let outstanding = reqs[..k].iter().filter(|e| e.page == Some(p) && e.t_answer > r.t).count();
                if outstanding > max {
                    out.violation("c07.page_requested_twice", format!("{} copies of the request for page {p} outstanding with max {max} speculative executions: {ctx}", outstanding + 1));
                }
                if p > 0 && !reqs.iter().any(|e| e.page == Some(p - 1) && ok(e) && e.t_answer <= r.t) {
                    out.violation("c07.page_skipped", format!("page {p} requested although page {} had not been delivered (speculative run): {ctx}", p - 1));
                }
                expected_page = expected_page.max(p);
            } else if p == expected_page {
                // Same page again: only legal after the previous attempt at it failed.
                if prev_ok {
                    out.violation("c07.page_requested_twice", format!("page {p} requested again after it was delivered: {ctx}"));
                }
            } else if p == expected_page + 1 {
                if !prev_ok {
                    out.violation("c07.page_skipped", format!("page {p} requested although page {expected_page} was never delivered: {ctx}"));
                }
                expected_page = p;
            } else {
                out.violation("c07.paging_state_chain", format!("request {k} asks for page {p}, expected {expected_page} or {}: {ctx}", expected_page + 1));
                expected_page = p;
            }
            prev_ok = matches!(r.fault, PageFault::None | PageFault::Slow);
        }
        let _ = t_start;
        // Let resets be noticed before the next query.
        world::sleep_ns(200 * MS).await;
    }
    // The control connection's own pager (system tables, read over one fixed connection): a
    // connection that dies while a LATER page of system.peers is being fetched must not
    // leave a silently truncated peer list behind - a refresh that reports success has
    // published every node.
    if plan.system_page_rows > 0 && plan.nodes >= 3 && tape::chance("c07:control_pager_reset", 1, 3) {
        // system.peers is slow in this phase, so that the other reads of the fetch are over
        // when the reset comes - on the last of its later pages (1 in 2) or an earlier one.
        let later_pages = ((plan.nodes - 1).div_ceil(plan.system_page_rows)).saturating_sub(1).max(1) as u64;
        let nth = if tape::chance("c07:control_pager_reset_last", 1, 2) { later_pages - 1 } else { tape::choose("c07:control_pager_reset_page", later_pages) };
        world::world().cluster.system_peers_extra_delay = 100 * MS;
        world::world().cluster.reset_on_peers_page = Some(nth as u32);
        let r = tokio::time::timeout(Duration::from_secs(180), session.refresh_metadata()).await;
        let fired = world::world().cluster.reset_on_peers_page.is_none();
        world::world().cluster.reset_on_peers_page = None;
        world::world().cluster.system_peers_extra_delay = 0;
        out.count("control_pager_reset_phases", fired as u64);
        match r {
            Err(_) => out.violation("c07.hang", "refresh_metadata() did not return within 180 virtual s after the control connection was reset in the middle of paging system.peers".into()),
            Ok(Err(_)) => {}
            Ok(Ok(())) => {
                let n = session.get_cluster_state().get_nodes_info().len();
                if n != plan.nodes {
                    out.violation(
                        "c07.control_pager",
                        format!(
                            "the control connection was reset while a later page of system.peers (paged by {} rows) was being fetched; refresh_metadata() returned Ok but the published topology has {n} nodes, the cluster has {}",
                            plan.system_page_rows, plan.nodes
                        ),
                    );
                }
            }
        }
        world::sleep_ns(5 * SEC).await;
    }
    out.nontrivial = pages_total > plan.queries as u64;
    out.count("page_requests", pages_total);
    out.count("manually_paged_queries", manual_total);
    out.count("page_faults", faults_total);
    out.sample = json!({"nodes": plan.nodes, "queries": plan.queries, "system_page_rows": plan.system_page_rows, "histories": hist});
    out
}
