//! C08 - decoding any bytes from the network returns a value or an error,
//! never a crash: responses are damaged in flight (truncation at every offset,
//! bit flips, field-aware overwrites, header damage, garbage) while a real
//! session runs a scripted exchange touching every response kind the mock emits.

use crate::client::{self, SessionCfg, expected_cql};
use crate::cluster::{
    Cluster, KeyspaceDef, Reply, ReqInfo, Script, StmtDef, StmtKind, Strategy, TableDef,
};
use crate::harness::{Outcome, SimSetup, run_sim};
use crate::mutate::{Mutation, SPECIAL_U32};
use crate::runner::RunRequest;
use crate::tape;
use crate::wire::{self, CType, Cell, ColSpec, Envelope, Request, W, col, err};
use crate::world::{self, MS, NetCfg, SEC, World};
use futures::StreamExt;
use scylla::client::PoolSize;
use scylla::client::session::Session;
use scylla::errors::{DbError, ExecutionError, RequestAttemptError};
use scylla::policies::retry::FallthroughRetryPolicy;
use scylla::statement::Statement;
use scylla::statement::batch::Batch;
use scylla::value::Row;
use serde_json::{Value, json};
use std::any::Any;
use std::num::NonZeroUsize;
use std::sync::Arc;
use std::time::Duration;

const WIDE_Q: &str = "SELECT * FROM ks1.wide WHERE w = ";
/// One column of type vector<float, 5> (a custom type in CQL v4), read through the
/// element iterator with nth()/skip.
const VEC_Q: &str = "SELECT vec FROM ks1.vecs WHERE w = ";
const VEC_CLASS: &str = "org.apache.cassandra.db.marshal.VectorType(org.apache.cassandra.db.marshal.FloatType, 5)";

/// The native types the wide row lacks, as raw type ids: decimal, varint, float, date,
/// time, duration, timeuuid.
const EXTRA_Q: &str = "SELECT * FROM ks1.extra WHERE w = ";

fn extra_cols() -> Vec<ColSpec> {
    let c = |n: &str, id: u16| col("ks1", "extra", n, CType::Raw(id, vec![]));
    vec![c("de", 0x0006), c("vi", 0x000E), c("fl", 0x0008), c("da", 0x0011), c("tm", 0x0012), c("du", 0x0015), c("tu", 0x000F)]
}

fn extra_cells(r: u8) -> Vec<Vec<u8>> {
    let mut tu = [0x11u8; 16];
    tu[6] = 0x10 | (tu[6] & 0x0f); // version 1
    tu[8] = 0x80 | (tu[8] & 0x3f);
    tu[15] = r;
    vec![
        [2i32.to_be_bytes().to_vec(), vec![0x04, 0xD2 + r]].concat(),
        vec![0x01, r],
        (1.5f32 + r as f32).to_be_bytes().to_vec(),
        ((1u32 << 31) + 19000 + r as u32).to_be_bytes().to_vec(),
        (3_600_000_000_000i64 + r as i64).to_be_bytes().to_vec(),
        vec![0x02, 0x04, 0x06 + 2 * r],
        tu.to_vec(),
    ]
}

fn extra_rows() -> Vec<Vec<Cell>> {
    (0..3u8).map(|r| extra_cells(r).into_iter().map(Cell::Blob).collect()).collect()
}

type ExtraTyped = (
    scylla::value::CqlDecimal,
    scylla::value::CqlVarint,
    f32,
    scylla::value::CqlDate,
    scylla::value::CqlTime,
    scylla::value::CqlDuration,
    scylla::value::CqlTimeuuid,
);

fn extra_expected() -> Vec<ExtraTyped> {
    (0..3u8)
        .map(|r| {
            let mut tu = [0x11u8; 16];
            tu[6] = 0x10 | (tu[6] & 0x0f);
            tu[8] = 0x80 | (tu[8] & 0x3f);
            tu[15] = r;
            (
                scylla::value::CqlDecimal::from_signed_be_bytes_and_exponent(vec![0x04, 0xD2 + r], 2),
                scylla::value::CqlVarint::from_signed_bytes_be(vec![0x01, r]),
                1.5f32 + r as f32,
                scylla::value::CqlDate((1u32 << 31) + 19000 + r as u32),
                scylla::value::CqlTime(3_600_000_000_000i64 + r as i64),
                scylla::value::CqlDuration { months: 1, days: 2, nanoseconds: 3 + r as i64 },
                scylla::value::CqlTimeuuid::from_bytes(tu),
            )
        })
        .collect()
}

fn vec_col() -> ColSpec {
    let mut class = W::new();
    class.string(VEC_CLASS);
    col("ks1", "vecs", "vec", CType::Raw(0x0000, class.buf))
}

/// One column of type vector<text, 3>: elements of variable length, each preceded by its
/// length as an unsigned vint; empty strings in every position.
const VTEXT_Q: &str = "SELECT tv FROM ks1.vecs WHERE x = ";
const VTEXT_CLASS: &str = "org.apache.cassandra.db.marshal.VectorType(org.apache.cassandra.db.marshal.UTF8Type , 3)";
const VTEXT_ROWS: [[&str; 3]; 4] = [["a", "bc", "def"], ["", "x", "yz"], ["p", "", "q"], ["r", "st", ""]];

fn vtext_col() -> ColSpec {
    let mut class = W::new();
    class.string(VTEXT_CLASS);
    col("ks1", "vecs", "tv", CType::Raw(0x0000, class.buf))
}

fn vtext_rows() -> Vec<Vec<Cell>> {
    VTEXT_ROWS
        .iter()
        .map(|r| {
            let mut b = Vec::new();
            for e in r {
                b.push(e.len() as u8); // unsigned vint of a length below 128: one byte
                b.extend_from_slice(e.as_bytes());
            }
            vec![Cell::Blob(b)]
        })
        .collect()
}

fn vec_rows() -> Vec<Vec<Cell>> {
    (0..4)
        .map(|r| {
            let mut b = Vec::new();
            for k in 0..5 {
                b.extend_from_slice(&((r * 10 + k + 1) as f32).to_be_bytes());
            }
            vec![Cell::Blob(b)]
        })
        .collect()
}
const ERR_Q: &str = "SELECT v FROM ks1.t1 WHERE e = ";
const DDL_Q: &str = "CREATE TABLE ks1.created (a int PRIMARY KEY) -- n = ";
const TQ_SELECT: &str = "SELECT v FROM kst.tt WHERE pk = ? AND m = ?";

/// Frames of the enumerated (scripted, fixed-seed) exchange.
pub const ENUM_FRAMES: u64 = 150;
/// Truncation offsets enumerated per frame.
pub const ENUM_OFFSETS: u64 = 420;

fn wide_cols() -> Vec<ColSpec> {
    let c = |n: &str, t: CType| col("ks1", "wide", n, t);
    vec![
        c("id", CType::BigInt),
        c("t", CType::Text),
        c("b", CType::Blob),
        c("l", CType::List(Box::new(CType::Int))),
        c("s", CType::Set(Box::new(CType::Text))),
        c("m", CType::Map(Box::new(CType::Text), Box::new(CType::BigInt))),
        c("tu", CType::Tuple(vec![CType::Int, CType::Text])),
        c(
            "u",
            CType::Udt {
                ks: "ks1".into(),
                name: "udt1".into(),
                fields: vec![("a".into(), CType::Int), ("b".into(), CType::Text)],
            },
        ),
        c(
            "n",
            CType::List(Box::new(CType::Map(
                Box::new(CType::Int),
                Box::new(CType::List(Box::new(CType::Text))),
            ))),
        ),
        c("bo", CType::Boolean),
        c("d", CType::Double),
        c("ip", CType::Inet),
        c("uu", CType::Uuid),
        c("si", CType::SmallInt),
        c("ti", CType::TinyInt),
        c("ts", CType::Timestamp),
        c("a", CType::Ascii),
    ]
}

/// The wide row as statically typed targets (derive-based row and UDT carriers,
/// std collections): a second, independent decoding path over the same bytes.
#[derive(scylla::DeserializeRow, Debug, PartialEq)]
struct WideTyped {
    id: i64,
    t: Option<String>,
    b: Option<Vec<u8>>,
    l: Option<Vec<i32>>,
    s: Option<std::collections::BTreeSet<String>>,
    m: Option<std::collections::HashMap<String, i64>>,
    tu: Option<(Option<i32>, Option<String>)>,
    u: Option<Udt1>,
    n: Option<Vec<std::collections::BTreeMap<i32, Vec<String>>>>,
    bo: bool,
    d: Option<f64>,
    ip: Option<std::net::IpAddr>,
    uu: Option<uuid::Uuid>,
    si: Option<i16>,
    ti: Option<i8>,
    ts: Option<scylla::value::CqlTimestamp>,
    a: Option<String>,
}

#[derive(scylla::DeserializeValue, Debug, PartialEq)]
struct Udt1 {
    a: Option<i32>,
    b: Option<String>,
}

/// Rows the harness reads from one result at most (the server sends 3).
const ROW_CAP: usize = 100_000;
/// Results whose damaged counts announced more rows than ROW_CAP (not a violation:
/// the rows are yielded lazily, nothing is allocated by the driver).
static AMPLIFIED: std::sync::atomic::AtomicU64 = std::sync::atomic::AtomicU64::new(0);

fn wide_typed_expected() -> Vec<WideTyped> {
    let row = |i: i64, nulls: bool| -> WideTyped {
        fn n<T>(nulls: bool, v: T) -> Option<T> {
            if nulls { None } else { Some(v) }
        }
        WideTyped {
            id: i,
            t: n(nulls, format!("text-{i}-żółć")),
            b: n(nulls, vec![0, 1, 2, 0xff, i as u8]),
            l: n(nulls, vec![1, -2, i as i32]),
            s: n(nulls, ["a".to_string(), "b".to_string()].into_iter().collect()),
            m: n(nulls, [("k1".to_string(), i), ("k2".to_string(), -1)].into_iter().collect()),
            tu: n(nulls, (Some(7), None)),
            u: n(nulls, Udt1 { a: Some(i as i32), b: Some("udt-b".into()) }),
            n: n(nulls, vec![[(1, vec!["x".to_string(), "y".to_string()])].into_iter().collect()]),
            bo: i % 2 == 0,
            d: n(nulls, 1.5 * i as f64),
            ip: n(nulls, crate::cluster::node_ip(i as usize)),
            uu: n(nulls, uuid::Uuid::from_bytes([i as u8; 16])),
            si: n(nulls, -3),
            ti: n(nulls, 4),
            ts: n(nulls, scylla::value::CqlTimestamp(1_700_000_000_000 + i)),
            a: n(nulls, "ascii".to_string()),
        }
    };
    vec![row(1, false), row(2, true), row(3, false)]
}

fn wide_rows() -> Vec<Vec<Cell>> {
    let t = |s: &str| Cell::Text(s.into());
    let row = |i: i64, nulls: bool| -> Vec<Cell> {
        let n = |c: Cell| if nulls { Cell::Null } else { c };
        vec![
            Cell::BigInt(i),
            n(t(&format!("text-{i}-żółć"))),
            n(Cell::Blob(vec![0, 1, 2, 0xff, i as u8])),
            n(Cell::List(vec![Cell::Int(1), Cell::Int(-2), Cell::Int(i as i32)])),
            n(Cell::List(vec![t("a"), t("b")])),
            n(Cell::Map(vec![(t("k1"), Cell::BigInt(i)), (t("k2"), Cell::BigInt(-1))])),
            n(Cell::Tuple(vec![Cell::Int(7), Cell::Null])),
            n(Cell::Tuple(vec![Cell::Int(i as i32), t("udt-b")])),
            n(Cell::List(vec![Cell::Map(vec![(
                Cell::Int(1),
                Cell::List(vec![t("x"), t("y")]),
            )])])),
            Cell::Boolean(i % 2 == 0),
            n(Cell::Double(1.5 * i as f64)),
            n(Cell::Inet(crate::cluster::node_ip(i as usize))),
            n(Cell::Uuid([i as u8; 16])),
            n(Cell::SmallInt(-3)),
            n(Cell::TinyInt(4)),
            n(Cell::BigInt(1_700_000_000_000 + i)),
            n(t("ascii")),
        ]
    };
    vec![row(1, false), row(2, true), row(3, false)]
}

/// (code, extra bytes) of the i-th scripted error.
fn scripted_error(i: u64) -> (i32, Vec<u8>) {
    let mut w = W::new();
    let code = match i {
        0 => {
            w.u16(4).i32(3).i32(1);
            err::UNAVAILABLE
        }
        1 => {
            w.u16(4).i32(1).i32(2).u8(1);
            err::READ_TIMEOUT
        }
        2 => {
            w.u16(4).i32(1).i32(2).string("BATCH_LOG");
            err::WRITE_TIMEOUT
        }
        3 => {
            w.u16(6).i32(1).i32(2).i32(1).u8(0);
            err::READ_FAILURE
        }
        4 => {
            w.u16(6).i32(1).i32(2).i32(1).string("SIMPLE");
            err::WRITE_FAILURE
        }
        5 => {
            w.string("ks1").string("fn").string_list(&["int".into(), "text".into()]);
            err::FUNCTION_FAILURE
        }
        6 => {
            w.string("ks1").string("t1");
            err::ALREADY_EXISTS
        }
        7 => err::OVERLOADED,
        8 => err::IS_BOOTSTRAPPING,
        9 => err::TRUNCATE_ERROR,
        10 => err::SYNTAX_ERROR,
        11 => err::UNAUTHORIZED,
        12 => err::INVALID,
        13 => err::CONFIG_ERROR,
        14 => err::SERVER_ERROR,
        15 => err::PROTOCOL_ERROR,
        16 => {
            w.u8(1).u8(1);
            61440 // negotiated rate-limit code (treated as Other when not negotiated)
        }
        _ => 0x7777,
    };
    (code, w.buf)
}
const N_ERRORS: u64 = 18;

fn check_error(i: u64, e: &DbError, rate_limit: bool) -> bool {
    match (i, e) {
        (0, DbError::Unavailable { required: 3, alive: 1, .. }) => true,
        (1, DbError::ReadTimeout { received: 1, required: 2, data_present: true, .. }) => true,
        (2, DbError::WriteTimeout { received: 1, required: 2, .. }) => true,
        (3, DbError::ReadFailure { received: 1, required: 2, numfailures: 1, data_present: false, .. }) => true,
        (4, DbError::WriteFailure { received: 1, required: 2, numfailures: 1, .. }) => true,
        (5, DbError::FunctionFailure { keyspace, function, arg_types }) => {
            keyspace == "ks1" && function == "fn" && arg_types.len() == 2
        }
        (6, DbError::AlreadyExists { keyspace, table }) => keyspace == "ks1" && table == "t1",
        (7, DbError::Overloaded) => true,
        (8, DbError::IsBootstrapping) => true,
        (9, DbError::TruncateError) => true,
        (10, DbError::SyntaxError) => true,
        (11, DbError::Unauthorized) => true,
        (12, DbError::Invalid) => true,
        (13, DbError::ConfigError) => true,
        (14, DbError::ServerError) => true,
        (15, DbError::ProtocolError) => true,
        (16, DbError::RateLimitReached { rejected_by_coordinator: true, .. }) => rate_limit,
        (16, DbError::Other(61440)) => !rate_limit,
        (17, DbError::Other(0x7777)) => true,
        _ => false,
    }
}

struct C08Script {
    cell_cut: Option<(usize, usize)>,
    vec_cell_len: Option<usize>,
    nometa_bomb: Option<i32>,
    deep_nesting: Option<usize>,
    /// Custom (id 0x0000) column types, as type-name strings, to put in the wide
    /// query's metadata instead of the regular columns.
    custom_types: Option<Vec<String>>,
    tablets: bool,
}

fn tablet_payload(first: i64, last: i64, replicas: &[([u8; 16], i32)]) -> Vec<u8> {
    let mut list = W::new();
    list.i32(replicas.len() as i32);
    for (id, shard) in replicas {
        let mut t = W::new();
        t.bytes(Some(id));
        t.bytes(Some(&shard.to_be_bytes()));
        list.bytes(Some(&t.buf));
    }
    let mut w = W::new();
    w.bytes(Some(&first.to_be_bytes()));
    w.bytes(Some(&last.to_be_bytes()));
    w.bytes(Some(&list.buf));
    w.buf
}

impl Script for C08Script {
    fn on_user_request(&mut self, w: &mut World, rq: &ReqInfo, req: &Request) -> Reply {
        // S2c: the table gains a column between two pages of one paged read (ALTER TABLE
        // while a client iterates): the later page comes with other metadata.
        if let Request::Execute { params, .. } = req {
            if rq.marker.map(|m| m >= 2_000_000).unwrap_or(false) && params.paging_state.is_some() {
                if let Some(idx) = w.cluster.find_stmt(client::Q_PREPARED_SELECT) {
                    if w.cluster.catalog[idx].result_cols.len() == 1 {
                        w.cluster.catalog[idx].result_cols.push(col("ks1", "t1", "added", CType::Text));
                        w.cluster.catalog[idx].schema_version += 1;
                        w.probe("metadata_changed_between_pages");
                    }
                }
            }
        }
        if let (Some(cols), Request::Execute { params, .. }) = (self.nometa_bomb, req) {
            if params.skip_metadata && rq.marker.is_some() {
                let mut b = W::new();
                b.i32(0x0002).i32(0x0004).i32(cols).i32(i32::MAX);
                w.fault(world::Fault::Corrupt);
                w.probe("rows_without_metadata_announcing_2e31_rows");
                crate::runner::note(&format!("Rows/NO_METADATA body announcing {cols} columns and 2^31-1 rows in 16 bytes"));
                return Reply::Raw { opcode: wire::OP_RESULT, body: b.buf, env: Envelope::default(), delay: w.think() };
            }
        }
        if let Request::Query { text, .. } = req {
            if text.starts_with(ERR_Q) {
                let (code, extra) = scripted_error(rq.marker.unwrap_or(0));
                return Reply::Error {
                    code,
                    msg: format!("scripted error {}", rq.marker.unwrap_or(0)),
                    extra,
                    delay: w.think(),
                };
            }
            if text.starts_with(DDL_Q) {
                return Reply::Raw {
                    opcode: wire::OP_RESULT,
                    body: wire::body_schema_change("CREATED", "TABLE", "ks1", Some("created")),
                    env: Envelope::default(),
                    delay: w.think(),
                };
            }
            if text.starts_with(WIDE_Q) {
                if let Some(types) = &self.custom_types {
                    // Field-aware mutation: type ids replaced by custom types whose
                    // class-name strings come from a grammar-based fuzzer.
                    let cols: Vec<ColSpec> = types
                        .iter()
                        .enumerate()
                        .map(|(i, t)| {
                            let mut w2 = W::new();
                            w2.string(t);
                            col("ks1", "wide", &format!("c{i}"), CType::Raw(0x0000, w2.buf))
                        })
                        .collect();
                    // Two rows of arbitrary cells, so that values of the fuzzed types are
                    // decoded too (whatever the type, a cell is just [bytes]).
                    let rows: Vec<Vec<Cell>> = (0..2)
                        .map(|_| {
                            (0..cols.len())
                                .map(|_| {
                                    let n = [0usize, 4, 8, 16, 20, 33][tape::choose("c08:ct_cell_len", 6) as usize];
                                    Cell::Blob((0..n).map(|k| (k as u8).wrapping_mul(7).wrapping_add(1)).collect())
                                })
                                .collect()
                        })
                        .collect();
                    let body = wire::body_rows(&cols, &rows, &Default::default());
                    w.fault(world::Fault::Corrupt);
                    crate::runner::note(&format!("custom type strings {:?}", types.iter().map(|t| t.chars().take(120).collect::<String>()).collect::<Vec<_>>()));
                    return Reply::Raw {
                        opcode: wire::OP_RESULT,
                        body,
                        env: Envelope::default(),
                        delay: w.think(),
                    };
                }
                if let Some(depth) = self.deep_nesting {
                    // Field-aware mutation: nesting deepened in the result metadata.
                    // Nested through lists, one-element tuples, tuples announcing 65535
                    // elements (only the first is there), or UDTs announcing 65535 fields.
                    let kind = depth % 4;
                    let mut raw = Vec::new();
                    for _ in 0..depth {
                        match kind {
                            0 => raw.extend_from_slice(&[0x00, 0x20]),
                            1 => raw.extend_from_slice(&[0x00, 0x31, 0x00, 0x01]),
                            2 => raw.extend_from_slice(&[0x00, 0x31, 0xff, 0xff]),
                            // udt: keyspace "k", name "u", 65535 fields, first field "f"
                            _ => raw.extend_from_slice(&[0x00, 0x30, 0x00, 0x01, b'k', 0x00, 0x01, b'u', 0xff, 0xff, 0x00, 0x01, b'f']),
                        }
                    }
                    raw.extend_from_slice(&[0x00, 0x09]);
                    let cols = vec![col("ks1", "wide", "deep", CType::Raw(0x0020, raw))];
                    let body = wire::body_rows(&cols, &[], &Default::default());
                    w.fault(world::Fault::Corrupt);
                    crate::runner::note(&format!("result metadata with type nesting depth {depth}"));
                    return Reply::Raw {
                        opcode: wire::OP_RESULT,
                        body,
                        env: Envelope::default(),
                        delay: w.think(),
                    };
                }
            }
        }
        Reply::Default
    }
    fn rows_for(&mut self, _w: &mut World, rq: &ReqInfo, stmt: &StmtDef) -> Vec<Vec<Cell>> {
        if stmt.shape == WIDE_Q || stmt.shape == EXTRA_Q {
            let wide = stmt.shape == WIDE_Q;
            let mut rows = if wide { wide_rows() } else { extra_rows() };
            if let Some((c, len)) = self.cell_cut {
                let c = if wide { c } else { c.wrapping_sub(17) };
                for r in rows.iter_mut() {
                    if let Some(cell) = r.get_mut(c) {
                        if let Some(b) = cell.encode() {
                            if b.len() > len {
                                *cell = Cell::Blob(b[..len].to_vec());
                                _w.fault(world::Fault::Corrupt);
                            }
                        }
                    }
                }
            }
            return rows;
        }
        if stmt.shape == client::Q_PREPARED_SELECT && rq.marker.map(|m| m >= 2_000_000).unwrap_or(false) {
            // Four rows: read with page size 2 this gives two pages of two rows.
            let r = crate::cluster::default_rows(stmt, rq.marker);
            return vec![r[0].clone(); 4];
        }
        if stmt.shape == client::Q_PREPARED_SELECT && rq.marker.map(|m| m >= 1_000_000).unwrap_or(false) {
            // Two rows: read with page size 1 this gives a first page with more pages.
            let r = crate::cluster::default_rows(stmt, rq.marker);
            return vec![r[0].clone(), r[0].clone()];
        }
        if stmt.shape == VTEXT_Q {
            return vtext_rows();
        }
        if stmt.shape == VEC_Q {
            let mut rows = vec_rows();
            if let Some(len) = self.vec_cell_len {
                _w.fault(world::Fault::Corrupt);
                for r in rows.iter_mut() {
                    if let Cell::Blob(b) = &mut r[0] {
                        b.resize(len, 0x3f);
                    }
                }
            }
            return rows;
        }
        crate::cluster::default_rows(stmt, rq.marker)
    }
    fn envelope_for(&mut self, w: &mut World, rq: &ReqInfo, req: &Request) -> Envelope {
        let mut env = Envelope::default();
        match req {
            Request::Query { text, .. } if text.starts_with("UPDATE") => {
                env.warnings = vec!["scripted warning 1".into(), "second warning".into()];
            }
            Request::Execute { .. } if self.tablets && w.conns[rq.conn].cql.tablets_ext => {
                let ids: Vec<([u8; 16], i32)> = w
                    .cluster
                    .nodes
                    .iter()
                    .map(|n| (n.host_id, 0))
                    .collect();
                env.custom_payload = vec![(
                    "tablets-routing-v1".into(),
                    tablet_payload(-1000, 5000, &ids),
                )];
                // The traced execution carries all three body extensions at once.
                if rq.tracing {
                    env.warnings = vec!["tablet warning".into()];
                }
            }
            _ => {}
        }
        if rq.tracing {
            env.tracing_id = Some([0x11; 16]);
        }
        env
    }
    fn as_any(&mut self) -> &mut dyn Any {
        self
    }
}

#[derive(Clone, Debug)]
struct Plan {
    enumerated: bool,
    target_frame: Option<u64>,
    mutation: Option<Mutation>,
    deep_nesting: Option<usize>,
    custom_types: Option<Vec<String>>,
    compression: Option<scylla::frame::Compression>,
    auth: bool,
    metadata_id_ext: bool,
    tablets_ext: bool,
    rate_limit_ext: bool,
    sharded: bool,
    /// Field-aware mutation of a PREPARED answer: the partition-key index list of the
    /// compound-key statement (normally [0, 1, 2]) replaced by a seeded list.
    pk_fuzz: Option<Vec<u16>>,
    /// Field-aware mutation: an EXECUTE that asked the node to omit the result metadata
    /// is answered with a 16-byte Rows body saying NO_METADATA, `cols` columns and
    /// 2^31-1 rows (no row bytes at all).
    nometa_bomb: Option<i32>,
    /// Field-aware mutation: the cells of the vector<float, 5> column are cut to this many
    /// bytes (the metadata still says 5 floats).
    vec_cell_len: Option<usize>,
    /// Field-aware mutation: in the wide rows (columns 0..16) or the extra-types rows
    /// (columns 17..23) the cells of one column are cut to this many bytes.
    cell_cut: Option<(usize, usize)>,
    /// Field-aware mutation: the SCYLLA_SHARDING_IGNORE_MSB one node announces.
    odd_msb: Option<u8>,
}

/// Prepared statement with a three-column partition key (and the marker bind).
const CK_Q: &str = "SELECT v FROM ks1.ck WHERE a = ? AND b = ? AND c = ? AND m = ?";

fn draw_mutation() -> Mutation {
    match tape::weighted("c08:mutation", &[3, 3, 4, 4, 1, 1, 1, 2, 1, 1, 1]) {
        0 => Mutation::Truncate {
            at: tape::choose("c08:trunc_at", 600) as usize,
        },
        1 => {
            let n = 1 + tape::choose("c08:flips", 4) as usize;
            Mutation::BitFlip(
                (0..n)
                    .map(|_| {
                        (
                            tape::choose("c08:flip_byte", 600) as usize,
                            tape::choose("c08:flip_bit", 8) as u8,
                        )
                    })
                    .collect(),
            )
        }
        2 => Mutation::WireOverwrite {
            at: tape::choose("c08:ow_at", 600) as usize,
            width: [4, 2, 1][tape::choose("c08:ow_width", 3) as usize],
            value: SPECIAL_U32[tape::choose("c08:ow_value", SPECIAL_U32.len() as u64) as usize],
        },
        3 => Mutation::BodyOverwrite {
            at: tape::choose("c08:bow_at", 600) as usize,
            width: [4, 2, 1][tape::choose("c08:bow_width", 3) as usize],
            value: SPECIAL_U32[tape::choose("c08:bow_value", SPECIAL_U32.len() as u64) as usize],
        },
        4 => Mutation::HeaderFlags(1 << tape::choose("c08:hflag", 8)),
        5 => Mutation::HeaderOpcode(tape::choose("c08:hopcode", 0x20) as u8),
        6 => Mutation::HeaderVersion([0x04, 0x85, 0x83, 0x00][tape::choose("c08:hversion", 4) as usize]),
        7 => Mutation::HeaderLen(
            [0, 1, 8, 0x100, 0x10000, 0x7fff_ffff, 0xffff_ffff, 0x4000_0000]
                [tape::choose("c08:hlen", 8) as usize],
        ),
        8 => {
            let n = tape::range("c08:garbage_len", 1, 64) as usize;
            Mutation::Replace((0..n).map(|_| tape::choose("c08:garbage", 256) as u8).collect())
        }
        9 => Mutation::Lz4Prefix(SPECIAL_U32[tape::choose("c08:lz4", SPECIAL_U32.len() as u64) as usize]),
        _ => {
            let n = tape::range("c08:body_garbage_len", 0, 48) as usize;
            Mutation::BodyReplace((0..n).map(|_| tape::choose("c08:body_garbage", 256) as u8).collect())
        }
    }
}

/// Frame lengths of the scripted exchange, if the batch measured them.
fn enum_table() -> Option<Vec<u64>> {
    let path = std::env::var("VERIF_C08_TABLE").ok()?;
    let text = std::fs::read_to_string(path).ok()?;
    let v: Value = serde_json::from_str(&text).ok()?;
    Some(v.as_array()?.iter().map(|x| x.as_u64().unwrap_or(0)).collect())
}

/// Dry run of the scripted exchange (no damage): returns the frame lengths.
pub fn dry_run_table(req: &RunRequest) -> Value {
    let mut r = req.clone();
    r.run_index = u64::MAX - 1; // even => enumerated; the huge frame index never fires
    r.tape = None;
    // Make sure no table is consulted for the dry run itself.
    unsafe { std::env::remove_var("VERIF_C08_TABLE") };
    DRY.store(true, std::sync::atomic::Ordering::SeqCst);
    run(&r)
}

static DRY: std::sync::atomic::AtomicBool = std::sync::atomic::AtomicBool::new(false);

pub fn run(req: &RunRequest) -> Value {
    // Even run indices enumerate truncation of every frame of the scripted
    // exchange at every offset; the seed of everything else is fixed there so
    // that the exchange is identical across the enumeration.
    let enumerated = req.run_index % 2 == 0;
    let mut req2 = req.clone();
    if enumerated {
        req2.seed_override = Some(0xC08_5C21_97ED);
    }
    let run_index = req.run_index;
    run_sim(&req2, move || {
        let plan = if enumerated {
            let i = run_index / 2;
            // With the frame-length table of the scripted exchange (measured by a
            // dry run at batch start) the enumeration is exact: case i is the
            // i-th (frame, offset) pair with offset < len(frame).
            let (frame, offset) = match enum_table() {
                Some(lens) if !lens.is_empty() => {
                    let total: u64 = lens.iter().sum();
                    let mut k = i % total;
                    let mut f = 0u64;
                    for (idx, l) in lens.iter().enumerate() {
                        if k < *l {
                            f = idx as u64;
                            break;
                        }
                        k -= *l;
                    }
                    (f, k)
                }
                _ => (i % ENUM_FRAMES, (i / ENUM_FRAMES) % ENUM_OFFSETS),
            };
            Plan {
                enumerated: true,
                target_frame: if DRY.load(std::sync::atomic::Ordering::SeqCst) { None } else { Some(frame) },
                mutation: if DRY.load(std::sync::atomic::Ordering::SeqCst) {
                    None
                } else {
                    Some(Mutation::Truncate { at: offset as usize })
                },
                deep_nesting: None,
                custom_types: None,
                compression: None,
                auth: false,
                metadata_id_ext: true,
                tablets_ext: true,
                rate_limit_ext: true,
                sharded: true,
                pk_fuzz: None,
                nometa_bomb: None,
                vec_cell_len: None,
                cell_cut: None,
                odd_msb: None,
            }
        } else {
            let fault_free = tape::chance("c08:fault_free", 1, 10);
            let deep = !fault_free && tape::chance("c08:deep", 1, 25);
            let custom = !fault_free && !deep && tape::chance("c08:custom", 1, 8);
            let custom_types = if custom {
                Some((0..tape::range("c08:custom_n", 1, 4)).map(|_| fuzz_custom_type()).collect())
            } else {
                None
            };
            let cellfuzz = !fault_free && !deep && !custom && tape::chance("c08:cellfuzz", 1, 6);
            let deep = deep || custom;
            Plan {
                enumerated: false,
                custom_types,
                target_frame: if fault_free || deep || cellfuzz {
                    None
                } else {
                    Some(tape::choose("c08:frame", ENUM_FRAMES + 20))
                },
                mutation: if fault_free || deep || cellfuzz { None } else { Some(draw_mutation()) },
                deep_nesting: if deep && !custom {
                    // (depth mod 4 selects the wrapper kind)
                    Some([8, 64, 1000, 20_000, 120_000, 9, 65, 250, 10, 66, 251, 255, 67, 1001][tape::choose("c08:depth", 14) as usize])
                } else {
                    None
                },
                compression: client::draw_compression().or_else(client::draw_compression),
                auth: tape::chance("c08:auth", 1, 4),
                metadata_id_ext: tape::chance("c08:mdid", 1, 2),
                tablets_ext: tape::chance("c08:tablets", 1, 2),
                rate_limit_ext: tape::chance("c08:ratelimit", 1, 2),
                sharded: tape::chance("c08:sharded", 1, 2),
                pk_fuzz: if custom && tape::chance("c08:pk_fuzz", 1, 2) {
                    const IDX: [u16; 7] = [0, 1, 2, 3, 4, 7, 65535];
                    Some((0..tape::choose("c08:pk_fuzz_len", 6)).map(|_| IDX[tape::choose("c08:pk_fuzz_idx", IDX.len() as u64) as usize]).collect())
                } else {
                    None
                },
                nometa_bomb: if deep && !custom && tape::chance("c08:nometa_bomb", 1, 2) {
                    Some([0, 1, 2, -1][tape::choose("c08:bomb_cols", 4) as usize])
                } else {
                    None
                },
                cell_cut: if cellfuzz {
                    Some((tape::choose("c08:cut_col", 24) as usize, tape::choose("c08:cut_len", 9) as usize))
                } else {
                    None
                },
                vec_cell_len: if deep && tape::chance("c08:vec_cell", 1, 2) {
                    Some([0usize, 1, 3, 4, 7, 8, 11, 12, 16, 19, 21, 40][tape::choose("c08:vec_cell_len", 12) as usize])
                } else {
                    None
                },
                odd_msb: if cellfuzz && tape::chance("c08:odd_msb", 1, 2) {
                    Some([0u8, 63, 64, 65, 127, 255][tape::choose("c08:msb_value", 6) as usize])
                } else {
                    None
                },
            }
        };
        // Debugging aid (never set by the checks): force the nesting depth of sampled runs.
        let plan = match std::env::var("DSIM_C08_DEPTH").ok().and_then(|v| v.parse::<usize>().ok()) {
            Some(d) if !plan.enumerated => Plan { deep_nesting: Some(d), mutation: None, custom_types: None, ..plan },
            _ => plan,
        };
        let mut cluster = Cluster::new("c08");
        let shards = if plan.sharded { 2 } else { 0 };
        cluster.add_node("dc1", "r1", shards, vec![-3000, 3000]);
        cluster.add_node("dc1", "r2", shards, vec![0, 6000]);
        // Sampled fuzz runs with sharded nodes: the sharding parameters a node announces in
        // SUPPORTED are numbers from the network like any other (1 in 4: an unusual
        // SCYLLA_SHARDING_IGNORE_MSB on the second node).
        if let Some(v) = plan.odd_msb {
            cluster.nodes[1].msb_ignore = v;
        }
        client::standard_catalog(&mut cluster, Strategy::Simple(2), false);
        cluster.keyspaces.push(KeyspaceDef {
            name: "kst".into(),
            strategy: Strategy::Nts(vec![("dc1".into(), 2)]),
            tablets: true,
            tables: vec![TableDef {
                name: "tt".into(),
                partitioner: None,
                view_of: None,
            }],
        });
        cluster.keyspaces[0].tables.push(TableDef {
            name: "wide".into(),
            partitioner: None,
            view_of: None,
        });
        cluster.catalog.push(StmtDef {
            shape: WIDE_Q.into(),
            ks: "ks1".into(),
            table: "wide".into(),
            kind: StmtKind::Select,
            bind_cols: vec![],
            pk_indexes: vec![],
            result_cols: wide_cols(),
            marker_bind: None,
            schema_version: 0,
            id_version: 0,
        });
        cluster.keyspaces[0].tables.push(TableDef {
            name: "extra".into(),
            partitioner: None,
            view_of: None,
        });
        cluster.catalog.push(StmtDef {
            shape: EXTRA_Q.into(),
            ks: "ks1".into(),
            table: "extra".into(),
            kind: StmtKind::Select,
            bind_cols: vec![],
            pk_indexes: vec![],
            result_cols: extra_cols(),
            marker_bind: None,
            schema_version: 0,
            id_version: 0,
        });
        cluster.keyspaces[0].tables.push(TableDef {
            name: "vecs".into(),
            partitioner: None,
            view_of: None,
        });
        cluster.catalog.push(StmtDef {
            shape: VEC_Q.into(),
            ks: "ks1".into(),
            table: "vecs".into(),
            kind: StmtKind::Select,
            bind_cols: vec![],
            pk_indexes: vec![],
            result_cols: vec![vec_col()],
            marker_bind: None,
            schema_version: 0,
            id_version: 0,
        });
        cluster.catalog.push(StmtDef {
            shape: VTEXT_Q.into(),
            ks: "ks1".into(),
            table: "vecs".into(),
            kind: StmtKind::Select,
            bind_cols: vec![],
            pk_indexes: vec![],
            result_cols: vec![vtext_col()],
            marker_bind: None,
            schema_version: 0,
            id_version: 0,
        });
        cluster.catalog.push(StmtDef {
            shape: TQ_SELECT.into(),
            ks: "kst".into(),
            table: "tt".into(),
            kind: StmtKind::Select,
            bind_cols: vec![
                col("kst", "tt", "pk", CType::BigInt),
                col("kst", "tt", "m", CType::BigInt),
            ],
            pk_indexes: vec![0],
            result_cols: vec![col("kst", "tt", "v", CType::BigInt)],
            marker_bind: Some(1),
            schema_version: 0,
            id_version: 0,
        });
        cluster.keyspaces[0].tables.push(TableDef {
            name: "ck".into(),
            partitioner: None,
            view_of: None,
        });
        cluster.catalog.push(StmtDef {
            shape: CK_Q.into(),
            ks: "ks1".into(),
            table: "ck".into(),
            kind: StmtKind::Select,
            bind_cols: vec![
                col("ks1", "ck", "a", CType::BigInt),
                col("ks1", "ck", "b", CType::BigInt),
                col("ks1", "ck", "c", CType::BigInt),
                col("ks1", "ck", "m", CType::BigInt),
            ],
            // The table's partition key is (c, a, b): component 0 is bind marker 2, component
            // 1 is marker 0, component 2 is marker 1 - the markers are not in key order.
            pk_indexes: plan.pk_fuzz.clone().unwrap_or_else(|| vec![2, 0, 1]),
            result_cols: vec![col("ks1", "ck", "v", CType::BigInt)],
            marker_bind: Some(3),
            schema_version: 0,
            id_version: 0,
        });
        cluster.features.auth = plan.auth;
        cluster.features.metadata_id_ext = plan.metadata_id_ext;
        cluster.features.tablets_ext = plan.tablets_ext;
        cluster.features.rate_limit_ext = plan.rate_limit_ext;
        cluster.features.lwt_ext = true;
        cluster.think_min = 0;
        cluster.think_max = MS;
        cluster.system_page_rows = 1;
        let net = if plan.enumerated {
            NetCfg::default()
        } else {
            NetCfg {
                chunk_permille: [0, 300, 900][tape::choose("c08:chunk", 3) as usize],
                chaos_yield_permille: [0, 30][tape::choose("c08:chaos", 2) as usize],
                ..NetCfg::default()
            }
        };
        let setup = SimSetup {
            cluster,
            net,
            virt_cap: Duration::from_secs(3600),
            world_oracles: vec![],
            panic_is_violation: true,
            rlimit_as: Some(12 << 30),
            alloc_limit: Some(64 << 20),
        };
        (setup, move || main(plan))
    })
}

const STEP_BOUND: Duration = Duration::from_secs(120);

/// Steps whose API enforces no client-side request timeout: when the damage makes
/// their response vanish (stream id turned into -1, body swallowed by an inflated
/// length field of the previous frame) the caller legitimately keeps waiting, which
/// is not a decoding failure. A decoder that does not terminate would show up as
/// the wall-clock kill of the child instead.
const UNTIMED_STEPS: [&str; 7] = ["session", "prepare", "prepare_insert", "prepare_tablets", "prepare_ck", "use", "refresh"];

async fn step<T>(
    out: &mut Outcome,
    name: &str,
    fut: impl std::future::Future<Output = T>,
) -> Option<T> {
    match tokio::time::timeout(STEP_BOUND, fut).await {
        Ok(v) => Some(v),
        Err(_) if UNTIMED_STEPS.contains(&name) || name == "ddl" => {
            out.count("untimed_call_waiting_for_lost_response", 1);
            out.abandoned = true;
            None
        }
        Err(_) => {
            let fired = world::world().mutation_fired.clone();
            out.violation(
                "c08.hang",
                format!("step {name} did not return within {} virtual s after {fired:?}", STEP_BOUND.as_secs()),
            );
            None
        }
    }
}

fn db_error(e: &ExecutionError) -> Option<&DbError> {
    match e {
        ExecutionError::LastAttemptError(RequestAttemptError::DbError(d, _)) => Some(d),
        _ => None,
    }
}

async fn main(plan: Plan) -> Outcome {
    let mut out = Outcome::default();
    {
        let mut w = world::world();
        w.script = Some(Box::new(C08Script {
            nometa_bomb: plan.nometa_bomb,
            cell_cut: plan.cell_cut,
            vec_cell_len: plan.vec_cell_len,
            deep_nesting: plan.deep_nesting,
            custom_types: plan.custom_types.clone(),
            tablets: true,
        }));
        if let (Some(f), Some(m)) = (plan.target_frame, plan.mutation.clone()) {
            w.mutation = Some((f, m));
        }
    }
    let cfg = SessionCfg {
        contact_nodes: vec![0],
        pool: PoolSize::PerHost(NonZeroUsize::new(1).unwrap()),
        keepalive_interval: Some(Duration::from_secs(5)),
        keepalive_timeout: Some(Duration::from_secs(2)),
        request_timeout: Some(Duration::from_secs(20)),
        retry: Some(Arc::new(FallthroughRetryPolicy)),
        compression: plan.compression,
        fetch_schema: true,
        ..SessionCfg::default()
    };
    let clean = plan.mutation.is_none() && plan.deep_nesting.is_none() && plan.custom_types.is_none() && plan.vec_cell_len.is_none() && plan.nometa_bomb.is_none() && plan.cell_cut.is_none() && plan.odd_msb.is_none();
    let session: Arc<Session> = {
        // Auth is negotiated by the mock regardless of the credentials.
        let built = step(&mut out, "session", async {
            if plan.auth {
                build_with_auth(&cfg).await
            } else {
                client::build_session(&cfg).await
            }
        })
        .await;
        match built {
            Some(Ok(s)) => Arc::new(s),
            Some(Err(e)) => {
                // A damaged handshake may legitimately fail session creation: the caller got an error.
                if clean {
                    out.violation("c08.clean_session", format!("fault-free session creation failed: {e}"));
                }
                return finish(out, &plan);
            }
            None => return finish(out, &plan),
        }
    };

    // S1: unpaged marker select with tracing.
    let mut m = 100u64;
    let mut st = Statement::new(client::q_marker(m));
    st.set_tracing(true);
    if let Some(r) = step(&mut out, "select", session.query_unpaged(st, ())).await {
        match r {
            Ok(qr) => {
                if clean && qr.tracing_id().is_none() {
                    out.violation("c08.roundtrip", "tracing id not decoded".into());
                }
                let chk = client::check_marker_rows(qr, m);
                if clean {
                    if let Err(e) = chk {
                        out.violation("c08.roundtrip", e);
                    }
                }
            }
            Err(e) => {
                if clean {
                    out.violation("c08.roundtrip", format!("clean select failed: {e}"));
                }
            }
        }
    }
    // S2: prepare + execute (with and without cached metadata).
    let prepared = step(&mut out, "prepare", session.prepare(client::Q_PREPARED_SELECT)).await;
    if let Some(Ok(mut p)) = prepared.map(|r| r.map_err(|e| e.to_string())) {
        for cached in [false, true] {
            m += 1;
            p.set_use_cached_result_metadata(cached);
            if let Some(r) = step(&mut out, "execute", session.execute_unpaged(&p, (1i64, m as i64))).await {
                match r {
                    Ok(qr) => {
                        // A decoded result whose rows have at least one column cannot hold
                        // more rows than the frame had bytes (every cell takes >= 4 bytes).
                        let chk = match qr.into_rows_result() {
                            Ok(rr) => {
                                if rr.column_specs().len() >= 1 && rr.rows_num() > 1_000_000 {
                                    out.violation(
                                        "c08.rows_out_of_proportion",
                                        format!(
                                            "a response of a few bytes was decoded into a result of {} rows with {} columns [{:?}]",
                                            rr.rows_num(),
                                            rr.column_specs().len(),
                                            world::world().mutation_fired
                                        ),
                                    );
                                }
                                (|| {
                                    let got: Vec<i64> = rr
                                        .rows::<(i64,)>()
                                        .map_err(|e| format!("marker {m}: rows type check failed: {e}"))?
                                        .take(ROW_CAP)
                                        .map(|r| r.map(|t| t.0))
                                        .collect::<Result<_, _>>()
                                        .map_err(|e| format!("marker {m}: row deserialization failed: {e}"))?;
                                    if got != vec![m as i64] {
                                        return Err(format!("request with marker {m} received rows {:?}", &got[..got.len().min(4)]));
                                    }
                                    Ok(())
                                })()
                            }
                            Err(e) => Err(format!("marker {m}: result is not rows: {e}")),
                        };
                        if clean {
                            if let Err(e) = chk {
                                out.violation("c08.roundtrip", e);
                            }
                        }
                    }
                    Err(e) => {
                        if clean {
                            out.violation("c08.roundtrip", format!("clean execute failed: {e}"));
                        }
                    }
                }
            }
        }
        // S2b: the statement's result metadata changes on the node (new result metadata
        // id); the next execution is a paged one, so its first answer carries the new id
        // AND a paging state (with the metadata-id extension).
        {
            {
                let mut w = world::world();
                if let Some(idx) = w.cluster.find_stmt(client::Q_PREPARED_SELECT) {
                    w.cluster.catalog[idx].schema_version += 1;
                }
            }
            m += 1;
            let m2 = 1_000_000 + m;
            let mut p2 = p.clone();
            p2.set_page_size(1);
            p2.set_use_cached_result_metadata(true);
            let fut = async {
                use futures::StreamExt;
                let pager = session.execute_iter(p2, (1i64, m2 as i64)).await.map_err(|e| e.to_string())?;
                let mut stream = pager.rows_stream::<(i64,)>().map_err(|e| e.to_string())?;
                let mut rows = Vec::new();
                while let Some(r) = stream.next().await {
                    rows.push(r.map_err(|e| e.to_string())?.0);
                    if rows.len() > ROW_CAP {
                        break;
                    }
                }
                Ok::<_, String>(rows)
            };
            if let Some(r) = step(&mut out, "execute_paged_after_schema_change", fut).await {
                if clean {
                    match r {
                        Ok(v) if v == vec![m2 as i64, m2 as i64] => out.count("paged_after_schema_change_equal", 1),
                        other => out.violation("c08.roundtrip", format!("paged execution after a result-metadata change: {other:?}")),
                    }
                }
            }
        }
        // S2c: the result metadata changes between the two pages (two rows each) of one paged
        // read through a typed stream; the consumer keeps polling after errors.
        {
            m += 1;
            let m3 = 2_000_000 + m;
            let mut p3 = p.clone();
            p3.set_page_size(2);
            let fut = async {
                use futures::StreamExt;
                let pager = session.execute_iter(p3, (1i64, m3 as i64)).await.map_err(|e| e.to_string())?;
                let mut stream = pager.rows_stream::<(i64,)>().map_err(|e| e.to_string())?;
                let mut oks = Vec::new();
                let mut errs = 0u32;
                while let Some(r) = stream.next().await {
                    match r {
                        Ok((v,)) => oks.push(v),
                        Err(_) => errs += 1,
                    }
                    if oks.len() + errs as usize > 12 {
                        break;
                    }
                }
                Ok::<_, String>((oks, errs))
            };
            let r = step(&mut out, "execute_paged_across_schema_change", fut).await;
            {
                // Back to the one-column table for the steps that follow.
                let mut w = world::world();
                if let Some(idx) = w.cluster.find_stmt(client::Q_PREPARED_SELECT) {
                    if w.cluster.catalog[idx].result_cols.len() == 2 {
                        w.cluster.catalog[idx].result_cols.pop();
                        w.cluster.catalog[idx].schema_version += 1;
                    }
                }
            }
            if let Some(r) = r {
                if clean {
                    match r {
                        Ok((oks, _)) if oks.len() >= 2 && oks[..2] == [m3 as i64, m3 as i64] => out.count("paged_across_schema_change_first_page_equal", 1),
                        other => out.violation("c08.roundtrip", format!("paged execution across a result-metadata change: {other:?}")),
                    }
                }
            }
        }
        // S10: batch.
        if let Some(Ok(ins)) = step(&mut out, "prepare_insert", session.prepare(client::Q_PREPARED_INSERT)).await {
            let mut batch = Batch::default();
            batch.append_statement(ins.clone());
            batch.append_statement(ins);
            m += 1;
            let r = step(&mut out, "batch", session.batch(&batch, ((1i64, m as i64), (2i64, m as i64)))).await;
            if clean {
                if let Some(Err(e)) = r {
                    out.violation("c08.roundtrip", format!("clean batch failed: {e}"));
                }
            }
        }
    } else if clean {
        out.violation("c08.roundtrip", "clean prepare failed".into());
    }
    if out.abandoned {
        return finish(out, &plan);
    }
    // S3: write with warnings.
    m += 1;
    if let Some(r) = step(&mut out, "write", session.query_unpaged(client::q_write_marker(m), ())).await {
        if clean {
            match r {
                Ok(qr) => {
                    let w: Vec<String> = qr.warnings().map(|s| s.to_string()).collect();
                    if w != vec!["scripted warning 1".to_string(), "second warning".to_string()] {
                        out.violation("c08.roundtrip", format!("warnings decoded as {w:?}"));
                    }
                }
                Err(e) => out.violation("c08.roundtrip", format!("clean write failed: {e}")),
            }
        }
    }
    // S3b: the same write traced: tracing id AND warnings in one frame.
    m += 1;
    {
        let mut st = Statement::new(client::q_write_marker(m));
        st.set_tracing(true);
        if let Some(r) = step(&mut out, "write_traced", session.query_unpaged(st, ())).await {
            if clean {
                match r {
                    Ok(qr) => {
                        let w: Vec<String> = qr.warnings().map(|s| s.to_string()).collect();
                        if w != vec!["scripted warning 1".to_string(), "second warning".to_string()] || qr.tracing_id().is_none() {
                            out.violation("c08.roundtrip", format!("traced write: warnings decoded as {w:?}, tracing id {:?}", qr.tracing_id()));
                        }
                    }
                    Err(e) => out.violation("c08.roundtrip", format!("clean traced write failed: {e}")),
                }
            }
        }
    }
    // S4: wide row through the dynamic value type.
    let expected: Vec<Vec<Option<scylla::value::CqlValue>>> = wide_rows()
        .iter()
        .map(|r| r.iter().zip(wide_cols().iter()).map(|(c, s)| expected_cql(&s.typ, c)).collect())
        .collect();
    if let Some(r) = step(&mut out, "wide", session.query_unpaged(format!("{WIDE_Q}1"), ())).await {
        match r {
            Ok(qr) => {
                let mut typed: Option<Result<Vec<WideTyped>, String>> = None;
                let decoded: Result<Vec<Vec<Option<scylla::value::CqlValue>>>, String> = (|| {
                    let rr = qr.into_rows_result().map_err(|e| e.to_string())?;
                    // Statically typed targets over the same bytes (value or error, never a crash).
                    typed = Some((|| {
                        let mut v = Vec::new();
                        for row in rr.rows::<WideTyped>().map_err(|e| e.to_string())? {
                            v.push(row.map_err(|e| e.to_string())?);
                            if v.len() > ROW_CAP {
                                AMPLIFIED.fetch_add(1, std::sync::atomic::Ordering::Relaxed);
                                break;
                            }
                        }
                        Ok(v)
                    })());
                    let mut v = Vec::new();
                    for row in rr.rows::<Row>().map_err(|e| e.to_string())? {
                        v.push(row.map_err(|e| e.to_string())?.columns);
                        if v.len() > ROW_CAP {
                            AMPLIFIED.fetch_add(1, std::sync::atomic::Ordering::Relaxed);
                            break;
                        }
                    }
                    Ok(v)
                })();
                out.count("typed_decodes", typed.is_some() as u64);
                if clean {
                    match typed {
                        Some(Ok(v)) if v == wide_typed_expected() => out.count("wide_typed_equal", 1),
                        other => out.violation(
                            "c08.roundtrip",
                            format!("typed wide rows decoded differently: {:?}", other.map(|r| r.map(|v| v.into_iter().next()))),
                        ),
                    }
                }
                if clean {
                    match decoded {
                        Ok(v) if v == expected => out.count("wide_rows_equal", 1),
                        Ok(v) => out.violation(
                            "c08.roundtrip",
                            format!("wide rows decoded differently: got {:?} expected {:?}", v.first(), expected.first()),
                        ),
                        Err(e) => out.violation("c08.roundtrip", format!("clean wide rows failed to decode: {e}")),
                    }
                }
            }
            Err(e) => {
                if clean {
                    out.violation("c08.roundtrip", format!("clean wide select failed: {e}"));
                }
            }
        }
    }
    // S4d: the remaining native types (decimal, varint, float, date, time, duration,
    // timeuuid) through the dynamic value type and through typed targets.
    if let Some(r) = step(&mut out, "extra", session.query_unpaged(format!("{EXTRA_Q}1"), ())).await {
        let decoded: Result<(usize, Vec<ExtraTyped>), String> = (|| {
            let qr = r.map_err(|e| e.to_string())?;
            let rr = qr.into_rows_result().map_err(|e| e.to_string())?;
            let mut dynamic = 0usize;
            for row in rr.rows::<Row>().map_err(|e| e.to_string())?.take(ROW_CAP) {
                if row.is_ok() {
                    dynamic += 1;
                }
            }
            let mut typed = Vec::new();
            for row in rr.rows::<ExtraTyped>().map_err(|e| e.to_string())?.take(ROW_CAP) {
                if let Ok(t) = row {
                    typed.push(t);
                }
            }
            Ok((dynamic, typed))
        })();
        if clean {
            match decoded {
                Ok((3, t)) if t == extra_expected() => out.count("extra_types_equal", 1),
                other => out.violation("c08.roundtrip", format!("extra native types decoded as {other:?}")),
            }
        }
    }
    // S4c: a vector<float, 5> column through the element iterator: nth(n) on row n, then
    // the rest (the fixed-size fast path skips bytes without decoding).
    if let Some(r) = step(&mut out, "vector", session.query_unpaged(format!("{VEC_Q}1"), ())).await {
        let decoded: Result<Vec<(Option<f32>, usize)>, String> = (|| {
            let qr = r.map_err(|e| e.to_string())?;
            let rr = qr.into_rows_result().map_err(|e| e.to_string())?;
            let mut v = Vec::new();
            for (n, row) in rr
                .rows::<(scylla::deserialize::value::VectorIterator<f32>,)>()
                .map_err(|e| e.to_string())?
                .enumerate()
            {
                // Every row is read whatever happened to the ones before it (an element
                // that cannot be read is an error value, not the end of the exercise).
                let Ok((mut it,)) = row else {
                    v.push((None, usize::MAX));
                    continue;
                };
                let x = match it.nth((n + 3) % 6) {
                    Some(Ok(x)) => Some(x),
                    Some(Err(_)) => Some(f32::NAN),
                    None => None,
                };
                let mut rest = 0usize;
                for y in it.by_ref() {
                    if y.is_ok() {
                        rest += 1;
                    }
                    if rest > ROW_CAP {
                        break;
                    }
                }
                v.push((x, rest));
                if v.len() > ROW_CAP {
                    break;
                }
            }
            Ok(v)
        })();
        if clean {
            // Row r is read with nth((r + 3) % 6): rows 0, 1 skip 3 and 4 elements, rows 2, 3
            // ask for more than there is (None) resp. take the first.
            let want: Vec<(Option<f32>, usize)> = (0..4usize)
                .map(|r| {
                    let n = (r + 3) % 6;
                    if n < 5 { (Some((r * 10 + n + 1) as f32), 5 - n - 1) } else { (None, 0) }
                })
                .collect();
            match decoded {
                Ok(v) if v == want => out.count("vector_nth_equal", 1),
                other => out.violation("c08.roundtrip", format!("vector column through nth(): got {other:?}, expected {want:?}")),
            }
        }
    }
    // S4d: a vector<text, 3> column (variable-length elements) read as Vec<String>.
    if let Some(r) = step(&mut out, "vector_of_text", session.query_unpaged(format!("{VTEXT_Q}1"), ())).await {
        let decoded: Result<Vec<Result<Vec<String>, String>>, String> = (|| {
            let qr = r.map_err(|e| e.to_string())?;
            let rr = qr.into_rows_result().map_err(|e| e.to_string())?;
            let mut v = Vec::new();
            for row in rr.rows::<(Vec<String>,)>().map_err(|e| e.to_string())? {
                v.push(row.map(|(x,)| x).map_err(|e| e.to_string().chars().take(160).collect::<String>()));
                if v.len() > ROW_CAP {
                    break;
                }
            }
            Ok(v)
        })();
        if clean {
            let want: Vec<Result<Vec<String>, String>> = VTEXT_ROWS.iter().map(|r| Ok(r.iter().map(|e| e.to_string()).collect())).collect();
            match decoded {
                Ok(v) if v == want => out.count("vector_of_text_equal", 1),
                other => out.violation("c08.roundtrip", format!("vector<text, 3> column: got {other:?}, expected {want:?}")),
            }
        }
    }
    // S5: paged iteration of the wide rows (page size 1).
    {
        let mut st = Statement::new(format!("{WIDE_Q}2"));
        st.set_page_size(1);
        let fut = async {
            let pager = session.query_iter(st, ()).await.map_err(|e| e.to_string())?;
            let mut stream = pager.rows_stream::<Row>().map_err(|e| e.to_string())?;
            let mut rows = Vec::new();
            while let Some(r) = stream.next().await {
                rows.push(r.map_err(|e| e.to_string())?.columns);
                if rows.len() > ROW_CAP {
                    // A damaged count can announce up to 2^31 rows; with a damaged column
                    // count of 0 they are all "present" (zero bytes each) and the driver
                    // yields them lazily without allocating. The harness must not collect
                    // them (that allocation would be its own): it stops reading here.
                    AMPLIFIED.fetch_add(1, std::sync::atomic::Ordering::Relaxed);
                    break;
                }
            }
            Ok::<_, String>(rows)
        };
        if let Some(r) = step(&mut out, "wide_iter", fut).await {
            if clean {
                match r {
                    Ok(v) if v == expected => out.count("wide_iter_equal", 1),
                    Ok(v) => out.violation("c08.roundtrip", format!("paged wide rows differ: {} rows", v.len())),
                    Err(e) => out.violation("c08.roundtrip", format!("clean paged wide rows failed: {e}")),
                }
            }
        }
    }
    // S6: every error kind.
    for i in 0..N_ERRORS {
        if let Some(r) = step(&mut out, "error", session.query_unpaged(format!("{ERR_Q}{i}"), ())).await {
            if clean {
                match r {
                    Err(e) => match db_error(&e) {
                        Some(d) if check_error(i, d, plan.rate_limit_ext) => out.count("errors_equal", 1),
                        other => out.violation(
                            "c08.roundtrip",
                            format!("scripted error {i} decoded as {other:?} ({e})"),
                        ),
                    },
                    Ok(_) => out.violation("c08.roundtrip", format!("scripted error {i} decoded as success")),
                }
            }
        }
    }
    // S10: a prepared statement with a compound partition key (token computed from the
    // partition-key indexes the node announced).
    if let Some(Ok(p)) = step(&mut out, "prepare_ck", session.prepare(CK_Q)).await {
        for k in 0..2i64 {
            m += 1;
            if clean {
                // The PREPARED answer said which bind marker is which partition-key
                // component: the token the client computes is the token of (c, a, b).
                let want = crate::model::murmur3_token(&crate::model::partition_key_bytes(&[
                    (k + 2).to_be_bytes().to_vec(),
                    k.to_be_bytes().to_vec(),
                    (k + 1).to_be_bytes().to_vec(),
                ]));
                match p.calculate_token(&(k, k + 1, k + 2, m as i64)) {
                    Ok(Some(t)) if t.value() == want => out.count("compound_key_token_equal", 1),
                    other => out.violation("c08.roundtrip", format!("compound partition key (c, a, b) bound as (a, b, c) = ({k}, {}, {}): token {other:?}, expected {want}", k + 1, k + 2)),
                }
            }
            let r = step(&mut out, "execute_ck", session.execute_unpaged(&p, (k, k + 1, k + 2, m as i64))).await;
            if clean {
                match r {
                    Some(Ok(qr)) => {
                        if let Err(e) = client::check_marker_rows(qr, m) {
                            out.violation("c08.roundtrip", e);
                        }
                    }
                    Some(Err(e)) => out.violation("c08.roundtrip", format!("clean compound-key execute failed: {e}")),
                    None => {}
                }
            }
        }
    }
    // S11: tablets payload on a prepared statement of a tablet table.
    if let Some(Ok(p)) = step(&mut out, "prepare_tablets", session.prepare(TQ_SELECT)).await {
        for k in 0..3i64 {
            m += 1;
            // The last one is traced: tracing id, warning and custom payload in one frame.
            let mut p = p.clone();
            p.set_tracing(k == 2);
            let r = step(&mut out, "execute_tablets", session.execute_unpaged(&p, (k, m as i64))).await;
            if clean {
                match r {
                    Some(Err(e)) => out.violation("c08.roundtrip", format!("clean tablet execute failed: {e}")),
                    Some(Ok(qr)) if k == 2 => {
                        let w: Vec<String> = qr.warnings().map(|s| s.to_string()).collect();
                        if qr.tracing_id().is_none() || (plan.tablets_ext && w != vec!["tablet warning".to_string()]) {
                            out.violation("c08.roundtrip", format!("traced tablet execute: warnings {w:?}, tracing id {:?}", qr.tracing_id()));
                        } else {
                            out.count("all_extensions_equal", 1);
                        }
                    }
                    _ => {}
                }
            }
        }
    }
    if out.abandoned {
        return finish(out, &plan);
    }
    // S7: USE.
    {
        let r = step(&mut out, "use", session.use_keyspace("ks1", false)).await;
        if clean {
            if let Some(Err(e)) = r {
                out.violation("c08.roundtrip", format!("clean USE failed: {e}"));
            }
        }
    }
    if out.abandoned {
        return finish(out, &plan);
    }
    // S8: schema change result.
    {
        let r = step(&mut out, "ddl", session.query_unpaged(format!("{DDL_Q}1"), ())).await;
        if clean {
            if let Some(Err(e)) = r {
                out.violation("c08.roundtrip", format!("clean DDL failed: {e}"));
            }
        }
    }
    if out.abandoned {
        return finish(out, &plan);
    }
    // S9: events on the control connection, then a refresh.
    {
        let mut w = world::world();
        let ip = crate::cluster::node_ip(1);
        w.broadcast_event("STATUS_CHANGE", wire::body_event_status("DOWN", ip, 9042));
        w.broadcast_event("STATUS_CHANGE", wire::body_event_status("UP", ip, 9042));
        w.broadcast_event("TOPOLOGY_CHANGE", wire::body_event_topology("NEW_NODE", ip, 9042));
        w.broadcast_event("SCHEMA_CHANGE", wire::body_event_schema("CREATED", "KEYSPACE", "ksx", None));
        w.broadcast_event("SCHEMA_CHANGE", wire::body_event_schema("UPDATED", "TABLE", "ks1", Some("t1")));
        w.broadcast_event("SCHEMA_CHANGE", wire::body_event_schema("DROPPED", "TYPE", "ks1", Some("udt1")));
    }
    world::sleep_ns(2 * SEC).await;
    {
        let r = step(&mut out, "refresh", session.refresh_metadata()).await;
        if clean {
            if let Some(Err(e)) = r {
                out.violation("c08.roundtrip", format!("clean refresh failed: {e}"));
            }
        }
    }
    if out.abandoned {
        return finish(out, &plan);
    }
    // S12: after the damaged exchange the session serves a fresh request.
    let t0 = world::now_ns();
    let mut served = false;
    while world::now_ns() - t0 < 90 * SEC {
        m += 1;
        match step(&mut out, "fresh", session.query_unpaged(client::q_marker(m), ())).await {
            Some(Ok(qr)) => {
                // The frame carrying this very answer may be the damaged one.
                if client::check_marker_rows(qr, m).is_ok() {
                    served = true;
                    break;
                }
            }
            Some(Err(_)) => {}
            None => break,
        }
        world::sleep_ns(2 * SEC).await;
    }
    if !served && out.violations.is_empty() {
        let fired = world::world().mutation_fired.clone();
        out.violation(
            "c08.no_recovery",
            format!("no fresh request was served within 90 virtual s after {fired:?}"),
        );
    }
    finish(out, &plan)
}

async fn build_with_auth(cfg: &SessionCfg) -> Result<Session, scylla::errors::NewSessionError> {
    // Same as client::build_session plus credentials.
    let b = scylla::client::session_builder::SessionBuilder::new()
        .known_node_addr(client::contact_point(0))
        .user("cassandra", "cassandra")
        .pool_size(cfg.pool.clone())
        .connection_timeout(cfg.connect_timeout)
        .fetch_schema_metadata(true)
        .fetch_full_schema_metadata(false)
        .compression(cfg.compression)
        .keepalive_interval(cfg.keepalive_interval.unwrap())
        .keepalive_timeout(cfg.keepalive_timeout.unwrap())
        .default_execution_profile_handle(
            scylla::client::execution_profile::ExecutionProfile::builder()
                .request_timeout(cfg.request_timeout)
                .retry_policy(Arc::new(FallthroughRetryPolicy))
                .build()
                .into_handle(),
        );
    b.build().await
}

fn finish(mut out: Outcome, plan: &Plan) -> Outcome {
    let (fired, frames_out) = {
        let w = world::world();
        (w.mutation_fired.clone(), w.frames_out)
    };
    out.nontrivial = fired.is_some() || plan.deep_nesting.is_some() || plan.custom_types.is_some();
    out.count("row_count_amplification_capped", AMPLIFIED.load(std::sync::atomic::Ordering::Relaxed));
    if plan.custom_types.is_some() {
        out.count("custom_type_fuzz_runs", 1);
    }
    out.count("frames_out", frames_out);
    if fired.is_some() {
        out.count(if plan.enumerated { "enum_truncations_fired" } else { "sampled_mutations_fired" }, 1);
    }
    if plan.mutation.is_none() && plan.deep_nesting.is_none() && plan.custom_types.is_none() && plan.vec_cell_len.is_none() && plan.nometa_bomb.is_none() && plan.cell_cut.is_none() {
        out.count("clean_runs", 1);
    }
    // Annotate violations with the damage so that the message pins the input.
    if let Some(f) = &fired {
        for v in out.violations.iter_mut() {
            if !v.1.contains("frame#") {
                v.1 = format!("{} [{}]", v.1, f);
            }
        }
    }
    if DRY.load(std::sync::atomic::Ordering::SeqCst) {
        let lens = world::world().frame_lens.clone();
        out.sample = json!({ "frame_lens": lens });
        return out;
    }
    out.sample = json!({
        "enumerated": plan.enumerated,
        "target_frame": plan.target_frame,
        "mutation": plan.mutation.as_ref().map(|m| m.describe()),
        "deep_nesting": plan.deep_nesting,
        "custom_types": plan.custom_types.as_ref().map(|v| v.iter().map(|t| t.chars().take(80).collect::<String>()).collect::<Vec<_>>()),
        "fired": fired,
        "compression": format!("{:?}", plan.compression),
        "auth": plan.auth, "metadata_id_ext": plan.metadata_id_ext, "tablets_ext": plan.tablets_ext,
        "frames_out": frames_out,
    });
    out
}

/// Grammar-based generator of (mostly slightly broken) Cassandra custom type
/// class-name strings, as found in result metadata for type id 0x0000.
fn fuzz_custom_type() -> String {
    const P: &str = "org.apache.cassandra.db.marshal.";
    fn simple() -> String {
        const NAMES: [&str; 10] = [
            "Int32Type", "UTF8Type", "LongType", "BytesType", "UUIDType", "BooleanType", "DurationType",
            "NoSuchType", "", "TimestampType",
        ];
        let n = NAMES[tape::choose("c08:ct_simple", NAMES.len() as u64) as usize];
        if tape::chance("c08:ct_prefix", 1, 2) { format!("{P}{n}") } else { n.to_string() }
    }
    fn hex(s: &str) -> String {
        s.bytes().map(|b| format!("{b:02x}")).collect()
    }
    fn gen_type(depth: u32) -> String {
        let pre = if tape::chance("c08:ct_prefix2", 1, 2) { P } else { "" };
        if depth == 0 {
            return simple();
        }
        match tape::choose("c08:ct_kind", 9) {
            0 => simple(),
            1 => format!("{pre}ListType({})", gen_type(depth - 1)),
            2 => format!("{pre}SetType({})", gen_type(depth - 1)),
            3 => format!("{pre}MapType({},{})", gen_type(depth - 1), gen_type(depth - 1)),
            4 => format!("{pre}TupleType({},{})", gen_type(depth - 1), gen_type(depth - 1)),
            5 => format!("{pre}FrozenType({})", gen_type(depth - 1)),
            6 => format!("{pre}ReversedType({})", gen_type(depth - 1)),
            7 => {
                const DIMS: [&str; 12] = ["0", "1", "2", "3", "4", "255", "65535", "65536", "4294967295", "4294967296", "18446744073709551616", "-1"];
                format!("{pre}VectorType({}, {})", gen_type(depth - 1), DIMS[tape::choose("c08:ct_dim", DIMS.len() as u64) as usize])
            }
            _ => {
                let names = ["udt", "a", "ab", "na\u{e9}", "\u{4e16}\u{754c}", "x_y"];
                // A token in a hex position: the hex encoding of a name, or (1 in 2) raw
                // identifier characters that are not (all) hex digits - non-ASCII letters and
                // digits at even and odd byte offsets, signs, odd lengths.
                fn token(names: &[&str]) -> String {
                    if tape::chance("c08:ct_raw_token", 1, 2) {
                        const RAW: [&str; 14] = ["a", "f", "0", "9", "61", "\u{e9}", "\u{4e16}", "\u{df}", "\u{663}", "+", "-", "g", "Z", "_"];
                        (0..tape::range("c08:ct_raw_len", 1, 6)).map(|_| RAW[tape::choose("c08:ct_raw_char", RAW.len() as u64) as usize]).collect()
                    } else {
                        hex(names[tape::choose("c08:ct_udt_name", names.len() as u64) as usize])
                    }
                }
                let n = token(&names);
                let f = token(&names);
                format!("{pre}UserType(ks1,{n},{f}:{})", gen_type(depth - 1))
            }
        }
    }
    let mut s = match tape::choose("c08:ct_shape", 8) {
        // Deep nesting of the textual form (the string is limited to 65535 bytes).
        0 => {
            let d = [50usize, 500, 3000, 7000, 100, 200][tape::choose("c08:ct_deep", 6) as usize];
            // One wrapper for the whole chain, or a seeded mix of them.
            const WRAP: [(&str, &str); 7] = [
                ("ListType(", ")"),
                ("FrozenType(", ")"),
                ("ReversedType(", ")"),
                ("SetType(", ")"),
                ("MapType(Int32Type,", ")"),
                ("TupleType(", ")"),
                ("VectorType(", ", 2)"),
            ];
            let which = tape::choose("c08:ct_deep_wrapper", WRAP.len() as u64 + 1) as usize;
            let mut opens = String::new();
            let mut closes: Vec<&str> = Vec::new();
            for k in 0..d {
                let (o, c) = if which < WRAP.len() { WRAP[which] } else { WRAP[(k * 7 + d) % WRAP.len()] };
                if opens.len() + o.len() + c.len() * (closes.len() + 1) > 60_000 {
                    break;
                }
                opens.push_str(o);
                closes.push(c);
            }
            let mut t = opens;
            t.push_str("Int32Type");
            for c in closes.iter().rev() {
                t.push_str(c);
            }
            t
        }
        // A tower of vectors of fixed-size elements: the byte size of one element of the
        // outer vector is the product of all inner dimensions.
        1 => {
            let base = ["UUIDType", "LongType", "Int32Type", "BooleanType", "TimestampType"][tape::choose("c08:ct_vbase", 5) as usize];
            let mut t = format!("{P}{base}");
            for _ in 0..tape::range("c08:ct_vtower", 2, 9) {
                // 0: a vector without elements - as the element of an outer vector its size is 0.
                let dim = ["65535", "65535", "65535", "65535", "255", "2", "4096", "0", "1"][tape::choose("c08:ct_vdim", 9) as usize];
                t = format!("{P}VectorType({t}, {dim})");
            }
            t
        }
        _ => gen_type(tape::range("c08:ct_depth", 0, 4) as u32),
    };
    // Character-level damage.
    let alphabet: Vec<char> = "\u{e9}\u{4e16}\u{df}(),: 09afAZ-_.&+'\"\u{0}".chars().collect();
    for _ in 0..tape::choose("c08:ct_damage", 5) {
        let chars: Vec<char> = s.chars().collect();
        if chars.is_empty() {
            break;
        }
        let i = tape::choose("c08:ct_pos", chars.len().min(4000) as u64) as usize;
        let c = alphabet[tape::choose("c08:ct_char", alphabet.len() as u64) as usize];
        let mut v = chars;
        match tape::choose("c08:ct_op", 4) {
            0 => v[i] = c,
            1 => v.insert(i, c),
            2 => {
                v.remove(i);
            }
            _ => v.truncate(i),
        }
        s = v.into_iter().collect();
    }
    if s.len() > 65000 {
        s.truncate(65000);
        while !s.is_char_boundary(s.len()) {
            s.pop();
        }
    }
    s
}
