//! C10 - when a connection dies every request in flight on it fails promptly;
//! none hangs; the session keeps working.

use crate::client::{self, SessionCfg};
use crate::cluster::{Cluster, Reply, ReqInfo, Script, Strategy};
use crate::harness::{Outcome, SimSetup, run_sim};
use crate::runner::RunRequest;
use crate::tape;
use crate::wire::{self, Envelope, Request};
use crate::world::{self, ConnId, Cut, CutKind, Fault, MS, NetCfg, SEC, World};
use scylla::client::PoolSize;
use scylla::policies::retry::{DefaultRetryPolicy, FallthroughRetryPolicy};
use scylla::statement::Statement;
use serde_json::{Value, json};
use std::any::Any;
use std::collections::BTreeMap;
use std::num::NonZeroUsize;
use std::sync::Arc;
use std::time::Duration;

const F_HOLD: u64 = 1; // first attempt is held by the server (so it is in flight at fault time)
const F_NONIDEM: u64 = 2; // not idempotent
const F_PAGED: u64 = 4; // read through the paging iterator: 4 rows, page size 1, slow consumer

#[derive(Default)]
struct C10Script {
    hold_ns: u64,
    /// marker -> (frames seen, conns they arrived on)
    attempts: BTreeMap<u64, Vec<ConnId>>,
    /// Faults armed for the NEXT connection a node accepts (the replacement of a killed
    /// one): (node, kind, offset into the response stream, i.e. inside the handshake).
    handshake_faults: Vec<(usize, CutKind, usize)>,
}

impl Script for C10Script {
    fn on_connect(&mut self, w: &mut World, conn: ConnId) {
        let node = w.conns[conn].node;
        if let Some(i) = self.handshake_faults.iter().position(|(n, _, _)| *n == node) {
            let (_, kind, offset) = self.handshake_faults.remove(i);
            w.probe("handshake_fault");
            w.log(&format!("handshake_fault conn={conn} kind={kind:?} offset={offset}"));
            if offset == 0 && kind == CutKind::Stall {
                w.stall_conn(conn);
            } else {
                w.conns[conn].cut = Some(Cut { at: offset, kind, before_frame: None, inject: vec![] });
            }
        }
    }
    fn rows_for(&mut self, _w: &mut World, rq: &ReqInfo, stmt: &crate::cluster::StmtDef) -> Vec<Vec<crate::wire::Cell>> {
        let rows = crate::cluster::default_rows(stmt, rq.marker);
        if rq.marker.map(|m| m & F_PAGED != 0).unwrap_or(false) {
            return vec![rows[0].clone(); 4];
        }
        rows
    }
    fn on_user_request(&mut self, _w: &mut World, rq: &ReqInfo, req: &Request) -> Reply {
        if matches!(req, Request::Prepare { .. }) {
            return Reply::Default;
        }
        let Some(m) = rq.marker else {
            return Reply::Default;
        };
        let e = self.attempts.entry(m).or_default();
        e.push(rq.conn);
        if m & F_HOLD != 0 && e.len() == 1 {
            return Reply::DefaultAfter(self.hold_ns);
        }
        Reply::Default
    }
    fn as_any(&mut self) -> &mut dyn Any {
        self
    }
}

/// A retry policy that sticks to the node: a broken connection is answered with
/// RetrySameTarget, anything else is not retried. The retries are not bounded in any way
/// that matters (100000): until the pool has noticed that a connection is dead, same-node
/// retries are handed that very connection again and fail at once - dozens of times within
/// one poll of the request's task - and only Tokio's cooperative budget makes the task
/// yield so that the pool gets to remove it. (A first version with a bound of 50 failed on
/// the unchanged tree in a quarter of the runs: how often a policy must insist is not part
/// of the property.)
#[derive(Debug)]
struct StickyRetry;
struct StickySession(u32);

impl scylla::policies::retry::RetryPolicy for StickyRetry {
    fn new_session(&self) -> Box<dyn scylla::policies::retry::RetrySession> {
        Box::new(StickySession(0))
    }
}

impl scylla::policies::retry::RetrySession for StickySession {
    fn decide_should_retry(&mut self, info: scylla::policies::retry::RequestInfo) -> scylla::policies::retry::RetryDecision {
        use scylla::errors::RequestAttemptError;
        if matches!(info.error, RequestAttemptError::BrokenConnectionError(_)) && info.is_idempotent && self.0 < 100_000 {
            self.0 += 1;
            return scylla::policies::retry::RetryDecision::RetrySameTarget(None);
        }
        scylla::policies::retry::RetryDecision::DontRetry
    }
    fn reset(&mut self) {
        self.0 = 0;
    }
}

#[derive(Clone, Copy, Debug, PartialEq, Eq)]
enum Kind {
    Fin,
    Rst,
    Garbage,
    BadVersion,
    Unsolicited,
    Stall,
    /// The victim's whole node becomes unreachable without a word: its connections go
    /// silent and new connection attempts hang; it heals when faults stop.
    Partition,
    /// The next response on the victim arrives with its opcode byte replaced by a value
    /// that is no response opcode (version, stream and length intact): the request it
    /// answers has no answer any more; the node itself notices nothing.
    BadOpcode,
}

const KINDS: [Kind; 8] = [
    Kind::Fin,
    Kind::Rst,
    Kind::Garbage,
    Kind::BadVersion,
    Kind::Unsolicited,
    Kind::Stall,
    Kind::Partition,
    Kind::BadOpcode,
];

#[derive(Clone, Debug)]
struct Plan {
    nodes: usize,
    shards: u32,
    pool: usize,
    ka_interval: u64,
    ka_timeout: u64,
    /// Keep-alives are switched off (1 in 4 sampled runs): only faults the client can
    /// see without them are injected (FIN, RST, bad version, unsolicited stream id), and
    /// ka_interval / ka_timeout are 0 in the bounds.
    ka_off: bool,
    request_timeout: Option<u64>,
    default_retry: bool,
    in_flight: usize,
    hold: u64,
    rounds: usize,
    /// Enumerated crash point (offset, kind) for the scripted exchange, if any.
    enumerated: Option<(usize, Kind)>,
}

/// Length of the response stream of the scripted exchange (4 held marker
/// SELECTs answered back to back): used as the enumeration range.
const SCRIPTED_RESPONSES: usize = 4;
const SCRIPTED_STREAM_LEN: usize = 200;

pub fn run(req: &RunRequest) -> Value {
    let run_index = req.run_index;
    run_sim(req, move || {
        // Every second run enumerates the (offset, kind) grid deterministically
        // from the run index; the others sample everything from the tape.
        let enumerated = if run_index % 2 == 0 {
            let i = (run_index / 2) as usize;
            let offset = i % (SCRIPTED_STREAM_LEN + 1);
            let kind = [Kind::Fin, Kind::Rst, Kind::Garbage, Kind::Stall]
                [(i / (SCRIPTED_STREAM_LEN + 1)) % 4];
            Some((offset, kind))
        } else {
            None
        };
        let scripted = enumerated.is_some();
        let plan = Plan {
            nodes: if scripted { 1 } else { tape::range("c10:nodes", 1, 3) as usize },
            shards: if scripted { 0 } else { [0, 0, 2, 3][tape::choose("c10:shards", 4) as usize] },
            pool: if scripted { 1 } else { tape::range("c10:pool", 1, 3) as usize },
            ka_interval: [2, 5, 10][tape::choose("c10:ka_interval", 3) as usize] * SEC,
            ka_timeout: [1, 3][tape::choose("c10:ka_timeout", 2) as usize] * SEC,
            request_timeout: if tape::chance("c10:req_timeout", 1, 2) {
                Some(30 * SEC)
            } else {
                None
            },
            default_retry: tape::chance("c10:default_retry", 1, 2),
            in_flight: if scripted {
                SCRIPTED_RESPONSES
            } else {
                tape::range("c10:in_flight", 1, 32) as usize
            },
            hold: [20 * MS, 200 * MS, 2 * SEC][tape::choose("c10:hold", 3) as usize],
            rounds: if scripted { 1 } else { tape::range("c10:rounds", 1, 3) as usize },
            enumerated,
            ka_off: false,
        };
        let mut plan = plan;
        if !scripted && tape::chance("c10:ka_off", 1, 4) {
            plan.ka_off = true;
            plan.ka_interval = 0;
            plan.ka_timeout = 0;
        }
        let plan = plan;
        let mut cluster = Cluster::new("c10");
        for i in 0..plan.nodes {
            cluster.add_node("dc1", "r1", plan.shards, vec![(i as i64) * 1000 - 1000]);
        }
        client::standard_catalog(&mut cluster, Strategy::Simple(plan.nodes.min(2)), false);
        cluster.think_min = 0;
        cluster.think_max = 2 * MS;
        let net = NetCfg {
            chaos_yield_permille: [0, 50][tape::choose("c10:chaos", 2) as usize],
            chunk_permille: [0, 200, 800][tape::choose("c10:chunk", 3) as usize],
            ..NetCfg::default()
        };
        let setup = SimSetup {
            cluster,
            net,
            virt_cap: Duration::from_secs(3 * 3600),
            world_oracles: vec!["c02.stream_id_reuse"],
            panic_is_violation: true,
            rlimit_as: None,
            alloc_limit: None,
        };
        (setup, move || main(plan))
    })
}

fn unsolicited_frame(w: &World, conn: ConnId) -> Vec<u8> {
    // A well-formed RESULT/Void on a stream nobody is waiting on.
    let mut s: i16 = 30000;
    while w.conns[conn].cql.outstanding.contains(&s) {
        s -= 1;
    }
    wire::encode_response(s, wire::OP_RESULT, &wire::body_void(), &Envelope::default(), w.conns[conn].cql.compression)
}

/// Arms or applies one fault on `conn`. Returns whether a silent stall (needing
/// keepalive detection) is involved.
fn inject(w: &mut World, conn: ConnId, kind: Kind, offset: usize, doomed: &mut Vec<u64>) -> bool {
    let base = w.conns[conn].s2c_sent;
    // Requests outstanding on the victim when the connection is killed or
    // poisoned *now* can never be answered on it.
    let immediate = matches!(kind, Kind::BadVersion | Kind::Unsolicited | Kind::Partition)
        || (offset == 0 && matches!(kind, Kind::Fin | Kind::Rst | Kind::Stall));
    if immediate {
        doomed.extend(w.conns[conn].cql.outstanding_markers.values().copied());
    }
    w.log(&format!("inject conn={conn} kind={kind:?} offset=+{offset}"));
    match kind {
        Kind::Fin | Kind::Rst => {
            if offset == 0 {
                w.fault(if kind == Kind::Fin { Fault::Fin } else { Fault::Rst });
                w.srv_close_now(conn, kind == Kind::Rst);
            } else {
                w.conns[conn].cut = Some(Cut {
                    at: base + offset,
                    kind: if kind == Kind::Fin { CutKind::Fin } else { CutKind::Rst },
                    before_frame: None,
                    inject: vec![],
                });
            }
            false
        }
        Kind::Garbage => {
            // A garbage header in place of a response frame (at a frame
            // boundary); afterwards the connection stays open but silent.
            // Variants: random bytes that are not a v4 response header; valid
            // version but unknown opcode; a well-formed header of an
            // outstanding request announcing a body that never comes.
            let variant = tape::choose("c10:garbage_variant", 3);
            let n = tape::range("c10:garbage_len", 9, 40) as usize;
            let mut g: Vec<u8> = (0..n).map(|_| tape::choose("c10:garbage_byte", 256) as u8).collect();
            match variant {
                0 => {
                    if g[0] == 0x84 {
                        g[0] = 0x04;
                    }
                }
                1 => {
                    g[0] = 0x84;
                    g[4] = 0x7f;
                }
                _ => {
                    g[0] = 0x84;
                    g[1] = 0;
                    let s = w.conns[conn].cql.outstanding.iter().next().copied().unwrap_or(0);
                    g[2..4].copy_from_slice(&s.to_be_bytes());
                    g[4] = wire::OP_RESULT;
                    let len = 1000 + tape::choose("c10:garbage_body_len", 60000) as u32;
                    g[5..9].copy_from_slice(&len.to_be_bytes());
                }
            }
            w.conns[conn].cut = Some(Cut {
                at: usize::MAX,
                before_frame: Some((offset % 5) as u32),
                kind: CutKind::Stall,
                inject: g,
            });
            true
        }
        Kind::BadVersion => {
            let mut f = unsolicited_frame(w, conn);
            f[0] = [0x85, 0x04, 0x83, 0xff][tape::choose("c10:bad_version", 4) as usize];
            w.fault(Fault::Garbage);
            w.srv_send_now(conn, f, None);
            false
        }
        Kind::Unsolicited => {
            let f = unsolicited_frame(w, conn);
            w.fault(Fault::Garbage);
            w.srv_send_now(conn, f, None);
            false
        }
        Kind::BadOpcode => {
            w.conns[conn].corrupt_next_opcode = Some([0x7f, 0x04, 0x11, 0x07][tape::choose("c10:bad_opcode", 4) as usize]);
            w.probe("response_opcode_corruption_armed");
            false
        }
        Kind::Partition => {
            let node = w.conns[conn].node;
            w.cluster.nodes[node].partitioned = true;
            w.probe("partition");
            for c in w.live_conns_of(node) {
                if c != conn {
                    let ms: Vec<u64> = w.conns[c].cql.outstanding_markers.values().copied().collect();
                    doomed.extend(ms);
                }
                w.stall_conn(c);
            }
            true
        }
        Kind::Stall => {
            if offset == 0 {
                w.stall_conn(conn);
            } else {
                w.conns[conn].cut = Some(Cut {
                    at: base + offset,
                    kind: CutKind::Stall,
                    before_frame: None,
                    inject: vec![],
                });
            }
            true
        }
    }
}

async fn main(plan: Plan) -> Outcome {
    let mut out = Outcome::default();
    {
        let mut w = world::world();
        w.script = Some(Box::new(C10Script {
            hold_ns: plan.hold,
            ..Default::default()
        }));
    }
    let cfg = SessionCfg {
        contact_nodes: vec![0],
        pool: PoolSize::PerHost(NonZeroUsize::new(plan.pool).unwrap()),
        coalescing: tape::choose("c10:coalescing", 3),
        keepalive_interval: if plan.ka_off { None } else { Some(Duration::from_nanos(plan.ka_interval)) },
        keepalive_timeout: if plan.ka_off { None } else { Some(Duration::from_nanos(plan.ka_timeout)) },
        request_timeout: plan.request_timeout.map(Duration::from_nanos),
        retry: Some(if plan.default_retry {
            Arc::new(DefaultRetryPolicy::new())
        } else {
            Arc::new(FallthroughRetryPolicy)
        }),
        compression: client::draw_compression(),
        ..SessionCfg::default()
    };
    let session = match client::build_session(&cfg).await {
        Ok(s) => Arc::new(s),
        Err(e) => {
            out.inconclusive = Some(format!("session: {e}"));
            return out;
        }
    };
    // Let pools fill.
    world::sleep_ns(300 * MS).await;

    // Background traffic (sampled runs): the application keeps sending while
    // connections die, so a dead connection is never idle from the client's
    // point of view. Every such request must still return.
    let bg_stop = Arc::new(std::sync::atomic::AtomicBool::new(false));
    let bg_hung: Arc<std::sync::Mutex<Vec<u64>>> = Arc::new(std::sync::Mutex::new(Vec::new()));
    let bg_task = if plan.enumerated.is_none() && tape::chance("c10:background", 1, 2) {
        let session = session.clone();
        let stop = bg_stop.clone();
        let hung = bg_hung.clone();
        let gap = tape::range("c10:bg_gap", 100, 900) * MS;
        let bound = plan.ka_interval + plan.ka_timeout + plan.hold + 30 * SEC;
        Some(tokio::spawn(async move {
            let mut k = 0u64;
            while !stop.load(std::sync::atomic::Ordering::SeqCst) && k < 2000 {
                k += 1;
                let m = (1_000_000 + k) * 16;
                let mut st = Statement::new(client::q_marker(m));
                st.set_is_idempotent(true);
                let session = session.clone();
                let hung = hung.clone();
                // Each request runs on its own so that a stuck one does not stop the traffic.
                tokio::spawn(async move {
                    if tokio::time::timeout(Duration::from_nanos(bound), session.query_unpaged(st, ())).await.is_err() {
                        hung.lock().unwrap().push(m);
                    }
                });
                world::sleep_ns(gap).await;
            }
        }))
    } else {
        None
    };

    let detection = plan.ka_interval + plan.ka_timeout;
    let mut idx = 0u64;
    // Callers that go away (1 in 3 sampled runs, before any fault): six requests held by
    // their nodes are abandoned by their callers a quarter of the hold time in; twelve fresh
    // requests follow at once on the same pools. A response for a stream nobody waits on is
    // one of the property's cases: nobody is handed another request's answer, nobody hangs,
    // and (mock's monitor) no stream id is carried by two unanswered requests.
    if plan.enumerated.is_none() && tape::chance("c10:abandon_phase", 1, 3) {
        let mut abandoned = Vec::new();
        for _ in 0..6 {
            idx += 1;
            let m = idx * 16 + F_HOLD;
            let session = session.clone();
            let give_up = plan.hold / 4;
            abandoned.push(tokio::spawn(async move {
                let mut st = Statement::new(client::q_marker(m));
                st.set_is_idempotent(true);
                let _ = tokio::time::timeout(Duration::from_nanos(give_up.max(1)), session.query_unpaged(st, ())).await;
            }));
        }
        for h in abandoned {
            let _ = h.await;
        }
        world::world().fault(Fault::Cancel);
        world::world().probe("callers_abandoned_held_requests");
        let mut fresh = Vec::new();
        for _ in 0..12 {
            idx += 1;
            let m = idx * 16;
            let session = session.clone();
            fresh.push(tokio::spawn(async move {
                let mut st = Statement::new(client::q_marker(m));
                st.set_is_idempotent(true);
                (m, tokio::time::timeout(Duration::from_secs(60), session.query_unpaged(st, ())).await)
            }));
        }
        for h in fresh {
            match h.await {
                Ok((m, Ok(Ok(qr)))) => {
                    if let Err(e) = client::check_marker_rows(qr, m) {
                        out.violation("c10.attribution", e);
                    }
                }
                Ok((m, Ok(Err(e)))) => out.violation(
                    "c10.failed_without_fault",
                    format!("request marker {m}, submitted right after other callers abandoned theirs, failed although no fault was injected: {}", client::short_err(&e)),
                ),
                Ok((m, Err(_))) => out.violation("c10.hang", format!("request marker {m}, submitted right after other callers abandoned theirs, did not return within 60 virtual s")),
                Err(e) => out.violation("c10.client_task", format!("{e}")),
            }
        }
        // Let the held answers arrive (for streams nobody waits on any more).
        world::sleep_ns(plan.hold + SEC).await;
    }
    let mut fired_any = false;
    let mut total_ok = 0u64;
    let mut total_err = 0u64;
    let mut injected: Vec<String> = Vec::new();
    for round in 0..plan.rounds {
        // In-flight requests of this round.
        let mut handles = Vec::new();
        for _ in 0..plan.in_flight {
            idx += 1;
            let nonidem = plan.enumerated.is_none() && tape::chance("c10:nonidem", 1, 3);
            // 1 in 5 (sampled runs): a paged read of 4 rows with page size 1 and a slow
            // consumer - page requests keep flowing while the fault strikes; the stream
            // must deliver all rows or fail, never end early without an error.
            let paged = plan.enumerated.is_none() && !nonidem && tape::chance("c10:paged", 1, 5);
            let m = idx * 16 + F_HOLD + if nonidem { F_NONIDEM } else { 0 } + if paged { F_PAGED } else { 0 };
            let session = session.clone();
            handles.push((
                m,
                tokio::spawn(async move {
                    let mut st = Statement::new(client::q_marker(m));
                    st.set_is_idempotent(!nonidem);
                    if paged {
                        use futures::StreamExt;
                        st.set_page_size(1);
                        let r: Result<Option<scylla::response::query_result::QueryResult>, String> = async {
                            let pager = session.query_iter(st, ()).await.map_err(|e| format!("{e}").chars().take(120).collect::<String>())?;
                            let mut rs = pager.rows_stream::<(i64,)>().map_err(|e| e.to_string())?;
                            let mut n = 0;
                            while let Some(row) = rs.next().await {
                                let (v,) = row.map_err(|e| format!("{e}").chars().take(120).collect::<String>())?;
                                if v != m as i64 {
                                    return Err(format!("WRONG row {v} for marker {m}"));
                                }
                                n += 1;
                                world::sleep_ns(50 * MS).await;
                            }
                            if n != 4 {
                                return Err(format!("PARTIAL the stream ended without an error after {n} of 4 rows"));
                            }
                            Ok(None)
                        }
                        .await;
                        return (r, world::now_ns());
                    }
                    let r = session.query_unpaged(st, ()).await;
                    (r.map(Some).map_err(|e| client::short_err(&e)), world::now_ns())
                }),
            ));
        }
        // Let (some of) the requests reach the servers, then strike.
        let lead = if plan.enumerated.is_some() {
            10 * MS
        } else {
            [0, 1 * MS, 3 * MS, 10 * MS][tape::choose("c10:lead", 4) as usize]
        };
        world::sleep_ns(lead).await;
        let mut doomed: Vec<u64> = Vec::new();
        let (t_fault, needs_detection) = {
            let mut w = world::world();
            // Candidate victims: live connections; prefer those with requests in flight.
            let live: Vec<ConnId> = w
                .conns
                .iter()
                .filter(|c| !c.srv_closed && !c.client_closed && c.cql.started)
                .map(|c| c.id)
                .collect();
            let busy: Vec<ConnId> = live
                .iter()
                .copied()
                .filter(|c| w.conns[*c].cql.registered.is_empty() && !w.conns[*c].cql.outstanding.is_empty())
                .collect();
            let pool = if !busy.is_empty() && (plan.enumerated.is_some() || !tape::chance("c10:victim_any", 1, 5)) {
                busy
            } else {
                live
            };
            let mut needs = false;
            if !pool.is_empty() {
                let n_victims = if plan.enumerated.is_some() { 1 } else { tape::range("c10:victims", 1, 2) as usize };
                for _ in 0..n_victims {
                    let victim = pool[tape::choose("c10:victim", pool.len() as u64) as usize];
                    let (offset, kind) = match plan.enumerated {
                        Some((o, k)) => (o, k),
                        None => (
                            tape::choose("c10:offset", 120) as usize,
                            if plan.ka_off {
                                [Kind::Fin, Kind::Rst, Kind::BadVersion, Kind::Unsolicited, Kind::BadOpcode][tape::choose("c10:kind_loud", 5) as usize]
                            } else {
                                KINDS[tape::choose("c10:kind", KINDS.len() as u64) as usize]
                            },
                        ),
                    };
                    needs |= inject(&mut w, victim, kind, offset, &mut doomed);
                    // The connection that will replace a killed one may meet a fault inside
                    // its handshake (SUPPORTED / READY cut short, reset, or never arriving).
                    if plan.enumerated.is_none() && matches!(kind, Kind::Fin | Kind::Rst) && tape::chance("c10:handshake_fault", 1, 3) {
                        let node = w.conns[victim].node;
                        let hk = if plan.ka_off {
                            [CutKind::Fin, CutKind::Rst][tape::choose("c10:handshake_kind_loud", 2) as usize]
                        } else {
                            [CutKind::Fin, CutKind::Rst, CutKind::Stall][tape::choose("c10:handshake_kind", 3) as usize]
                        };
                        let off = tape::choose("c10:handshake_offset", 160) as usize;
                        needs |= hk == CutKind::Stall;
                        let mut s = w.script.take().unwrap();
                        s.as_any().downcast_mut::<C10Script>().unwrap().handshake_faults.push((node, hk, off));
                        w.script = Some(s);
                    }
                    injected.push(format!("{kind:?}@+{offset} conn{victim}"));
                    fired_any = true;
                }
            }
            (w.now(), needs)
        };
        // (a) every in-flight call returns within the bound.
        let bound = plan.hold + if needs_detection { detection } else { 0 } + plan.ka_interval + plan.ka_timeout + 20 * SEC;
        let deadline = t_fault + bound;
        for (m, h) in handles {
            let now = world::now_ns();
            let left = deadline.saturating_sub(now).max(1);
            match tokio::time::timeout(Duration::from_nanos(left), h).await {
                Err(_) => {
                    out.violation(
                        "c10.hang",
                        format!(
                            "request marker {m} (round {round}, faults {injected:?}) had not returned {} ms after the fault (bound {} ms, keepalive {}+{} ms, request timeout {:?})",
                            (world::now_ns() - t_fault) / MS,
                            bound / MS,
                            plan.ka_interval / MS,
                            plan.ka_timeout / MS,
                            plan.request_timeout.map(|t| t / MS),
                        ),
                    );
                    return finish(out, &plan, injected, total_ok, total_err, fired_any);
                }
                Ok(Err(e)) => out.violation("c10.client_task", format!("client task failed: {e}")),
                Ok(Ok((Ok(qr), _t))) => {
                    total_ok += 1;
                    if let Some(qr) = qr {
                        if let Err(e) = client::check_marker_rows(qr, m) {
                            out.violation("c10.attribution", e);
                        }
                    } else {
                        out.count("paged_streams_completed", 1);
                    }
                    if doomed.contains(&m) && m & F_PAGED == 0 {
                        // Its only way to succeed is a re-send after the failure.
                        let mut w = world::world();
                        let mut s = w.script.take().unwrap();
                        let n = s
                            .as_any()
                            .downcast_mut::<C10Script>()
                            .unwrap()
                            .attempts
                            .get(&m)
                            .map(|v| v.len())
                            .unwrap_or(0);
                        w.script = Some(s);
                        if n < 2 {
                            out.violation(
                                "c10.survived_dead_connection",
                                format!(
                                    "request marker {m} was outstanding on a connection hit by {injected:?} and nevertheless returned Ok from a single attempt"
                                ),
                            );
                        } else {
                            out.count("doomed_retried_ok", 1);
                        }
                    }
                }
                Ok(Ok((Err(e), _t))) => {
                    if e.starts_with("PARTIAL") {
                        out.violation("c10.partial_result_without_error", format!("paged read marker {m} (faults {injected:?}): {e}"));
                    }
                    if e.starts_with("WRONG") {
                        out.violation("c10.attribution", e.clone());
                    }
                    total_err += 1;
                    if doomed.contains(&m) {
                        out.count("doomed_failed", 1);
                    }
                }
            }
        }
        // Let detection and refill happen before the next round.
        world::sleep_ns(tape::range("c10:between", 0, 15) * SEC).await;
    }

    bg_stop.store(true, std::sync::atomic::Ordering::SeqCst);
    if let Some(t) = bg_task {
        let _ = t.await;
        // Give the last background requests their full bound.
        world::sleep_ns(plan.ka_interval + plan.ka_timeout + plan.hold + 31 * SEC).await;
        let hung = bg_hung.lock().unwrap().clone();
        if let Some(m) = hung.first() {
            out.violation(
                "c10.hang",
                format!(
                    "{} background requests (first marker {m}) did not return within keepalive {}+{} ms + hold + 30 s while faults {injected:?} were active (request timeout {:?})",
                    hung.len(),
                    plan.ka_interval / MS,
                    plan.ka_timeout / MS,
                    plan.request_timeout.map(|t| t / MS)
                ),
            );
        }
        out.count("background_runs", 1);
    }
    let mut healed = false;
    // (d) recovery. Faults stop here: pending (not yet fired) cuts are disarmed.
    // Every dead connection is detected within keepalive interval + timeout and
    // its pool is refilled within the maximum reconnect back-off (10 s + jitter);
    // after that instant every fresh idempotent request must succeed.
    {
        let mut w = world::world();
        for c in w.conns.iter_mut() {
            c.cut = None;
            c.corrupt_next_opcode = None;
        }
        {
            let mut s = w.script.take().unwrap();
            s.as_any().downcast_mut::<C10Script>().unwrap().handshake_faults.clear();
            w.script = Some(s);
        }
        // Partitions heal - after an outage that may have lasted long (the pools' reconnect
        // back-off has then been through many rounds). A connection attempt begun just
        // before hangs until the connect timeout (5 s) and is followed by the back-off.
        let partitioned_now = w.cluster.nodes.iter().any(|n| n.partitioned);
        drop(w);
        if partitioned_now {
            let outage = [0u64, 0, 60, 20 * 60, 90 * 60][tape::choose("c10:outage", 5) as usize] * SEC;
            if outage > 0 {
                world::world().probe("long_outage");
                world::sleep_ns(outage).await;
            }
        }
        let mut w = world::world();
        for n in w.cluster.nodes.iter_mut() {
            if n.partitioned {
                n.partitioned = false;
                healed = true;
            }
        }
    }
    world::sleep_ns(detection + if healed { 30 } else { 15 } * SEC).await;
    for _ in 0..8 {
        idx += 1;
        let m = idx * 16;
        let mut st = Statement::new(client::q_marker(m));
        st.set_is_idempotent(true);
        match tokio::time::timeout(Duration::from_secs(60), session.query_unpaged(st, ())).await {
            Ok(Ok(qr)) => {
                if let Err(e) = client::check_marker_rows(qr, m) {
                    out.violation("c10.attribution", e);
                }
            }
            Ok(Err(e)) => out.violation(
                "c10.no_recovery",
                format!(
                    "fresh request marker {m} failed {} s after faults {injected:?} stopped: {}",
                    (detection + 15 * SEC) / SEC,
                    client::short_err(&e)
                ),
            ),
            Err(_) => out.violation(
                "c10.hang",
                format!("fresh request marker {m} after faults {injected:?} did not return within 60 virtual s"),
            ),
        }
        world::sleep_ns(200 * MS).await;
    }
    // (e) "The session keeps working through the remaining ... connections": one of
    // several pool connections of a node is reset while the node accepts no new
    // connections for a while (the replacement cannot be opened). Requests submitted
    // a second later must be served by the remaining connections, not be handed the
    // dead one.
    if plan.enumerated.is_none() && out.violations.is_empty() {
        let victim: Option<(usize, ConnId)> = {
            let w = world::world();
            let mut pick = None;
            for n in 0..w.cluster.nodes.len() {
                let pool_conns: Vec<ConnId> = w
                    .live_conns_of(n)
                    .into_iter()
                    .filter(|c| w.conns[*c].cql.started && w.conns[*c].cql.registered.is_empty() && !w.conns[*c].s2c_stalled)
                    .collect();
                if pool_conns.len() >= 2 {
                    pick = Some((n, pool_conns[0]));
                    break;
                }
            }
            pick
        };
        if let Some((node, conn)) = victim {
            {
                let mut w = world::world();
                w.cluster.nodes[node].up = false; // new connections are refused, existing ones live on
                w.fault(Fault::Rst);
                w.log(&format!("kill_one_refuse_new node={node} conn={conn}"));
                w.srv_close_now(conn, true);
                w.probe("kill_one_refuse_new");
            }
            world::sleep_ns(SEC).await;
            for _ in 0..24 {
                idx += 1;
                let m = idx * 16;
                let mut st = Statement::new(client::q_marker(m));
                st.set_is_idempotent(true);
                match tokio::time::timeout(Duration::from_secs(60), session.query_unpaged(st, ())).await {
                    Ok(Ok(qr)) => {
                        if let Err(e) = client::check_marker_rows(qr, m) {
                            out.violation("c10.attribution", e);
                        }
                    }
                    Ok(Err(e)) => {
                        out.violation(
                            "c10.dead_connection_still_used",
                            format!(
                                "request marker {m} failed ({}) 1+ s after ONE of several pool connections of node {node} was reset (replacement refused) although its other connections are healthy",
                                client::short_err(&e)
                            ),
                        );
                        break;
                    }
                    Err(_) => {
                        out.violation("c10.hang", format!("request marker {m} did not return within 60 virtual s after one pool connection of node {node} was reset"));
                        break;
                    }
                }
                world::sleep_ns(100 * MS).await;
            }
            world::world().cluster.nodes[node].up = true;
            world::sleep_ns(12 * SEC).await;
        }
    }
    // (e2) An IDLE pool connection is closed by its node with FIN (nothing in flight on
    // it: no request fails, but the connection is dead all the same). A second later the
    // session must serve requests - through other connections or a replacement.
    if plan.enumerated.is_none() && out.violations.is_empty() {
        let victim: Option<ConnId> = {
            let w = world::world();
            w.conns
                .iter()
                .filter(|c| {
                    !c.srv_closed
                        && !c.client_closed
                        && !c.s2c_stalled
                        && c.cql.started
                        && c.cql.registered.is_empty()
                        && c.cql.outstanding.is_empty()
                })
                .map(|c| c.id)
                .next()
        };
        if let Some(conn) = victim {
            {
                let mut w = world::world();
                w.fault(Fault::Fin);
                w.log(&format!("idle_fin conn={conn}"));
                w.srv_close_now(conn, false);
                w.probe("idle_fin");
            }
            world::sleep_ns(SEC).await;
            for _ in 0..24 {
                idx += 1;
                let m = idx * 16;
                let mut st = Statement::new(client::q_marker(m));
                st.set_is_idempotent(true);
                match tokio::time::timeout(Duration::from_secs(60), session.query_unpaged(st, ())).await {
                    Ok(Ok(qr)) => {
                        if let Err(e) = client::check_marker_rows(qr, m) {
                            out.violation("c10.attribution", e);
                        }
                    }
                    Ok(Err(e)) => {
                        out.violation(
                            "c10.dead_connection_still_used",
                            format!(
                                "request marker {m} failed ({}) 1+ s after an idle pool connection (conn {conn}) was closed by its node with FIN",
                                client::short_err(&e)
                            ),
                        );
                        break;
                    }
                    Err(_) => {
                        out.violation(
                            "c10.hang",
                            format!("request marker {m} did not return within 60 virtual s; an idle pool connection (conn {conn}) had been closed by its node with FIN 1+ s before it was submitted"),
                        );
                        break;
                    }
                }
                world::sleep_ns(100 * MS).await;
            }
        }
    }
    // (e3) Requests in flight on a connection that is reset, run with a retry policy that
    // sticks to the node (RetrySameTarget on a broken connection, as often as it takes): the
    // node is healthy otherwise - other pool connections live on, new ones are accepted -,
    // so every one of them succeeds through another connection of the same node.
    if plan.enumerated.is_none() && out.violations.is_empty() && tape::chance("c10:sticky_phase", 1, 2) {
        let victim: Option<usize> = {
            let w = world::world();
            (0..w.cluster.nodes.len()).find(|n| {
                w.live_conns_of(*n)
                    .into_iter()
                    .filter(|c| w.conns[*c].cql.started && w.conns[*c].cql.registered.is_empty() && !w.conns[*c].s2c_stalled)
                    .count()
                    >= 2
            })
        };
        if let Some(node) = victim {
            let host = uuid::Uuid::from_bytes(world::world().cluster.nodes[node].host_id);
            let profile = scylla::client::execution_profile::ExecutionProfile::builder()
                .request_timeout(None)
                .retry_policy(Arc::new(StickyRetry))
                .load_balancing_policy(scylla::policies::load_balancing::SingleTargetLoadBalancingPolicy::new(
                    scylla::policies::load_balancing::NodeIdentifier::HostId(host),
                    None,
                ))
                .build()
                .into_handle();
            let mut handles = Vec::new();
            let mut markers = Vec::new();
            for _ in 0..8 {
                idx += 1;
                let m = idx * 16 + F_HOLD;
                markers.push(m);
                let session = session.clone();
                let profile = profile.clone();
                handles.push(tokio::spawn(async move {
                    let mut st = Statement::new(client::q_marker(m));
                    st.set_is_idempotent(true);
                    st.set_execution_profile_handle(Some(profile));
                    (m, tokio::time::timeout(Duration::from_secs(120), session.query_unpaged(st, ())).await)
                }));
            }
            world::sleep_ns(plan.hold / 3).await;
            // Reset the connection that carries the first of them.
            let conn = {
                let mut w = world::world();
                let mut s = w.script.take().unwrap();
                let c = markers.iter().find_map(|m| s.as_any().downcast_mut::<C10Script>().unwrap().attempts.get(m).and_then(|v| v.first().copied()));
                w.script = Some(s);
                c
            };
            if let Some(conn) = conn {
                let mut w = world::world();
                w.fault(Fault::Rst);
                w.log(&format!("sticky_phase_reset node={node} conn={conn}"));
                w.srv_close_now(conn, true);
                w.probe("reset_under_sticky_retry_policy");
            }
            for h in handles {
                match h.await {
                    Ok((m, Ok(Ok(qr)))) => {
                        if let Err(e) = client::check_marker_rows(qr, m) {
                            out.violation("c10.attribution", e);
                        }
                    }
                    Ok((m, Ok(Err(e)))) => {
                        if conn.is_some() {
                            out.violation(
                                "c10.same_node_retry_failed",
                                format!(
                                    "request marker {m}, in flight on node {node} when ONE of its pool connections was reset, failed ({}) although its retry policy retries on the same node and the node's other connections are healthy",
                                    client::short_err(&e)
                                ),
                            );
                        }
                    }
                    Ok((m, Err(_))) => out.violation("c10.hang", format!("request marker {m} (sticky retry policy) did not return within 120 virtual s after one pool connection of node {node} was reset")),
                    Err(e) => out.violation("c10.client_task", format!("{e}")),
                }
            }
            world::sleep_ns(12 * SEC).await;
        }
    }
    // (c) a non-idempotent request that reached a node is never sent again.
    {
        let mut w = world::world();
        let mut s = w.script.take().unwrap();
        let sc = s.as_any().downcast_mut::<C10Script>().unwrap();
        for (m, conns) in &sc.attempts {
            if m & F_NONIDEM != 0 && m & F_PAGED == 0 && conns.len() > 1 {
                out.violation(
                    "c10.nonidempotent_resent",
                    format!("non-idempotent request marker {m} was received {} times (connections {conns:?})", conns.len()),
                );
            }
        }
        w.script = Some(s);
    }
    finish(out, &plan, injected, total_ok, total_err, fired_any)
}

fn finish(mut out: Outcome, plan: &Plan, injected: Vec<String>, ok: u64, err: u64, fired: bool) -> Outcome {
    out.nontrivial = fired;
    out.count("in_flight_ok", ok);
    out.count("in_flight_err", err);
    if let Some((o, k)) = plan.enumerated {
        out.count(&format!("enum_{k:?}"), 1);
        let _ = o;
    }
    out.sample = json!({
        "nodes": plan.nodes, "shards": plan.shards, "pool": plan.pool,
        "keepalive_ms": [plan.ka_interval / MS, plan.ka_timeout / MS], "keepalive_off": plan.ka_off,
        "request_timeout_ms": plan.request_timeout.map(|t| t / MS),
        "default_retry": plan.default_retry, "in_flight": plan.in_flight,
        "hold_ms": plan.hold / MS, "rounds": plan.rounds,
        "enumerated": plan.enumerated.map(|(o, k)| format!("{k:?}@+{o}")),
        "injected": injected, "ok": ok, "err": err,
    });
    out
}
