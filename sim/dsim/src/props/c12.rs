//! C12 - token-aware requests are first sent to an owning replica and shard.

use crate::client::{self, SessionCfg};
use crate::cluster::{
    Cluster, KeyspaceDef, Reply, ReqInfo, Script, StmtDef, StmtKind, Strategy, TableDef,
};
use crate::harness::{Outcome, SimSetup, run_sim};
use crate::model;
use crate::runner::RunRequest;
use crate::tape;
use crate::wire::{CType, Request, Value as WVal, col};
use crate::world::{self, Fault, MS, NetCfg, SEC, World};
use scylla::client::PoolSize;
use scylla::client::execution_profile::ExecutionProfile;
use scylla::policies::load_balancing::DefaultPolicy;
use scylla::policies::retry::FallthroughRetryPolicy;
use serde_json::{Value, json};
use std::any::Any;
use std::collections::{BTreeMap, BTreeSet};
use std::num::NonZeroUsize;
use std::sync::Arc;
use std::time::Duration;

const KSS: [&str; 2] = ["ksa", "ksb"];

fn stmt_texts(ks: &str) -> [String; 3] {
    [
        format!("SELECT v FROM {ks}.t WHERE a = ? AND m = ?"),
        format!("SELECT v FROM {ks}.t2 WHERE m = ? AND b = ? AND a = ?"),
        format!("SELECT v FROM {ks}.t3 WHERE c = ? AND m = ? AND a = ? AND b = ?"),
    ]
}

#[derive(Debug, Clone)]
struct First {
    node: usize,
    shard: Option<u32>,
    token: i64,
    ks: String,
}

#[derive(Default)]
struct C12Script {
    first: BTreeMap<u64, First>,
}

impl Script for C12Script {
    fn on_user_request(&mut self, w: &mut World, rq: &ReqInfo, req: &Request) -> Reply {
        if let (Request::Execute { id, params, .. }, Some(m)) = (req, rq.marker) {
            if !self.first.contains_key(&m) {
                if let Some(text) = w.cluster.all_ids.get(id) {
                    if let Some(idx) = w.cluster.find_stmt(text) {
                        let stmt = &w.cluster.catalog[idx];
                        // The server's own view of the partition key: bound values in
                        // partition-key order, serialised and hashed independently.
                        let comps: Vec<Vec<u8>> = stmt
                            .pk_indexes
                            .iter()
                            .filter_map(|i| match params.values.get(*i as usize) {
                                Some(WVal::Bytes(b)) => Some(b.clone()),
                                _ => None,
                            })
                            .collect();
                        if comps.len() == stmt.pk_indexes.len() {
                            let token = model::murmur3_token(&model::partition_key_bytes(&comps));
                            self.first.insert(
                                m,
                                First {
                                    node: rq.node,
                                    shard: rq.shard,
                                    token,
                                    ks: stmt.ks.clone(),
                                },
                            );
                        }
                    }
                }
            }
        }
        Reply::Default
    }
    fn as_any(&mut self) -> &mut dyn Any {
        self
    }
}

#[derive(Clone, Debug)]
struct Plan {
    dcs: usize,
    nodes: usize,
    shards: u32,
    msb_ignore: u8,
    per_shard: bool,
    pool_n: usize,
    shard_aware_port: bool,
    /// 0 none, 1 datacenter, 2 datacenter + rack
    preference: u64,
    preferred_dc: usize,
    failover: bool,
    executions: usize,
    nat_permille: u64,
    restart_phase: bool,
    rf: Vec<usize>,
    /// A node (never the contact point) that the session's host filter rejects: no pool is
    /// opened to it, no request may go there, its replicas' share falls to the others.
    filtered_out: Option<usize>,
}

pub fn run(req: &RunRequest) -> Value {
    run_sim(req, move || {
        let dcs = tape::range("c12:dcs", 1, 3) as usize;
        let nodes = tape::range("c12:nodes", dcs as u64, 6) as usize;
        let plan = Plan {
            dcs,
            nodes,
            shards: [0, 1, 2, 3, 4, 8][tape::choose("c12:shards", 6) as usize],
            msb_ignore: [12, 0, 7][tape::choose("c12:msb", 3) as usize],
            per_shard: tape::chance("c12:per_shard", 2, 3),
            pool_n: tape::range("c12:pool_n", 1, 3) as usize,
            shard_aware_port: !tape::chance("c12:no_sa_port", 1, 3),
            preference: tape::choose("c12:preference", 3),
            preferred_dc: tape::choose("c12:preferred_dc", dcs as u64) as usize,
            failover: tape::chance("c12:failover", 1, 2),
            executions: tape::range("c12:executions", 30, 150) as usize,
            nat_permille: [0, 0, 0, 300][tape::choose("c12:nat", 4) as usize],
            restart_phase: tape::chance("c12:restart_phase", 1, 4),
            rf: (0..dcs).map(|_| tape::choose("c12:rf", 4) as usize).collect(),
            filtered_out: if nodes >= 2 && tape::chance("c12:host_filter", 1, 5) { Some(1 + tape::choose("c12:filtered_node", nodes as u64 - 1) as usize) } else { None },
        };
        let mut cluster = Cluster::new("c12");
        let mut zero_token_nodes = 0u64;
        for i in 0..plan.nodes {
            let dc = i % plan.dcs;
            let rack = (i / plan.dcs) % 2;
            let vnodes = tape::range("c12:vnodes", 1, 6) as usize;
            let tokens: Vec<i64> = (0..vnodes)
                .map(|_| {
                    let hi = tape::choose("c12:token_hi", 1 << 20) as i64 - (1 << 19);
                    let lo = tape::choose("c12:token_lo", 1 << 20) as i64;
                    (hi << 44) | (lo << 24) | (i as i64 + 1)
                })
                .collect();
            // 1 in 6 layouts: the last node is a zero-token node (it owns no data and is a
            // replica of nothing; ScyllaDB reports its token set as null).
            let tokens = if i > 0 && i + 1 == plan.nodes && tape::chance("c12:zero_token_node", 1, 6) {
                zero_token_nodes += 1;
                let _ = zero_token_nodes;
                Vec::new()
            } else {
                tokens
            };
            let n = cluster.add_node(&format!("dc{dc}"), &format!("r{rack}"), plan.shards, tokens);
            cluster.nodes[n].msb_ignore = plan.msb_ignore;
            cluster.nodes[n].shard_aware_port_open = true;
            // NAT in front of the shard-aware port: the connection lands on another
            // shard than the source port asked for.
            cluster.nodes[n].nat_permille = plan.nat_permille;
        }
        cluster.features.advertise_shard_aware_port = plan.shard_aware_port;
        let simple_rf = 1 + tape::choose("c12:simple_rf", 3) as usize;
        let nts: Vec<(String, usize)> = (0..plan.dcs).map(|d| (format!("dc{d}"), plan.rf[d])).collect();
        let strategies = [Strategy::Simple(simple_rf), Strategy::Nts(nts)];
        for (k, ks) in KSS.iter().enumerate() {
            cluster.keyspaces.push(KeyspaceDef {
                name: ks.to_string(),
                strategy: strategies[k].clone(),
                tablets: false,
                tables: ["t", "t2", "t3"]
                    .iter()
                    .map(|t| TableDef {
                        name: t.to_string(),
                        partitioner: Some("org.apache.cassandra.dht.Murmur3Partitioner".into()),
                        view_of: None,
                    })
                    .collect(),
            });
            let texts = stmt_texts(ks);
            let v = |t: &str| vec![col(ks, t, "v", CType::BigInt)];
            cluster.catalog.push(StmtDef {
                shape: texts[0].clone(),
                ks: ks.to_string(),
                table: "t".into(),
                kind: StmtKind::Select,
                bind_cols: vec![col(ks, "t", "a", CType::BigInt), col(ks, "t", "m", CType::BigInt)],
                pk_indexes: vec![0],
                result_cols: v("t"),
                marker_bind: Some(1),
                schema_version: 0,
                id_version: 0,
            });
            cluster.catalog.push(StmtDef {
                shape: texts[1].clone(),
                ks: ks.to_string(),
                table: "t2".into(),
                kind: StmtKind::Select,
                bind_cols: vec![
                    col(ks, "t2", "m", CType::BigInt),
                    col(ks, "t2", "b", CType::Text),
                    col(ks, "t2", "a", CType::BigInt),
                ],
                // partition key (a, b): component 0 is bind 2, component 1 is bind 1
                pk_indexes: vec![2, 1],
                result_cols: v("t2"),
                marker_bind: Some(0),
                schema_version: 0,
                id_version: 0,
            });
            cluster.catalog.push(StmtDef {
                shape: texts[2].clone(),
                ks: ks.to_string(),
                table: "t3".into(),
                kind: StmtKind::Select,
                bind_cols: vec![
                    col(ks, "t3", "c", CType::Int),
                    col(ks, "t3", "m", CType::BigInt),
                    col(ks, "t3", "a", CType::BigInt),
                    col(ks, "t3", "b", CType::Text),
                ],
                // partition key (a, b, c)
                pk_indexes: vec![2, 3, 0],
                result_cols: v("t3"),
                marker_bind: Some(1),
                schema_version: 0,
                id_version: 0,
            });
        }
        // 1 in 3 runs the nodes mark two of the three statements of every keyspace as
        // conditional (LWT mark in the prepared metadata): the policy then routes them to
        // the replicas in a fixed order - still replicas, still in the preferred datacenter.
        if tape::chance("c12:lwt_marks", 1, 3) {
            cluster.features.lwt_ext = true;
            cluster.features.lwt_marked_shapes = cluster.catalog.iter().filter(|s| s.table == "t" || s.table == "t3").map(|s| s.shape.clone()).collect();
        }
        cluster.keyspaces.push(KeyspaceDef {
            name: "system".into(),
            strategy: Strategy::Local,
            tablets: false,
            tables: vec![],
        });
        cluster.think_min = 0;
        cluster.think_max = 2 * MS;
        let net = NetCfg {
            chaos_yield_permille: [0, 30][tape::choose("c12:chaos", 2) as usize],
            ..NetCfg::default()
        };
        let setup = SimSetup {
            cluster,
            net,
            virt_cap: Duration::from_secs(1800),
            world_oracles: vec![],
            panic_is_violation: true,
            rlimit_as: None,
            alloc_limit: None,
        };
        (setup, move || main(plan))
    })
}

async fn main(plan: Plan) -> Outcome {
    let mut out = Outcome::default();
    {
        let mut w = world::world();
        w.script = Some(Box::new(C12Script::default()));
    }
    let preferred_dc = format!("dc{}", plan.preferred_dc);
    let mut lb = DefaultPolicy::builder().token_aware(true).permit_dc_failover(plan.failover);
    // The location preference is given to the policy or (1 in 3) to the session, from
    // which every request's routing information inherits it.
    let session_level_pref = plan.preference != 0 && tape::chance("c12:session_level_pref", 1, 3);
    if !session_level_pref {
        lb = match plan.preference {
            1 => lb.prefer_datacenter(preferred_dc.clone()),
            2 => lb.prefer_datacenter_and_rack(preferred_dc.clone(), "r0".into()),
            _ => lb,
        };
    }
    let profile = ExecutionProfile::builder()
        .request_timeout(None)
        .retry_policy(Arc::new(FallthroughRetryPolicy))
        .load_balancing_policy(lb.build())
        .build();
    let n = NonZeroUsize::new(plan.pool_n).unwrap();
    let cfg = SessionCfg {
        contact_nodes: vec![0],
        pool: if plan.per_shard { PoolSize::PerShard(n) } else { PoolSize::PerHost(n) },
        disallow_shard_aware_port: false,
        profile: Some(profile),
        fetch_schema: true,
        prefer: if session_level_pref {
            Some((preferred_dc.clone(), if plan.preference == 2 { Some("r0".to_string()) } else { None }))
        } else {
            None
        },
        filtered_out: plan.filtered_out.into_iter().collect(),
        ..SessionCfg::default()
    };
    let session = match client::build_session(&cfg).await {
        Ok(s) => Arc::new(s),
        Err(e) => {
            out.inconclusive = Some(format!("session: {e}"));
            return out;
        }
    };
    // Let pools fill.
    world::sleep_ns(8 * SEC).await;
    if plan.restart_phase {
        // A fault phase before the measured phase: a node restarts (possibly
        // resharded); then everything is given time to settle.
        let victim = tape::choose("c12:victim", plan.nodes as u64) as usize;
        let new_shards = if plan.shards > 0 { Some([1, 2, 3, 4][tape::choose("c12:reshard", 4) as usize]) } else { None };
        {
            let mut w = world::world();
            w.crash_node(victim);
        }
        world::sleep_ns(2 * SEC).await;
        {
            let mut w = world::world();
            w.restart_node(victim, new_shards);
            // The restarted node may come back with another sharding algorithm parameter
            // (same or different shard count).
            if plan.shards > 0 && tape::chance("c12:restart_msb", 1, 2) {
                let old = w.cluster.nodes[victim].msb_ignore;
                w.cluster.nodes[victim].msb_ignore = [0u8, 7, 12][(([0u8, 7, 12].iter().position(|m| *m == old).unwrap_or(0)) + 1 + tape::choose("c12:restart_msb_pick", 2) as usize) % 3];
                w.probe("restart_with_other_msb_ignore");
            }
        }
        world::sleep_ns(40 * SEC).await;
    }
    // A node is moved to another datacenter and/or rack (it reappears in system.peers /
    // system.local with the new labels); the client learns of it through a refresh.
    if plan.dcs > 1 && tape::chance("c12:relabel", 1, 4) {
        let victim = tape::choose("c12:relabel_victim", plan.nodes as u64) as usize;
        {
            let mut w = world::world();
            let dcs: Vec<String> = {
                let mut d: Vec<String> = w.cluster.nodes.iter().map(|n| n.dc.clone()).collect();
                d.sort();
                d.dedup();
                d
            };
            let cur = w.cluster.nodes[victim].dc.clone();
            let others: Vec<&String> = dcs.iter().filter(|d| **d != cur).collect();
            if !others.is_empty() {
                let nd = others[tape::choose("c12:relabel_dc", others.len() as u64) as usize].clone();
                w.cluster.nodes[victim].dc = nd;
                w.cluster.nodes[victim].rack = format!("r{}", 1 + tape::choose("c12:relabel_rack", 2));
                w.fault(Fault::Topology);
                w.probe("node_moved_to_other_dc");
                let ip = w.cluster.nodes[victim].ip;
                w.broadcast_event("TOPOLOGY_CHANGE", crate::wire::body_event_topology("NEW_NODE", ip, 9042));
            }
        }
        world::sleep_ns(3 * SEC).await;
        let _ = tokio::time::timeout(Duration::from_secs(120), session.refresh_metadata()).await;
        world::sleep_ns(20 * SEC).await;
    }
    // A node's token ownership changes (nodetool move; a node first listed without tokens
    // that then gets some): same members, same labels, another ring. The client learns of
    // it through a refresh.
    if tape::chance("c12:tokens_moved", 1, 4) {
        let victim = tape::choose("c12:moved_node", plan.nodes as u64) as usize;
        {
            let mut w = world::world();
            let vnodes = tape::range("c12:moved_vnodes", 1, 6) as usize;
            let tokens: Vec<i64> = (0..vnodes)
                .map(|_| {
                    let hi = tape::choose("c12:token_hi", 1 << 20) as i64 - (1 << 19);
                    let lo = tape::choose("c12:token_lo", 1 << 20) as i64;
                    (hi << 44) | (lo << 24) | (victim as i64 + 1) | 0x800
                })
                .collect();
            if !w.cluster.nodes[victim].tokens.is_empty() {
                w.cluster.nodes[victim].tokens = tokens;
                w.fault(Fault::Topology);
                w.probe("node_tokens_moved");
                let ip = w.cluster.nodes[victim].ip;
                w.broadcast_event("TOPOLOGY_CHANGE", crate::wire::body_event_topology("MOVED_NODE", ip, 9042));
            }
        }
        world::sleep_ns(3 * SEC).await;
        let _ = tokio::time::timeout(Duration::from_secs(120), session.refresh_metadata()).await;
        world::sleep_ns(20 * SEC).await;
    }
    let mut prepared = Vec::new();
    for ks in KSS {
        for t in stmt_texts(ks) {
            match session.prepare(t.as_str()).await {
                Ok(p) => prepared.push((ks, p)),
                Err(e) => {
                    out.inconclusive = Some(format!("prepare: {e}"));
                    return out;
                }
            }
        }
    }
    world::sleep_ns(SEC).await;

    // Measured phase.
    struct Sub {
        marker: u64,
        connected: Vec<bool>,
    }
    let mut subs = Vec::new();
    for i in 0..plan.executions {
        let m = (i as u64 + 1) * 16;
        let which = tape::choose("c12:stmt", prepared.len() as u64) as usize;
        let a = tape::choose("c12:key_a", 1 << 40) as i64 - (1 << 39);
        let b = format!("k{}", tape::choose("c12:key_b", 100_000));
        let c = tape::choose("c12:key_c", 1000) as i32 - 500;
        // What the driver believes right before submission.
        let state = session.get_cluster_state();
        let mut connected = vec![false; plan.nodes];
        for node in state.get_nodes_info() {
            let ip = node.address.ip();
            if let Some(idx) = { world::world().cluster.node_by_ip(ip) } {
                connected[idx] = node.is_connected();
            }
        }
        let p = &prepared[which].1;
        // 1 in 4 executions go through the paging iterator (its worker builds the routing
        // information of every page request itself).
        if tape::chance("c12:via_iter", 1, 4) {
            use futures::StreamExt;
            let pager = match which % 3 {
                0 => session.execute_iter(p.clone(), (a, m as i64)).await,
                1 => session.execute_iter(p.clone(), (m as i64, b.as_str(), a)).await,
                _ => session.execute_iter(p.clone(), (c, m as i64, a, b.as_str())).await,
            };
            if let Ok(pager) = pager {
                if let Ok(mut rs) = pager.rows_stream::<(i64,)>() {
                    while let Some(r) = rs.next().await {
                        if let Ok((v,)) = r {
                            if v != m as i64 {
                                out.violation("c12.attribution", format!("paged request with marker {m} received row {v}"));
                            }
                        }
                    }
                }
            }
            subs.push(Sub { marker: m, connected });
            continue;
        }
        let res = match which % 3 {
            0 => session.execute_unpaged(p, (a, m as i64)).await,
            1 => session.execute_unpaged(p, (m as i64, b.as_str(), a)).await,
            _ => session.execute_unpaged(p, (c, m as i64, a, b.as_str())).await,
        };
        if let Some(e) = res.as_ref().err().filter(|e| !matches!(e, scylla::errors::ExecutionError::EmptyPlan)) {
            // (An empty plan is legitimate: a preferred datacenter without failover may
            // permit no node at all.) No fault is injected in the measured phase: every node is up and every
            // statement well-formed. (An execution that fails before it is sent - e.g.
            // because its partition key cannot be computed - is never routed at all.)
            out.violation("c12.execution_failed", format!("execution marker {m} failed although no fault is active: {}", client::short_err(e)));
        }
        if let Ok(qr) = res {
            if let Err(e) = client::check_marker_rows(qr, m) {
                out.violation("c12.attribution", e);
            }
        }
        subs.push(Sub { marker: m, connected });
    }

    let (first, cluster_nodes, covered): (BTreeMap<u64, First>, Vec<(String, String, u32, u8, bool)>, Vec<BTreeSet<u32>>) = {
        let mut w = world::world();
        let mut s = w.script.take().unwrap();
        let f = s.as_any().downcast_mut::<C12Script>().unwrap().first.clone();
        w.script = Some(s);
        let nodes = w
            .cluster
            .nodes
            .iter()
            .map(|n| (n.dc.clone(), n.rack.clone(), n.nr_shards, n.msb_ignore, n.up))
            .collect();
        let mut covered = vec![BTreeSet::new(); w.cluster.nodes.len()];
        for c in &w.conns {
            if !c.srv_closed && !c.client_closed && c.cql.registered.is_empty() && c.cql.started {
                if let Some(s) = c.shard {
                    covered[c.node].insert(s);
                }
            }
        }
        (f, nodes, covered)
    };
    let mut checked = 0u64;
    let mut shard_checked = 0u64;
    let mut no_replica_permitted = 0u64;
    out.count("runs_with_host_filter", plan.filtered_out.is_some() as u64);
    for s in &subs {
        let Some(f) = first.get(&s.marker) else { continue };
        let replicas = { world::world().cluster.replicas(&f.ks, f.token) };
        // Nodes the load-balancing configuration permits.
        let permitted = |n: usize| -> bool {
            if plan.filtered_out == Some(n) {
                false
            } else if plan.preference == 0 || plan.failover {
                true
            } else {
                cluster_nodes[n].0 == preferred_dc
            }
        };
        let r: Vec<usize> = replicas
            .iter()
            .copied()
            .filter(|n| s.connected[*n] && cluster_nodes[*n].4 && permitted(*n))
            .collect();
        let ctx = format!(
            "marker {} ks {} token {} -> node {} (dc {}) shard {:?}; replicas {:?} reachable+permitted {:?} preference {} dc {} failover {}",
            s.marker, f.ks, f.token, f.node, cluster_nodes[f.node].0, f.shard, replicas, r, plan.preference, preferred_dc, plan.failover
        );
        if plan.filtered_out == Some(f.node) {
            out.violation("c12.request_to_filtered_node", format!("a request went to a node the host filter rejects: {ctx}"));
        }
        if r.is_empty() {
            no_replica_permitted += 1;
        } else {
            checked += 1;
            if !r.contains(&f.node) {
                out.violation("c12.not_a_replica", format!("first attempt went to a node that is not a reachable replica: {ctx}"));
            } else if plan.preference != 0 {
                let local: Vec<usize> = r.iter().copied().filter(|n| cluster_nodes[*n].0 == preferred_dc).collect();
                if !local.is_empty() && !local.contains(&f.node) {
                    out.violation("c12.not_in_preferred_dc", format!("a reachable replica exists in the preferred datacenter but the first attempt went elsewhere: {ctx}"));
                }
            }
        }
        // Shard: on a sharded node, whenever the pool has a connection to the owning shard.
        let (_, _, nr_shards, msb, _) = cluster_nodes[f.node];
        if nr_shards > 0 && replicas.contains(&f.node) {
            let want = model::shard_of(f.token, nr_shards, msb);
            if covered[f.node].contains(&want) {
                shard_checked += 1;
                if f.shard != Some(want) {
                    out.violation(
                        "c12.wrong_shard",
                        format!("token belongs to shard {want} of {nr_shards} (msb {msb}) and the pool has a connection to it, but the frame arrived on shard {:?}: {ctx}", f.shard),
                    );
                }
            }
        }
    }
    out.nontrivial = checked > 0;
    out.count("first_attempts_checked", checked);
    out.count("shard_checked", shard_checked);
    out.count("no_reachable_permitted_replica", no_replica_permitted);
    out.sample = json!({
        "dcs": plan.dcs, "nodes": plan.nodes, "shards": plan.shards, "msb_ignore": plan.msb_ignore,
        "pool": format!("{}({})", if plan.per_shard { "PerShard" } else { "PerHost" }, plan.pool_n),
        "shard_aware_port": plan.shard_aware_port, "preference": plan.preference, "failover": plan.failover,
        "rf": plan.rf, "executions": plan.executions, "checked": checked, "shard_checked": shard_checked,
        "restart_phase": plan.restart_phase, "nat_permille": plan.nat_permille,
    });
    let _ = Fault::Nat;
    out
}
