//! C13 - speculative execution is idempotent-only, bounded, and the first real
//! answer wins (end-to-end half; the exact-timing half is the direct driver C13d).

use crate::client::{self, SessionCfg};
use crate::cluster::{Cluster, Reply, ReqInfo, Script, Strategy};
use crate::harness::{Outcome, SimSetup, run_sim};
use crate::runner::RunRequest;
use crate::tape;
use crate::wire::{Request, W, err};
use crate::world::{self, Fault, MS, NetCfg, SEC, World};
use scylla::client::PoolSize;
use scylla::client::execution_profile::ExecutionProfile;
use scylla::errors::{DbError, ExecutionError, RequestAttemptError};
use scylla::policies::retry::{DefaultRetryPolicy, FallthroughRetryPolicy};
use scylla::policies::speculative_execution::SimpleSpeculativeExecutionPolicy;
use scylla::statement::Statement;
use serde_json::{Value, json};
use std::any::Any;
use std::collections::BTreeMap;
use std::num::NonZeroUsize;
use std::sync::Arc;
use std::time::Duration;

#[derive(Debug, Clone, Copy, PartialEq, Eq)]
enum Out {
    Success,
    /// Definitive error: Invalid / Syntax / Unauthorized / AlreadyExists.
    Definitive(u8),
    /// Ignorable: Overloaded / Unavailable / IsBootstrapping.
    Ignorable(u8),
    /// Connection reset after the request was received (ignorable).
    Rst,
}

#[derive(Debug, Clone)]
struct Frame {
    node: usize,
    arrived: u64,
    respond_at: u64,
    out: Out,
    /// Row offset asked for (0 = first page).
    page: u64,
}

/// Marker flag: the SELECT returns 3 rows; read through the paging iterator with page size 1.
const F_MULTI: u64 = 2;

struct C13Script {
    /// Unit of the completion-delay grid (the retry interval, or 100 ms if that is degenerate).
    interval: u64,
    success_weight: u64,
    /// With "never speculate" a call whose only running execution fails ignorably waits
    /// for a timer that is practically never due (by design, not a hang): such runs
    /// script real answers only.
    real_only: bool,
    frames: BTreeMap<u64, Vec<Frame>>,
}

impl Script for C13Script {
    fn rows_for(&mut self, _w: &mut World, rq: &ReqInfo, stmt: &crate::cluster::StmtDef) -> Vec<Vec<crate::wire::Cell>> {
        let rows = crate::cluster::default_rows(stmt, rq.marker);
        if rq.marker.map(|m| m & F_MULTI != 0).unwrap_or(false) {
            return vec![rows[0].clone(), rows[0].clone(), rows[0].clone()];
        }
        rows
    }
    fn on_user_request(&mut self, w: &mut World, rq: &ReqInfo, req: &Request) -> Reply {
        if matches!(req, Request::Prepare { .. }) {
            return Reply::Default;
        }
        let Some(m) = rq.marker else {
            return Reply::Default;
        };
        let d = self.interval;
        // Completion delays on the grid 0, d/2, d, 3d/2, ... so that ties between the
        // speculative timer and completions are common.
        let delay = d / 2 * tape::weighted("c13:delay", &[3, 3, 4, 3, 3, 2, 2, 1]) as u64;
        let weights = if self.real_only { [self.success_weight, 2, 0, 0] } else { [self.success_weight, 2, 4, 1] };
        let out = match tape::weighted("c13:outcome", &weights) {
            0 => Out::Success,
            1 => Out::Definitive(tape::choose("c13:definitive", 7) as u8),
            2 => Out::Ignorable(tape::choose("c13:ignorable", 3) as u8),
            _ => Out::Rst,
        };
        let now = w.now();
        let page = match req {
            Request::Query { params, .. } | Request::Execute { params, .. } => params
                .paging_state
                .as_ref()
                .and_then(|ps| ps.get(..8).map(|b| u64::from_be_bytes(b.try_into().unwrap())))
                .unwrap_or(0),
            _ => 0,
        };
        self.frames.entry(m).or_default().push(Frame {
            node: rq.node,
            arrived: now,
            respond_at: now + delay,
            out,
            page,
        });
        if delay > 0 {
            w.fault(Fault::Delay);
        }
        let mut x = W::new();
        match out {
            Out::Success => Reply::DefaultAfter(delay),
            Out::Rst => Reply::Close { rst: true, delay },
            // A response the client cannot parse is a definitive answer too (nothing says
            // the request was not executed).
            Out::Definitive(4) => {
                // RESULT/Rows announcing one column and ending right there.
                let mut b = W::new();
                b.i32(0x0002).i32(0x0001).i32(1);
                w.fault(Fault::Corrupt);
                Reply::Raw { opcode: crate::wire::OP_RESULT, body: b.buf, env: Default::default(), delay }
            }
            Out::Definitive(5) => {
                // ERROR with a code but a truncated message.
                let mut b = W::new();
                b.i32(err::INVALID).u16(200);
                w.fault(Fault::Corrupt);
                Reply::Raw { opcode: crate::wire::OP_ERROR, body: b.buf, env: Default::default(), delay }
            }
            Out::Definitive(6) => {
                // WARNING flag set but the warnings list is cut short.
                let mut b = W::new();
                b.u16(3).u16(50);
                w.fault(Fault::Corrupt);
                Reply::Raw {
                    opcode: crate::wire::OP_RESULT,
                    body: b.buf,
                    env: crate::wire::Envelope { extra_flags: crate::wire::FLAG_WARNING, ..Default::default() },
                    delay,
                }
            }
            Out::Definitive(k) => {
                let code = match k {
                    0 => err::INVALID,
                    1 => err::SYNTAX_ERROR,
                    2 => err::UNAUTHORIZED,
                    _ => {
                        x.string("ks1").string("t1");
                        err::ALREADY_EXISTS
                    }
                };
                Reply::Error { code, msg: "definitive".into(), extra: x.buf, delay }
            }
            Out::Ignorable(k) => {
                let code = match k {
                    0 => err::OVERLOADED,
                    1 => {
                        x.u16(1).i32(2).i32(1);
                        err::UNAVAILABLE
                    }
                    _ => err::IS_BOOTSTRAPPING,
                };
                // Every ignorable answer is recognisable: "...#<index of the attempt>".
                let idx = self.frames.get(&m).map(|v| v.len()).unwrap_or(1) - 1;
                Reply::Error { code, msg: format!("ignorable#{idx}#"), extra: x.buf, delay }
            }
        }
    }
    fn as_any(&mut self) -> &mut dyn Any {
        self
    }
}

#[derive(Clone, Debug)]
struct Plan {
    nodes: usize,
    max_spec: usize,
    interval: u64,
    fallthrough: bool,
    requests: usize,
    success_weight: u64,
}

pub fn run(req: &RunRequest) -> Value {
    run_sim(req, move || {
        let plan = Plan {
            nodes: tape::range("c13:nodes", 2, 6) as usize,
            max_spec: tape::choose("c13:max", 5) as usize,
            // 1 in 10 runs each: the degenerate but legal intervals zero (all allowed
            // executions may start at once) and Duration::MAX ("never"; u64::MAX here).
            interval: match tape::weighted("c13:interval", &[8, 8, 8, 3, 3]) {
                0 => 50 * MS,
                1 => 100 * MS,
                2 => 200 * MS,
                3 => 0,
                _ => u64::MAX,
            },
            fallthrough: !tape::chance("c13:default_retry", 1, 3),
            requests: tape::range("c13:requests", 1, 8) as usize,
            success_weight: [1, 3, 8][tape::choose("c13:success_weight", 3) as usize],
        };

        let mut cluster = Cluster::new("c13");
        for i in 0..plan.nodes {
            cluster.add_node("dc1", "r1", 0, vec![(i as i64) * 1000 - 2500]);
        }
        client::standard_catalog(&mut cluster, Strategy::Simple(plan.nodes.min(3)), false);
        cluster.think_min = 0;
        cluster.think_max = 0;
        // Small, bounded latency so that the scripted completion grid dominates.
        let net = NetCfg {
            lat_min: 0,
            lat_max: MS,
            chaos_yield_permille: [0, 50][tape::choose("c13:chaos", 2) as usize],
            ..NetCfg::default()
        };
        let setup = SimSetup {
            cluster,
            net,
            virt_cap: Duration::from_secs(900),
            world_oracles: vec![],
            panic_is_violation: true,
            rlimit_as: None,
            alloc_limit: None,
        };
        (setup, move || main(plan))
    })
}

fn classify(e: &ExecutionError) -> &'static str {
    match e {
        ExecutionError::LastAttemptError(RequestAttemptError::DbError(d, _)) => match d {
            DbError::Invalid | DbError::SyntaxError | DbError::Unauthorized | DbError::AlreadyExists { .. } => "definitive",
            DbError::Overloaded | DbError::Unavailable { .. } | DbError::IsBootstrapping => "ignorable",
            _ => "other",
        },
        ExecutionError::LastAttemptError(RequestAttemptError::BrokenConnectionError(_)) => "ignorable",
        ExecutionError::LastAttemptError(
            RequestAttemptError::CqlResultParseError(_)
            | RequestAttemptError::CqlErrorParseError(_)
            | RequestAttemptError::BodyExtensionsParseError(_),
        ) => "definitive",
        ExecutionError::ConnectionPoolError(_) => "pool",
        ExecutionError::EmptyPlan => "empty_plan",
        _ => "other",
    }
}

async fn main(plan: Plan) -> Outcome {
    let mut out = Outcome::default();
    {
        let mut w = world::world();
        w.script = Some(Box::new(C13Script {
            interval: if plan.interval == 0 || plan.interval == u64::MAX { 100 * MS } else { plan.interval },
            success_weight: plan.success_weight,
            real_only: plan.interval == u64::MAX,
            frames: BTreeMap::new(),
        }));
    }
    let mut pb = ExecutionProfile::builder()
        .request_timeout(None)
        .speculative_execution_policy(Some(Arc::new(SimpleSpeculativeExecutionPolicy {
            max_retry_count: plan.max_spec,
            retry_interval: if plan.interval == u64::MAX { Duration::MAX } else { Duration::from_nanos(plan.interval) },
        })));
    pb = if plan.fallthrough {
        pb.retry_policy(Arc::new(FallthroughRetryPolicy))
    } else {
        pb.retry_policy(Arc::new(DefaultRetryPolicy::new()))
    };
    // 1 in 4 runs: a latency-aware default policy, tuned so that it reacts within a run (one
    // measurement suffices, averages are refreshed every 10 ms, a node 1.2 times slower than
    // the fastest is penalised, for 150 ms): the plan's order then depends on the time at
    // which it is asked - it still names every node once.
    if tape::chance("c13:latency_aware", 1, 4) {
        use scylla::policies::load_balancing::{DefaultPolicy, LatencyAwarenessBuilder};
        pb = pb.load_balancing_policy(
            DefaultPolicy::builder()
                .latency_awareness(
                    LatencyAwarenessBuilder::new()
                        .minimum_measurements(1)
                        .update_rate(Duration::from_millis(10))
                        .exclusion_threshold(1.2)
                        .retry_period(Duration::from_millis(150))
                        .scale(Duration::from_millis(20)),
                )
                .build(),
        );
        out.count("latency_aware_runs", 1);
    }
    let cfg = SessionCfg {
        contact_nodes: vec![0],
        pool: PoolSize::PerHost(NonZeroUsize::new(1).unwrap()),
        profile: Some(pb.build()),
        ..SessionCfg::default()
    };
    let session = match client::build_session(&cfg).await {
        Ok(s) => Arc::new(s),
        Err(e) => {
            out.inconclusive = Some(format!("session: {e}"));
            return out;
        }
    };
    world::sleep_ns(500 * MS).await;
    // PREPARE is not speculated; the statements are prepared on every node up front.
    let sel = session.prepare(client::Q_PREPARED_SELECT).await.ok();
    let ins = session.prepare(client::Q_PREPARED_INSERT).await.ok();

    let mut hist = Vec::new();
    let mut spec_started = 0u64;
    for i in 0..plan.requests {
        let m = (i as u64 + 1) * 16;
        let idempotent = tape::chance("c13:idempotent", 3, 4);
        let mut st = Statement::new(client::q_marker(m));
        st.set_is_idempotent(idempotent);
        let t0 = world::now_ns();
        // The same execution core is reached through several APIs. The outcome is
        // normalised to Ok(rows ok?) / Err(error class).
        let mut api = tape::weighted("c13:api", &[3, 2, 2, 1, 2]);
        if (api == 2 && sel.is_none()) || (api == 3 && ins.is_none()) {
            api = 0;
        }
        // api 4: three pages of one row each through the paging iterator; every page
        // request is speculated separately (the previous page's coordinator goes first).
        let m = if api == 4 { m | F_MULTI } else { m };
        let mut st = Statement::new(client::q_marker(m));
        st.set_is_idempotent(idempotent);
        if api == 4 {
            st.set_page_size(1);
        }
        let res: Result<Result<Result<(), String>, (&'static str, String)>, tokio::time::error::Elapsed> =
            tokio::time::timeout(Duration::from_secs(120), async {
                match api {
                    0 => match session.query_unpaged(st, ()).await {
                        Ok(qr) => Ok(client::check_marker_rows(qr, m)),
                        Err(e) => Err((classify(&e), format!("{e}"))),
                    },
                    2 => {
                        let mut p = sel.clone().unwrap();
                        p.set_is_idempotent(idempotent);
                        match session.execute_unpaged(&p, (i as i64, m as i64)).await {
                            Ok(qr) => Ok(client::check_marker_rows(qr, m)),
                            Err(e) => Err((classify(&e), format!("{e}"))),
                        }
                    }
                    4 => {
                        use futures::StreamExt;
                        use scylla::errors::{NextPageError, PagerExecutionError};
                        match session.query_iter(st, ()).await {
                            Ok(pager) => match pager.rows_stream::<(i64,)>() {
                                Ok(mut rs) => {
                                    let mut n = 0;
                                    let mut res = Ok(Ok(()));
                                    while let Some(r) = rs.next().await {
                                        match r {
                                            Ok((v,)) if v == m as i64 => n += 1,
                                            Ok(other) => {
                                                res = Ok(Err(format!("paged request marker {m} yielded {other:?}")));
                                                break;
                                            }
                                            Err(scylla::errors::NextRowError::NextPageError(NextPageError::RequestFailure(e))) => {
                                                let e = e.into_execution_error();
                                                res = Err((classify(&e), format!("{e}")));
                                                break;
                                            }
                                            Err(e) => {
                                                res = Err(("other", format!("{e}").chars().take(100).collect()));
                                                break;
                                            }
                                        }
                                    }
                                    if n != 3 && matches!(res, Ok(Ok(()))) {
                                        res = Ok(Err(format!("paged request marker {m} yielded {n} rows instead of 3")));
                                    }
                                    res
                                }
                                Err(e) => Ok(Err(format!("type check: {e}"))),
                            },
                            Err(PagerExecutionError::NextPageError(NextPageError::RequestFailure(e))) => {
                                let e = e.into_execution_error();
                                Err((classify(&e), format!("{e}")))
                            }
                            Err(e) => Err(("other", format!("{e}").chars().take(100).collect())),
                        }
                    }
                    3 => {
                        let mut b = scylla::statement::batch::Batch::default();
                        b.append_statement(ins.clone().unwrap());
                        b.append_statement(ins.clone().unwrap());
                        b.set_is_idempotent(idempotent);
                        match session.batch(&b, ((1i64, m as i64), (2i64, m as i64))).await {
                            Ok(_) => Ok(Ok(())),
                            Err(e) => Err((classify(&e), format!("{e}"))),
                        }
                    }
                    _ => {
                        use futures::StreamExt;
                        use scylla::errors::{NextPageError, PagerExecutionError};
                        match session.query_iter(st, ()).await {
                            Ok(pager) => match pager.rows_stream::<(i64,)>() {
                                Ok(mut rs) => match rs.next().await {
                                    Some(Ok((v,))) if v == m as i64 => Ok(Ok(())),
                                    other => Ok(Err(format!("paged request marker {m} yielded {other:?}"))),
                                },
                                Err(e) => Ok(Err(format!("type check: {e}"))),
                            },
                            Err(PagerExecutionError::NextPageError(NextPageError::RequestFailure(e))) => {
                                let e = e.into_execution_error();
                                Err((classify(&e), format!("{e}")))
                            }
                            Err(e) => Err(("other", format!("{e}").chars().take(100).collect())),
                        }
                    }
                }
            })
            .await;
        let t1 = world::now_ns();
        let frames = {
            let mut w = world::world();
            let mut s = w.script.take().unwrap();
            let f = s
                .as_any()
                .downcast_mut::<C13Script>()
                .unwrap()
                .frames
                .get(&m)
                .cloned()
                .unwrap_or_default();
            w.script = Some(s);
            f
        };
        let ctx = format!(
            "marker {m} idempotent={idempotent} api={api} max={} d={}ms fallthrough={} t0={}ms t1={}ms frames={:?}",
            plan.max_spec,
            plan.interval / MS,
            plan.fallthrough,
            t0 / MS,
            t1 / MS,
            frames
                .iter()
                .map(|f| (f.node, (f.arrived - t0) / MS, (f.respond_at - t0) / MS, format!("{:?}", f.out)))
                .collect::<Vec<_>>()
        );
        if hist.len() < 3 {
            hist.push(ctx.clone());
        }
        // (f) it always returns.
        let res = match res {
            Ok(r) => r,
            Err(_) => {
                out.violation("c13.hang", format!("call did not return within 120 virtual s: {ctx}"));
                break;
            }
        };
        if frames.len() > 1 {
            spec_started += frames.len() as u64 - 1;
        }
        // Page requests of the multi-page iterator are speculated one by one: the
        // structural clauses are judged per page request.
        let groups: Vec<(u64, Vec<Frame>)> = if api == 4 {
            let mut g: BTreeMap<u64, Vec<Frame>> = BTreeMap::new();
            for f in &frames {
                g.entry(f.page).or_default().push(f.clone());
            }
            g.into_iter().map(|(_, v)| (v.iter().map(|f| f.arrived).min().unwrap_or(t0), v)).collect()
        } else {
            vec![(t0, frames.clone())]
        };
        for (g0, frames) in &groups {
            let g0 = *g0;
            // (a) not idempotent: never in flight on two nodes at once.
            if !idempotent {
                for a in 0..frames.len() {
                    for b in a + 1..frames.len() {
                        let (x, y) = (&frames[a], &frames[b]);
                        if x.node != y.node && y.arrived < x.respond_at && x.arrived < y.respond_at {
                            out.violation(
                                "c13.nonidempotent_in_flight_twice",
                                format!("attempts {a} and {b} overlap on nodes {} and {}: {ctx}", x.node, y.node),
                            );
                        }
                    }
                }
            }
            if plan.fallthrough {
                // One attempt per fiber: frames are fibers.
                // (b) at most 1 + max executions, the k-th not before k*d.
                let allowed = if idempotent { 1 + plan.max_spec } else { 1 };
                if frames.len() > allowed {
                    out.violation(
                        "c13.too_many_executions",
                        format!("{} executions started (page offset {}), at most {allowed} allowed: {ctx}", frames.len(), frames[0].page),
                    );
                }
                for (k, f) in frames.iter().enumerate() {
                    // For a later page the reference instant is the arrival of its first
                    // execution (one latency after the fibers' common start).
                    let slack = if api == 4 { 4 * MS } else { MS };
                    if k >= 1 && f.arrived + slack < g0.saturating_add((k as u64).saturating_mul(plan.interval)) {
                        out.violation(
                            "c13.started_too_early",
                            format!("execution {k} reached its node {} ms after the (page) request started, before {k} x interval: {ctx}", (f.arrived - g0) / MS),
                        );
                    }
                }
            }
            // (c) no two executions use the same plan target - also when executions move on
            // to further targets (Default policy: every scripted failure is answered with
            // "next target", never "same target"): all executions of a request draw from
            // ONE plan, which names every node once.
            for a in 0..frames.len() {
                for b in a + 1..frames.len() {
                    if frames[a].node == frames[b].node {
                        out.violation(
                            "c13.same_target_twice",
                            format!("attempts {a} and {b} (page offset {}) both went to node {}: {ctx}", frames[a].page, frames[a].node),
                        );
                    }
                }
            }
        }
        if plan.fallthrough && api != 4 {
            // (d) first real answer wins. Margin: one-way latency (<= 1 ms) + timer granularity.
            let margin = 4 * MS;
            let real: Vec<&Frame> = frames
                .iter()
                .filter(|f| matches!(f.out, Out::Success | Out::Definitive(_)))
                .collect();
            if let Some(first) = real.iter().min_by_key(|f| f.respond_at) {
                let tied: Vec<&&Frame> = real.iter().filter(|f| f.respond_at <= first.respond_at + margin).collect();
                let want_ok = tied.iter().any(|f| f.out == Out::Success);
                let want_def = tied.iter().any(|f| matches!(f.out, Out::Definitive(_)));
                let got = match &res {
                    Ok(_) => "success",
                    Err((c, _)) => *c,
                };
                let acceptable = (got == "success" && want_ok) || (got == "definitive" && want_def);
                if !acceptable {
                    out.violation(
                        "c13.first_real_answer",
                        format!("call returned {got} but the earliest real answer(s) were {:?}: {ctx}", tied.iter().map(|f| f.out).collect::<Vec<_>>()),
                    );
                }
                if t1 > first.respond_at + margin + 2 * MS + if tied.len() > 1 { margin } else { 0 } {
                    out.violation(
                        "c13.returned_late",
                        format!("call returned {} ms after the first real answer was sent: {ctx}", (t1 - first.respond_at) / MS),
                    );
                }
                if t1 + margin < first.respond_at {
                    out.violation("c13.returned_early", format!("call returned before any real answer was sent: {ctx}"));
                }
                if let Ok(Err(e)) = &res {
                    out.violation("c13.attribution", e.clone());
                }
            } else if !frames.is_empty() {
                // (e) no real answer: the call fails with an ignorable error, not before
                // every started execution has finished.
                let last_done = frames.iter().map(|f| f.respond_at).max().unwrap();
                match &res {
                    Ok(_) => out.violation("c13.success_from_nothing", format!("call succeeded without any successful attempt: {ctx}")),
                    Err((c, text)) => {
                        if *c != "ignorable" && *c != "pool" && *c != "empty_plan" {
                            out.violation("c13.last_error", format!("call failed with a {c} error ({text}) but all attempts ended with ignorable errors: {ctx}"));
                        }
                        // "...the LAST error": the one of the execution that finished last
                        // (any of those finishing within the margin of it; not judged if a
                        // reset is among them - its error carries no tag).
                        let tied: Vec<usize> = (0..frames.len()).filter(|k| frames[*k].respond_at + margin >= last_done).collect();
                        let all_tagged = tied.iter().all(|k| matches!(frames[*k].out, Out::Ignorable(_)));
                        if *c == "ignorable" && all_tagged && text.contains("ignorable#") && !tied.iter().any(|k| text.contains(&format!("ignorable#{k}#"))) {
                            out.violation(
                                "c13.last_error",
                                format!("call failed with the error of an earlier execution ({}) although execution(s) {tied:?} finished last: {ctx}", text.chars().take(200).collect::<String>()),
                            );
                        }
                    }
                }
                // "...and none may still be started": with every pool healthy (no reset
                // so far in this run) the plan has one target per node, so giving up
                // with fewer than min(1 + max, nodes) executions started is too early.
                let resets_so_far = world::world().faults.get(&Fault::Rst).copied().unwrap_or(0);
                let could_start = if idempotent { (1 + plan.max_spec).min(plan.nodes) } else { 1 };
                if resets_so_far == 0 && frames.len() < could_start {
                    out.violation(
                        "c13.gave_up_early",
                        format!("call failed after {} executions although {could_start} could be started: {ctx}", frames.len()),
                    );
                }
                if t1 + margin < last_done {
                    out.violation(
                        "c13.returned_before_all_finished",
                        format!("call returned {} ms before the last started execution finished: {ctx}", (last_done - t1) / MS),
                    );
                }
            }
        }
        // The scripted answers (and resets) of this request may still be pending
        // on the nodes after the call returned; let all of them happen, and be
        // noticed by the pools, before the next request starts, so that a late
        // reset cannot destroy an attempt of the next request.
        let last = frames.iter().map(|f| f.respond_at).max().unwrap_or(0);
        let now = world::now_ns();
        world::sleep_ns(last.saturating_sub(now) + 100 * MS).await;
    }
    world::sleep_ns(SEC).await;
    out.nontrivial = spec_started > 0;
    out.count("speculative_executions_seen", spec_started);
    out.count("runs_with_interval_zero", (plan.interval == 0) as u64);
    out.count("runs_with_interval_never", (plan.interval == u64::MAX) as u64);
    out.sample = json!({"nodes": plan.nodes, "max": plan.max_spec, "interval_ms": plan.interval / MS, "fallthrough": plan.fallthrough, "histories": hist});
    out
}
