//! C14 - prepared statements survive server-side eviction transparently and
//! faithfully; rows are decoded with the right result metadata.

use crate::client::{self, SessionCfg, expected_cql};
use crate::cluster::{Cluster, Reply, ReqInfo, Script, StmtDef, Strategy, default_rows};
use crate::harness::{Outcome, SimSetup, run_sim};
use crate::runner::RunRequest;
use crate::tape;
use crate::wire::{BatchStmt, CType, QueryParams, Request, Value as WVal, col};
use crate::world::{self, ConnId, Fault, MS, NetCfg, SEC, World};
use scylla::client::PoolSize;
use scylla::policies::retry::DefaultRetryPolicy;
use scylla::statement::batch::Batch;
use scylla::value::{CqlValue, Row};
use serde_json::{Value, json};
use std::any::Any;
use std::collections::BTreeMap;
use std::num::NonZeroUsize;
use std::sync::{Arc, Mutex};
use std::time::Duration;

const SEL: &str = client::Q_PREPARED_SELECT;
const INS: &str = client::Q_PREPARED_INSERT;
const UPD: &str = client::Q_PREPARED_UPDATE;
/// A conditional insert: prepared WITHOUT result columns, answered with one "[applied]" row.
const LWT: &str = "INSERT INTO ks1.t1 (pk, m) VALUES (?, ?) IF NOT EXISTS";
/// Marker flag of paged executions: the SELECT yields 3 rows, read with page size 1.
const F_PAGED: u64 = 4;

#[derive(Debug, Clone, PartialEq)]
enum Answer {
    Unprepared,
    /// Rows encoded under this schema version; whether metadata was sent along.
    Rows { version: u32, with_metadata: bool },
    Void,
    Other,
}

#[derive(Debug, Clone)]
struct ExecRec {
    seq: u64,
    t: u64,
    conn: ConnId,
    node: usize,
    marker: Option<u64>,
    is_batch: bool,
    /// Statement text (by the observer's id map); empty for batches / unknown ids.
    text: String,
    id: Vec<u8>,
    presented_md_id: Option<Vec<u8>>,
    values: Vec<WVal>,
    consistency: u16,
    serial: Option<u16>,
    page_size: Option<i32>,
    paging_state: Option<Vec<u8>>,
    timestamp: Option<i64>,
    answer: Answer,
}

#[derive(Debug, Clone)]
struct PrepRec {
    seq: u64,
    t: u64,
    conn: ConnId,
    text: String,
    id: Vec<u8>,
    md_id: Vec<u8>,
    version: u32,
}

#[derive(Default)]
struct C14Script {
    execs: Vec<ExecRec>,
    preps: Vec<PrepRec>,
    /// (time, version, metadata id) announced to the client for SEL, by PREPARED or by Rows with a new id.
    announced: Vec<(u64, u32, Vec<u8>)>,
    /// Result columns of SEL per schema version.
    versions: BTreeMap<u32, Vec<crate::wire::ColSpec>>,
    workload_started: bool,
    /// Paged executions whose statement was already evicted between two of its pages.
    evicted_mid_paging: std::collections::BTreeSet<u64>,
}

fn params_of(req: &Request) -> Option<(&Vec<u8>, Option<&Vec<u8>>, &QueryParams)> {
    match req {
        Request::Execute { id, result_metadata_id, params } => Some((id, result_metadata_id.as_ref(), params)),
        _ => None,
    }
}

impl Script for C14Script {
    fn on_user_request(&mut self, w: &mut World, rq: &ReqInfo, req: &Request) -> Reply {
        // Eviction between two pages of a paged execution (once per execution, 1 in 3):
        // the node forgets the statement right before it handles the request for a
        // further page, so that request is answered UNPREPARED.
        if let (Request::Execute { id, params, .. }, Some(m)) = (req, rq.marker) {
            if m & F_PAGED != 0
                && params.paging_state.is_some()
                && !self.evicted_mid_paging.contains(&m)
                && tape::chance("c14:evict_mid_paging", 1, 3)
                && w.cluster.nodes[rq.node].prepared.remove(id).is_some()
            {
                self.evicted_mid_paging.insert(m);
                w.fault(Fault::Evict);
                w.probe("evicted_between_pages");
                w.log(&format!("evict_mid_paging node={} marker={m}", rq.node));
            }
        }
        // A BATCH may find (some of) its statements evicted on arrival - also the ones the
        // driver prepared on the fly just before sending the batch.
        if let (Request::Batch(b), Some(m)) = (req, rq.marker) {
            if !self.evicted_mid_paging.contains(&m) && tape::chance("c14:evict_on_batch", 1, 5) {
                self.evicted_mid_paging.insert(m);
                let mut any = false;
                for (st, _) in &b.statements {
                    if let BatchStmt::Prepared(id) = st {
                        any |= w.cluster.nodes[rq.node].prepared.remove(id).is_some();
                        if tape::chance("c14:evict_on_batch_first_only", 1, 2) {
                            break;
                        }
                    }
                }
                if any {
                    w.fault(Fault::Evict);
                    w.probe("evicted_on_batch_arrival");
                }
            }
        }
        Reply::Default
    }
    fn rows_for(&mut self, _w: &mut World, rq: &ReqInfo, stmt: &StmtDef) -> Vec<Vec<crate::wire::Cell>> {
        let rows = default_rows(stmt, rq.marker);
        if rq.marker.map(|m| m & F_PAGED != 0).unwrap_or(false) {
            return vec![rows[0].clone(), rows[0].clone(), rows[0].clone()];
        }
        rows
    }
    fn after_builtin(&mut self, w: &mut World, rq: &ReqInfo, req: &Request) {
        let node = rq.node;
        match req {
            Request::Prepare { text } => {
                if let Some(idx) = w.cluster.find_stmt(text) {
                    let stmt = &w.cluster.catalog[idx];
                    let id = w.cluster.stmt_id(text);
                    let md_id = w.cluster.result_metadata_id(stmt);
                    if text == SEL {
                        // What counts as "announced" for decoding with omitted metadata: the
                        // caller's own preparation, or anything carrying a metadata id.
                        // A PREPARED answer to an internal re-preparation without the
                        // metadata-id extension carries no id and the driver keeps its
                        // cached metadata (CQL v4 cannot signal the change), so it is not
                        // counted as an announcement.
                        if !self.workload_started || w.conns[rq.conn].cql.metadata_id_ext {
                            self.announced.push((rq.t, stmt.schema_version, md_id.clone()));
                        }
                        self.versions.insert(stmt.schema_version, stmt.result_cols.clone());
                    }
                    self.preps.push(PrepRec {
                        seq: rq.seq,
                        t: rq.t,
                        conn: rq.conn,
                        text: text.clone(),
                        id,
                        md_id,
                        version: stmt.schema_version,
                    });
                }
            }
            Request::Execute { .. } => {
                let (id, md, p) = params_of(req).unwrap();
                let known = w.cluster.nodes[node].prepared.contains_key(id);
                let answer = if !known {
                    Answer::Unprepared
                } else {
                    match w.last_rows_answer {
                        Some((version, with_metadata)) => {
                            if with_metadata && w.conns[rq.conn].cql.metadata_id_ext {
                                // Rows with metadata and a new id announce that version.
                                if let Some(idx) = w.cluster.find_stmt(SEL) {
                                    let stmt = &w.cluster.catalog[idx];
                                    if w.cluster.nodes[node].prepared.get(id).map(|t| t == SEL).unwrap_or(false) {
                                        let md_id = w.cluster.result_metadata_id(stmt);
                                        self.announced.push((rq.t, version, md_id));
                                    }
                                }
                            }
                            Answer::Rows { version, with_metadata }
                        }
                        None => Answer::Void,
                    }
                };
                self.execs.push(ExecRec {
                    seq: rq.seq,
                    t: rq.t,
                    conn: rq.conn,
                    node,
                    marker: rq.marker,
                    is_batch: false,
                    text: w.cluster.all_ids.get(id).cloned().unwrap_or_default(),
                    id: id.clone(),
                    presented_md_id: md.cloned(),
                    values: p.values.clone(),
                    consistency: p.consistency,
                    serial: p.serial_consistency,
                    page_size: p.page_size,
                    paging_state: p.paging_state.clone(),
                    timestamp: p.timestamp,
                    answer,
                });
            }
            Request::Batch(b) => {
                let first_unknown: Option<String> = b.statements.iter().find_map(|(s, _)| match s {
                    BatchStmt::Prepared(id) if !w.cluster.nodes[node].prepared.contains_key(id) => {
                        Some(w.cluster.all_ids.get(id).cloned().unwrap_or_default())
                    }
                    _ => None,
                });
                let unknown = first_unknown.is_some();
                let mut id = Vec::new();
                let mut values = Vec::new();
                for (s, v) in &b.statements {
                    if let BatchStmt::Prepared(i) = s {
                        id.extend_from_slice(i);
                    }
                    values.extend(v.iter().cloned());
                }
                self.execs.push(ExecRec {
                    seq: rq.seq,
                    t: rq.t,
                    conn: rq.conn,
                    node,
                    marker: rq.marker,
                    is_batch: true,
                    text: first_unknown.unwrap_or_else(|| INS.to_string()),
                    id,
                    presented_md_id: None,
                    values,
                    consistency: b.consistency,
                    serial: b.serial_consistency,
                    page_size: None,
                    paging_state: None,
                    timestamp: b.timestamp,
                    answer: if unknown { Answer::Unprepared } else { Answer::Void },
                });
            }
            _ => {}
        }
    }
    fn as_any(&mut self) -> &mut dyn Any {
        self
    }
}

#[derive(Clone, Debug)]
struct Plan {
    nodes: usize,
    md_ext: bool,
    use_cached: bool,
    callers: usize,
    per_caller: usize,
    chaos_events: usize,
    schema_changes: bool,
    id_change: bool,
    restarts: bool,
    /// All executions go through a CachingSession (its own cached statement handles).
    caching: bool,
}

pub fn run(req: &RunRequest) -> Value {
    run_sim(req, move || {
        let plan = Plan {
            nodes: tape::range("c14:nodes", 1, 4) as usize,
            md_ext: tape::chance("c14:md_ext", 1, 2),
            use_cached: tape::chance("c14:use_cached", 1, 2),
            callers: tape::range("c14:callers", 1, 6) as usize,
            per_caller: tape::range("c14:per_caller", 2, 8) as usize,
            chaos_events: tape::range("c14:chaos_events", 1, 10) as usize,
            schema_changes: tape::chance("c14:schema_changes", 1, 2),
            id_change: tape::chance("c14:id_change", 1, 6),
            restarts: tape::chance("c14:restarts", 1, 3),
            caching: tape::chance("c14:caching", 1, 4),
        };
        let mut cluster = Cluster::new("c14");
        for i in 0..plan.nodes {
            cluster.add_node("dc1", "r1", 0, vec![(i as i64) * 1000 - 2500]);
        }
        client::standard_catalog(&mut cluster, Strategy::Simple(plan.nodes.min(3)), false);
        cluster.catalog.push(StmtDef {
            shape: LWT.into(),
            ks: "ks1".into(),
            table: "t1".into(),
            kind: crate::cluster::StmtKind::Lwt,
            bind_cols: vec![col("ks1", "t1", "pk", CType::BigInt), col("ks1", "t1", "m", CType::BigInt)],
            pk_indexes: vec![0],
            result_cols: vec![col("ks1", "t1", "[applied]", CType::Boolean)],
            marker_bind: Some(1),
            schema_version: 0,
            id_version: 0,
        });
        cluster.features.metadata_id_ext = plan.md_ext;
        cluster.features.hidden_cols_same_id = tape::chance("c14:hidden_cols_same_id", 1, 2);
        // 1 in 3 multi-node runs with the extension: one node does not offer it (rolling
        // upgrade) - what the client may ask of a node depends on the connection.
        if plan.md_ext && plan.nodes >= 2 && tape::chance("c14:mixed_md_ext", 1, 3) {
            cluster.features.metadata_id_ext_except = vec![tape::choose("c14:node_without_md_ext", plan.nodes as u64) as usize];
        }
        cluster.features.metadata_despite_skip_permille = [0, 250][tape::choose("c14:md_despite_skip", 2) as usize];
        cluster.think_min = 0;
        cluster.think_max = [MS, 20 * MS][tape::choose("c14:think", 2) as usize];
        let net = NetCfg {
            chaos_yield_permille: [0, 50][tape::choose("c14:chaos", 2) as usize],
            chunk_permille: [0, 300][tape::choose("c14:chunk", 2) as usize],
            ..NetCfg::default()
        };
        let setup = SimSetup {
            cluster,
            net,
            virt_cap: Duration::from_secs(1200),
            world_oracles: vec![],
            panic_is_violation: true,
            rlimit_as: None,
            alloc_limit: None,
        };
        (setup, move || main(plan))
    })
}

/// One observation by a caller.
/// Markers (caller, step) at which a caller replaced its SELECT handle by preparing again.
static REPREPARED_AT: Mutex<Vec<u64>> = Mutex::new(Vec::new());

struct Obs {
    marker: u64,
    t_invoke: u64,
    t_done: u64,
    kind: u8, // 0 select, 1 insert, 2 batch, 3 paged select
    /// Decoded (column name, type debug, value) per row, or the error.
    result: Result<Vec<Vec<(String, Option<CqlValue>)>>, String>,
}

async fn main(plan: Plan) -> Outcome {
    let mut out = Outcome::default();
    REPREPARED_AT.lock().unwrap().clear();
    {
        let mut w = world::world();
        w.script = Some(Box::new(C14Script::default()));
    }
    let cfg = SessionCfg {
        contact_nodes: vec![0],
        pool: PoolSize::PerHost(NonZeroUsize::new(tape::range("c14:pool", 1, 2) as usize).unwrap()),
        retry: Some(Arc::new(DefaultRetryPolicy::new())),
        request_timeout: Some(Duration::from_secs(30)),
        compression: client::draw_compression(),
        // 1 in 3 runs a client-side timestamp generator is configured: a repeated request
        // carries the timestamp of the original, not a fresh one.
        timestamp_generator: tape::chance("c14:timestamp_generator", 1, 3),
        ..SessionCfg::default()
    };
    out.count("runs_with_timestamp_generator", cfg.timestamp_generator as u64);
    let session = match client::build_session(&cfg).await {
        Ok(s) => Arc::new(s),
        Err(e) => {
            out.inconclusive = Some(format!("session: {e}"));
            return out;
        }
    };
    world::sleep_ns(400 * MS).await;
    let (Ok(mut sel), Ok(mut ins), Ok(upd)) = (session.prepare(SEL).await, session.prepare(INS).await, session.prepare(UPD).await) else {
        out.inconclusive = Some("prepare failed".into());
        return out;
    };
    let upd = Arc::new(upd);
    let lwt = match session.prepare(LWT).await {
        Ok(mut p) => {
            p.set_use_cached_result_metadata(plan.use_cached);
            Some(Arc::new(p))
        }
        Err(_) => None,
    };
    // In caching runs every execution goes through a CachingSession whose cache is
    // warmed here (its preparations are the callers' own, before the workload starts).
    let caching: Option<Arc<scylla::client::caching_session::CachingSession>> = if plan.caching {
        let cs = scylla::client::caching_session::CachingSessionBuilder::new_shared(session.clone())
            .max_capacity(16)
            .use_cached_result_metadata(plan.use_cached)
            .build();
        for t in [SEL, INS, UPD] {
            if cs.add_prepared_statement(&scylla::statement::Statement::new(t)).await.is_err() {
                out.inconclusive = Some("caching prepare failed".into());
                return out;
            }
        }
        out.count("caching_session_runs", 1);
        Some(Arc::new(cs))
    } else {
        None
    };
    let idem = |t: &str| {
        let mut st = scylla::statement::Statement::new(t);
        st.set_is_idempotent(true);
        st
    };
    {
        let mut w = world::world();
        let mut s = w.script.take().unwrap();
        s.as_any().downcast_mut::<C14Script>().unwrap().workload_started = true;
        w.script = Some(s);
    }
    sel.set_is_idempotent(true);
    ins.set_is_idempotent(true);
    sel.set_use_cached_result_metadata(plan.use_cached);
    let sel = Arc::new(sel);
    let ins = Arc::new(ins);

    // Chaos: evictions, schema changes, restarts, id change, at seeded instants.
    let span = 40 * MS * (plan.per_caller as u64 + 2);
    let mut chaos = Vec::new();
    for _ in 0..plan.chaos_events {
        let at = tape::range("c14:chaos_at", 0, span);
        let kind = tape::weighted(
            "c14:chaos_kind",
            &[
                5,
                if plan.schema_changes { 3 } else { 0 },
                if plan.restarts { 2 } else { 0 },
                if plan.id_change { 1 } else { 0 },
                2,
            ],
        );
        let node = tape::choose("c14:chaos_node", plan.nodes as u64) as usize;
        let which = tape::choose("c14:chaos_stmt", 2);
        chaos.push((at, kind, node, which));
    }
    chaos.sort();
    let chaos_task = tokio::spawn(async move {
        let t0 = world::now_ns();
        for (at, kind, node, which) in chaos {
            let now = world::now_ns() - t0;
            if at > now {
                world::sleep_ns(at - now).await;
            }
            let text = if which == 0 { SEL } else { INS };
            if kind == 2 {
                world::world().crash_node(node);
                world::sleep_ns(20 * MS).await;
                world::world().restart_node(node, None);
                continue;
            }
            let mut w = world::world();
            match kind {
                4 => {
                    // The node's whole prepared cache is flushed (cache thrash).
                    let n = w.cluster.nodes[node].prepared.len();
                    w.cluster.nodes[node].prepared.retain(|_, t| crate::cluster::split_marker(t).0.to_ascii_lowercase().contains(" from system"));
                    if w.cluster.nodes[node].prepared.len() < n {
                        w.fault(Fault::Evict);
                        w.log(&format!("evict_all node={node}"));
                    }
                }
                0 => {
                    let id = w.cluster.stmt_id(text);
                    if w.cluster.nodes[node].prepared.remove(&id).is_some() {
                        w.fault(Fault::Evict);
                        w.log(&format!("evict node={node} stmt={which}"));
                    }
                }
                1 => {
                    let idx = w.cluster.find_stmt(SEL).unwrap();
                    let v = w.cluster.catalog[idx].schema_version + 1;
                    let newcol = match v % 3 {
                        1 => col("ks1", "t1", &format!("w{v}"), CType::Text),
                        2 => col("ks1", "t1", &format!("x{v}"), CType::Int),
                        _ => col("ks1", "t1", &format!("y{v}"), CType::List(Box::new(CType::BigInt))),
                    };
                    // New columns are inserted in front or appended (SELECT * order changes),
                    // or - keeping the column count - the last column is replaced by one of
                    // another name and type (dropped and re-added).
                    let n_cols = w.cluster.catalog[idx].result_cols.len();
                    if n_cols >= 2 && tape::chance("c14:schema_same_count", 1, 3) {
                        w.cluster.catalog[idx].result_cols[n_cols - 1] = newcol;
                        w.probe("schema_change_same_column_count");
                    } else if v % 2 == 0 {
                        w.cluster.catalog[idx].result_cols.insert(0, newcol);
                    } else {
                        w.cluster.catalog[idx].result_cols.push(newcol);
                    }
                    w.cluster.catalog[idx].schema_version = v;
                    let cols = w.cluster.catalog[idx].result_cols.clone();
                    let mut s = w.script.take().unwrap();
                    s.as_any().downcast_mut::<C14Script>().unwrap().versions.insert(v, cols);
                    w.script = Some(s);
                    w.fault(Fault::SchemaChange);
                    w.log(&format!("schema_change version={v}"));
                }
                _ => {
                    let idx = w.cluster.find_stmt(text).unwrap();
                    w.cluster.catalog[idx].id_version += 1;
                    // The old id is gone everywhere.
                    for n in w.cluster.nodes.iter_mut() {
                        n.prepared.retain(|_, t| t != text);
                    }
                    w.fault(Fault::IdChange);
                    w.log(&format!("id_change stmt={which}"));
                }
            }
        }
    });

    let mut handles = Vec::new();
    for c in 0..plan.callers {
        let session = session.clone();
        let sel = sel.clone();
        let ins = ins.clone();
        let upd = upd.clone();
        let caching = caching.clone();
        let per = plan.per_caller;
        let gaps: Vec<u64> = (0..per).map(|_| tape::range("c14:gap", 0, 60) * MS).collect();
        let kinds: Vec<u8> = (0..per).map(|_| tape::weighted("c14:kind", &[5, 2, 2, 2, 1, 2]) as u8).collect();
        let lwt = lwt.clone();
        let use_cached = plan.use_cached;
        handles.push(tokio::spawn(async move {
            let mut obs = Vec::new();
            // A caller may prepare the SELECT again in the middle of the run and go on with
            // the new handle (whose cached metadata is the one current at that time).
            let mut sel = sel;
            for k in 0..per {
                world::sleep_ns(gaps[k]).await;
                let kind = kinds[k];
                let m = ((c * 100 + k) as u64 + 1) * 16 + if kind == 3 { F_PAGED } else { 0 };
                let t_invoke = world::now_ns();
                let decode = |qr: scylla::response::query_result::QueryResult| -> Result<Vec<Vec<(String, Option<CqlValue>)>>, String> {
                    if !qr.is_rows() {
                        return Ok(vec![]);
                    }
                    let rr = qr.into_rows_result().map_err(|e| e.to_string())?;
                    let names: Vec<String> = rr.column_specs().iter().map(|s| s.name().to_string()).collect();
                    let mut rows = Vec::new();
                    for r in rr.rows::<Row>().map_err(|e| e.to_string())? {
                        let r = r.map_err(|e| e.to_string())?;
                        rows.push(names.iter().cloned().zip(r.columns.into_iter()).collect());
                    }
                    Ok(rows)
                };
                if kind == 5 {
                    // The conditional insert: its "[applied]" row must be decoded although
                    // the statement was prepared without result columns.
                    if let Some(p) = &lwt {
                        let r = session.execute_unpaged(p, (k as i64, m as i64)).await.map_err(|e| client::short_err(&e)).and_then(decode);
                        obs.push(Obs { marker: m, t_invoke, t_done: world::now_ns(), kind, result: r });
                    }
                    continue;
                }
                if kind == 4 {
                    if let Ok(mut p) = session.prepare(SEL).await {
                        p.set_is_idempotent(true);
                        p.set_use_cached_result_metadata(use_cached);
                        sel = Arc::new(p);
                        REPREPARED_AT.lock().unwrap().push(m);
                        world::world().probe("select_prepared_again_by_caller");
                    }
                    continue;
                }
                let result = match (kind, &caching) {
                    (0, Some(cs)) => cs
                        .execute_unpaged(idem(SEL), (k as i64, m as i64))
                        .await
                        .map_err(|e| client::short_err(&e))
                        .and_then(decode),
                    (1, Some(cs)) => cs
                        .execute_unpaged(idem(INS), (k as i64, m as i64))
                        .await
                        .map_err(|e| client::short_err(&e))
                        .and_then(decode),
                    (2, Some(cs)) => {
                        let mut b = Batch::default();
                        b.append_statement(idem(INS));
                        b.append_statement(idem(UPD));
                        b.set_is_idempotent(true);
                        cs.batch(&b, ((1i64, m as i64), (2i64, m as i64)))
                            .await
                            .map_err(|e| client::short_err(&e))
                            .and_then(decode)
                    }
                    (0, None) => session
                        .execute_unpaged(&sel, (k as i64, m as i64))
                        .await
                        .map_err(|e| client::short_err(&e))
                        .and_then(decode),
                    (1, None) => session
                        .execute_unpaged(&ins, (k as i64, m as i64))
                        .await
                        .map_err(|e| client::short_err(&e))
                        .and_then(decode),
                    (2, None) => {
                        let mut b = Batch::default();
                        // 1 in 3: the first statement is given as text with values - the
                        // driver prepares it on the connection right before the BATCH.
                        if m / 16 % 3 == 0 {
                            b.append_statement(idem(INS));
                        } else {
                            b.append_statement((*ins).clone());
                        }
                        b.append_statement((*upd).clone());
                        b.set_is_idempotent(true);
                        session
                            .batch(&b, ((1i64, m as i64), (2i64, m as i64)))
                            .await
                            .map_err(|e| client::short_err(&e))
                            .and_then(decode)
                    }
                    (_, cs) => {
                        use futures::StreamExt;
                        let pager = match cs {
                            Some(cs) => {
                                let mut st = idem(SEL);
                                st.set_page_size(1);
                                cs.execute_iter(st, (k as i64, m as i64)).await
                            }
                            None => {
                                let mut p = (*sel).clone();
                                p.set_page_size(1);
                                session.execute_iter(p, (k as i64, m as i64)).await
                            }
                        };
                        match pager {
                            Err(e) => Err(format!("{e}").chars().take(120).collect()),
                            Ok(pager) => match pager.rows_stream::<Row>() {
                                Err(e) => Err(e.to_string()),
                                Ok(mut st) => {
                                    let mut rows = Vec::new();
                                    let mut err = None;
                                    while let Some(r) = st.next().await {
                                        match r {
                                            Ok(r) => rows.push(r.columns.into_iter().map(|c| (String::new(), c)).collect()),
                                            Err(e) => {
                                                err = Some(format!("{e}").chars().take(120).collect::<String>());
                                                break;
                                            }
                                        }
                                    }
                                    match err {
                                        Some(e) => Err(e),
                                        None => Ok(rows),
                                    }
                                }
                            },
                        }
                    }
                };
                obs.push(Obs {
                    marker: m,
                    t_invoke,
                    t_done: world::now_ns(),
                    kind,
                    result,
                });
            }
            obs
        }));
    }
    let mut obs: Vec<Obs> = Vec::new();
    for h in handles {
        match tokio::time::timeout(Duration::from_secs(600), h).await {
            Ok(Ok(o)) => obs.extend(o),
            Ok(Err(e)) => out.violation("c14.client_task", format!("client task failed: {e}")),
            Err(_) => out.violation("c14.hang", "caller did not finish within 600 virtual s".into()),
        }
    }
    let _ = chaos_task.await;
    world::sleep_ns(2 * SEC).await;
    // Quiescence: one more execution; afterwards the presented metadata id must be the latest.
    let id_changed = {
        let w = world::world();
        w.faults.get(&Fault::IdChange).copied().unwrap_or(0) > 0
    };
    let mq = 999_999u64 * 16;
    let mut final_ok = false;
    if !id_changed {
        for _ in 0..3 {
            let r = match &caching {
                Some(cs) => cs.execute_unpaged(idem(SEL), (0i64, mq as i64)).await,
                None => session.execute_unpaged(&sel, (0i64, mq as i64)).await,
            };
            if r.is_ok() {
                final_ok = true;
            }
            world::sleep_ns(100 * MS).await;
        }
    }

    // ---- oracles over the recorded history --------------------------------
    let (execs, preps, announced, versions, conns_closed) = {
        let mut w = world::world();
        let mut s = w.script.take().unwrap();
        let sc = s.as_any().downcast_mut::<C14Script>().unwrap();
        let r = (sc.execs.clone(), sc.preps.clone(), sc.announced.clone(), sc.versions.clone(), ());
        w.script = Some(s);
        r
    };
    let _ = conns_closed;
    let conn_alive_at = |conn: ConnId| -> bool {
        let w = world::world();
        !w.conns[conn].srv_closed && !w.conns[conn].client_closed
    };
    let mut unprepared_seen = 0u64;
    let mut reexecuted = 0u64;
    let mut reexec_md_checked = 0u64;
    // (a) UNPREPARED => PREPARE of the same text on the same connection, then an identical EXECUTE/BATCH.
    for (i, e) in execs.iter().enumerate() {
        if e.answer != Answer::Unprepared || (e.text != SEL && e.text != INS && e.text != UPD) {
            continue;
        }
        // A second UNPREPARED in a row for the same request on the same connection
        // (evicted again between re-preparation and re-execution) is judged by
        // c14.second_unprepared_surfaces, not here.
        let is_repeat = !e.is_batch
            && execs[..i]
                .iter()
                .rev()
                .find(|x| x.conn == e.conn && x.marker == e.marker && !x.is_batch)
                .map(|x| x.answer == Answer::Unprepared)
                .unwrap_or(false);
        if is_repeat {
            continue;
        }
        unprepared_seen += 1;
        let alive = conn_alive_at(e.conn);
        let prep = preps.iter().find(|p| p.conn == e.conn && p.seq > e.seq && p.text == e.text);
        let next = execs[i + 1..]
            .iter()
            .find(|x| x.conn == e.conn && x.marker == e.marker && x.is_batch == e.is_batch);
        let ctx = format!(
            "marker {:?} conn {} node {} batch={} id={:02x?} then prepare={:?} next={:?}",
            e.marker,
            e.conn,
            e.node,
            e.is_batch,
            &e.id[..4.min(e.id.len())],
            prep.map(|p| (&p.text, p.id == e.id || e.is_batch)),
            next.map(|n| format!("{:?}", n.answer))
        );
        match (prep, next) {
            (None, _) if alive => out.violation("c14.no_reprepare", format!("UNPREPARED was not followed by a PREPARE on the same connection: {ctx}")),
            // With concurrent callers the first PREPARE seen after the UNPREPARED may be
            // another caller's; if any later PREPARE of this text on the connection
            // returned another id, this request's own re-preparation may be that one.
            (Some(p), None)
                if alive
                    && e.id.windows(p.id.len()).any(|w| w == &p.id[..])
                    && !preps.iter().any(|q| {
                        q.conn == e.conn
                            && q.seq > e.seq
                            && q.text == e.text
                            && !e.id.windows(q.id.len()).any(|w| w == &q.id[..])
                    }) =>
            {
                out.violation("c14.no_reexecution", format!("re-prepared but the request was not repeated on the connection: {ctx}"))
            }
            (Some(p), Some(n)) => {
                if !e.id.windows(p.id.len()).any(|w| w == &p.id[..]) {
                    // (b) id changed: no execution may follow with old values.
                    out.violation("c14.executed_after_id_change", format!("re-preparation returned another id but an EXECUTE followed: {ctx}"));
                } else {
                    reexecuted += 1;
                    let same = n.id == e.id
                        && n.values == e.values
                        && n.consistency == e.consistency
                        && n.serial == e.serial
                        && n.page_size == e.page_size
                        && n.paging_state == e.paging_state
                        && n.timestamp == e.timestamp;
                    // The repeated EXECUTE presents the result metadata id its re-preparation
                    // announced (or a later one), never an older one - unless an older
                    // announcement was still on its way to the client at that time.
                    if e.text == SEL && !e.is_batch && world::world().conns[e.conn].cql.metadata_id_ext {
                        if let Some(md) = n.presented_md_id.as_ref().filter(|m| !m.is_empty()) {
                            let presented_version = announced.iter().find(|a| &a.2 == md).map(|a| a.1);
                            let older_in_flight = announced
                                .iter()
                                .any(|a| a.1 < p.version && a.0 + 60 * MS >= p.t && a.0 <= n.t);
                            if let Some(v) = presented_version {
                                if v < p.version && !older_in_flight {
                                    out.violation(
                                        "c14.reexecution_presents_older_metadata_id",
                                        format!("the re-preparation announced result metadata version {} but the repeated EXECUTE presented the id of version {v}: {ctx}", p.version),
                                    );
                                }
                                reexec_md_checked += 1;
                            }
                        }
                    }
                    if !same {
                        out.violation(
                            "c14.reexecution_differs",
                            format!(
                                "repeated request differs from the original (id {} values {} cl {} serial {} page_size {} paging_state {} timestamp {}): {ctx}",
                                n.id == e.id,
                                n.values == e.values,
                                n.consistency == e.consistency,
                                n.serial == e.serial,
                                n.page_size == e.page_size,
                                n.paging_state == e.paging_state,
                                n.timestamp == e.timestamp
                            ),
                        );
                    }
                }
            }
            _ => {}
        }
    }
    // (d) every presented metadata id was announced by the mock (or is empty).
    for e in &execs {
        if let Some(md) = &e.presented_md_id {
            let is_sel = preps.iter().any(|p| p.text == SEL && p.id == e.id);
            if is_sel && !md.is_empty() && !announced.iter().any(|(_, _, id)| id == md) {
                out.violation("c14.unknown_metadata_id", format!("EXECUTE presented a result metadata id the server never announced: marker {:?}", e.marker));
            }
        }
    }
    // (d2) "...a new metadata id, which is also what the next execution presents": when an
    // execution of the SELECT by caller c was answered, on a connection with the extension,
    // with rows, their metadata and a new metadata id X, the next execution of the SELECT by
    // c that starts on such a connection presents X - or an id announced after X -, never
    // an older or an empty one. Not
    // judged across a re-preparation of c's handle (by c, or by the driver after UNPREPARED).
    // Judged in single-caller runs only: with concurrent callers sharing a handle, which of
    // two announcements the client processed last is decided by arrival order.
    if plan.md_ext && caching.is_none() && plan.callers == 1 {
        let id_of = |version: u32| announced.iter().find(|a| a.1 == version).map(|a| a.2.clone());
        let reprepared = REPREPARED_AT.lock().unwrap().clone();
        let mut by_caller: BTreeMap<u64, Vec<&Obs>> = BTreeMap::new();
        for o in obs.iter().filter(|o| o.kind == 0 || o.kind == 3) {
            by_caller.entry((o.marker / 16 - 1) / 100).or_default().push(o);
        }
        for (c, list) in by_caller {
            // (announced at, id) the caller's handle must know of.
            let mut expect: Option<(u64, Vec<u8>)> = None;
            let mut prev_marker = 0u64;
            for o in list {
                if reprepared.iter().any(|m| (m / 16 - 1) / 100 == c && *m > prev_marker && *m < o.marker) {
                    expect = None;
                }
                prev_marker = o.marker;
                let frames: Vec<&ExecRec> = execs.iter().filter(|e| e.marker == Some(o.marker) && !e.is_batch).collect();
                if let (Some((t_x, x)), Some(first)) = (&expect, frames.first()) {
                    if world::world().conns[first.conn].cql.metadata_id_ext {
                        let presented = first.presented_md_id.clone().unwrap_or_default();
                        let fine = &presented == x || announced.iter().any(|a| a.0 >= *t_x && a.2 == presented);
                        if !fine {
                            out.violation(
                                "c14.announced_id_not_presented",
                                format!(
                                    "caller {c}: an earlier execution of the SELECT was answered with a new result metadata id ({:02x?}..), but the execution marker {} presents {:02x?}..; SELECT executions of this caller (marker, conn, extension, presented id, answer): {:?}",
                                    &x[..x.len().min(2)],
                                    o.marker,
                                    &presented[..presented.len().min(2)],
                                    execs
                                        .iter()
                                        .filter(|e| !e.is_batch && e.text == SEL)
                                        .map(|e| (e.marker, e.conn, world::world().conns[e.conn].cql.metadata_id_ext, e.presented_md_id.as_ref().map(|i| i.iter().take(2).map(|b| format!("{b:02x}")).collect::<String>()), format!("{:?}", e.answer)))
                                        .collect::<Vec<_>>()
                                ),
                            );
                        }
                    }
                }
                // What the node sent counts only if the call got it: a call that failed (its
                // connection may have died with the answer on the way) leaves the handle's
                // knowledge open.
                if o.result.is_err() {
                    expect = None;
                    continue;
                }
                // ... and only the answer that completed the call certainly arrived (an
                // earlier attempt's answer may have been lost with its connection).
                if frames.iter().any(|e| e.answer == Answer::Unprepared) {
                    expect = None;
                }
                for e in frames.last() {
                    match e.answer {
                        Answer::Unprepared => expect = None,
                        Answer::Rows { version, with_metadata: true } if world::world().conns[e.conn].cql.metadata_id_ext => {
                            if let Some(id) = id_of(version) {
                                if e.presented_md_id.as_ref() != Some(&id) {
                                    expect = Some((e.t, id));
                                }
                            }
                        }
                        _ => {}
                    }
                }
            }
        }
    }
    // (d3) the same for the conditional insert, which is prepared without result columns: once
    // an execution on an extension connection was answered with the "[applied]" row, its
    // metadata and the metadata id, the caller's next execution that starts on an extension
    // connection presents that id (single-caller runs).
    if plan.md_ext && caching.is_none() && plan.callers == 1 {
        let real_id = {
            let w = world::world();
            w.cluster.find_stmt(LWT).map(|i| w.cluster.result_metadata_id(&w.cluster.catalog[i]))
        };
        if let Some(real_id) = real_id {
            let mut learnt = false;
            for o in obs.iter().filter(|o| o.kind == 5) {
                let frames: Vec<&ExecRec> = execs.iter().filter(|e| e.marker == Some(o.marker) && !e.is_batch).collect();
                if let Some(first) = frames.first() {
                    if learnt && world::world().conns[first.conn].cql.metadata_id_ext && first.presented_md_id.as_ref() != Some(&real_id) {
                        out.violation(
                            "c14.announced_id_not_presented",
                            format!(
                                "an earlier execution of the conditional insert was answered with its row, the row's metadata and the result metadata id, but the execution marker {} presents {:02x?}",
                                o.marker,
                                first.presented_md_id.as_ref().map(|i| i.iter().take(2).copied().collect::<Vec<u8>>())
                            ),
                        );
                    }
                }
                if o.result.is_err() {
                    learnt = false;
                    continue;
                }
                if frames.iter().any(|e| e.answer == Answer::Unprepared) {
                    learnt = false;
                }
                for e in frames.last() {
                    match e.answer {
                        Answer::Unprepared => learnt = false,
                        Answer::Rows { with_metadata: true, .. } | Answer::Void | Answer::Other if world::world().conns[e.conn].cql.metadata_id_ext && e.presented_md_id.as_ref() != Some(&real_id) => {
                            // (the mock attaches the id whenever the presented one differs)
                            learnt = matches!(e.answer, Answer::Rows { with_metadata: true, .. });
                        }
                        _ => {}
                    }
                }
            }
        }
    }
    // (Not in a cluster where some node lacks the extension: executions that happen to run
    // there teach the statement nothing, so "after quiescence" does not imply "caught up".)
    let mixed_cluster = !world::world().cluster.features.metadata_id_ext_except.is_empty();
    if final_ok && plan.md_ext && !mixed_cluster {
        if let (Some(last), Some(latest)) = (
            execs.iter().rev().find(|e| e.marker == Some(mq)),
            announced.last(),
        ) {
            if let Some(md) = &last.presented_md_id {
                if !md.is_empty() && md != &latest.2 {
                    out.violation("c14.stale_metadata_id_after_quiescence", "the last execution after quiescence did not present the latest announced metadata id".into());
                }
            }
        }
    }
    // (c) rows decoded under the right metadata.
    let mut rows_checked = 0u64;
    let mut lwt_checked = 0u64;
    let mut undetectable = 0u64;
    for o in &obs {
        if o.kind == 5 {
            if let Ok(rows) = &o.result {
                let want = vec![vec![("[applied]".to_string(), Some(CqlValue::Boolean(o.marker & 1 == 1)))]];
                if *rows != want {
                    out.violation(
                        "c14.rows_decoded_wrongly",
                        format!("marker {}: the conditional insert (prepared without result columns) was answered with one [applied] row but the caller decoded {:?}", o.marker, rows),
                    );
                }
                lwt_checked += 1;
            }
            continue;
        }
        if o.kind != 0 && o.kind != 3 {
            continue;
        }
        let rows = match &o.result {
            Ok(rows) => rows,
            Err(e) => {
                // When the server sent rows together with their metadata on a connection
                // that stayed alive, the caller must be able to decode them.
                let transport = ["roken", "onnection", "imed out", "imeout", "pool", "repared", "Unable to allocate"];
                if !transport.iter().any(|t| e.contains(t)) {
                    if let Some(last) = execs.iter().rev().find(|x| x.marker == Some(o.marker)) {
                        // A paged execution consumed several answers: any page sent without
                        // its metadata may be the one that could not be decoded.
                        let every_page_with_metadata = execs
                            .iter()
                            .filter(|x| x.marker == Some(o.marker))
                            .all(|x| !matches!(x.answer, Answer::Rows { with_metadata: false, .. }));
                        if every_page_with_metadata && matches!(last.answer, Answer::Rows { with_metadata: true, .. }) && conn_alive_at(last.conn) {
                            out.violation(
                                "c14.rows_undecodable",
                                format!("marker {}: the server answered with rows and their metadata but the caller got: {e}", o.marker),
                            );
                        }
                    }
                }
                continue;
            }
        };
        // The answer the caller consumed is the last Rows answer for its marker.
        let Some(last) = execs.iter().rev().find(|e| e.marker == Some(o.marker) && matches!(e.answer, Answer::Rows { .. })) else {
            if !rows.is_empty() {
                out.violation("c14.rows_from_nowhere", format!("marker {} returned rows but the server never sent any", o.marker));
            }
            continue;
        };
        let Answer::Rows { version, with_metadata } = last.answer else { continue };
        // A paged execution consumed several answers: judged only when all of them were
        // encoded under one schema version with the same metadata choice.
        if o.marker & F_PAGED != 0 {
            let mixed = execs.iter().any(|e| {
                e.marker == Some(o.marker) && matches!(e.answer, Answer::Rows { .. }) && e.answer != last.answer
            });
            if mixed {
                undetectable += 1;
                continue;
            }
        }
        let conn_ext = world::world().conns[last.conn].cql.metadata_id_ext;
        // On a connection with the extension the node omits the metadata exactly when the
        // id the client presented is the id of the version it encoded the rows with: the
        // client asked with that version's metadata in hand and must decode with it,
        // whatever it has learnt in the meantime from other answers.
        // (A paged execution consumed several answers, possibly over several connections:
        // the argument must hold for every one of them.)
        let presented_this_version = execs
            .iter()
            .filter(|e| e.marker == Some(o.marker) && matches!(e.answer, Answer::Rows { .. }))
            .all(|e| {
                world::world().conns[e.conn].cql.metadata_id_ext
                    && e.presented_md_id.as_ref().map(|md| announced.iter().any(|a| a.1 == version && &a.2 == md)).unwrap_or(false)
            });
        let conn_ext = conn_ext
            && execs
                .iter()
                .filter(|e| e.marker == Some(o.marker) && matches!(e.answer, Answer::Rows { .. }))
                .all(|e| world::world().conns[e.conn].cql.metadata_id_ext);
        let admissible = if with_metadata || presented_this_version {
            true
        } else if !conn_ext && !plan.use_cached {
            // Neither the extension (on this connection) nor the caller's opt-in allows
            // the client to ask for rows without their metadata: if it did, it answers
            // for decoding them right whatever the node encoded.
            true
        } else if !conn_ext && mixed_cluster {
            // Opted-in decoding with cached metadata on a connection without the extension:
            // what other nodes announced (to other statement objects) does not reach it.
            false
        } else {
            // Omitted as requested: decoded with what was most recently announced.
            // Admissible if the encoding version was announced, with no other
            // version announced after it before this call was submitted, or
            // announced while the call was running.
            // Announcement times are server-side; the client learns of them a
            // round trip later, so announcements shortly before the call count as
            // concurrent with it. Under concurrency either version is admissible
            // and nothing can be required; only the unambiguous case is checked.
            let margin = 60 * MS;
            let window_start = o.t_invoke.saturating_sub(margin);
            let last_before = announced.iter().filter(|a| a.0 < window_start).next_back().map(|a| a.1);
            let concurrent: Vec<u32> = announced
                .iter()
                .filter(|a| a.0 >= window_start && a.0 <= o.t_done)
                .map(|a| a.1)
                .collect();
            last_before == Some(version) && concurrent.iter().all(|v| *v == version)
        };
        if !admissible {
            undetectable += 1;
            continue;
        }
        let Some(cols) = versions.get(&version) else { continue };
        let stmt = StmtDef {
            shape: SEL.into(),
            ks: "ks1".into(),
            table: "t1".into(),
            kind: crate::cluster::StmtKind::Select,
            bind_cols: vec![],
            pk_indexes: vec![],
            result_cols: cols.clone(),
            marker_bind: None,
            schema_version: version,
            id_version: 0,
        };
        let mut logical = default_rows(&stmt, Some(o.marker));
        if o.marker & F_PAGED != 0 {
            logical = vec![logical[0].clone(), logical[0].clone(), logical[0].clone()];
        }
        let expected: Vec<Vec<(String, Option<CqlValue>)>> = logical
            .iter()
            .map(|r| {
                r.iter()
                    .zip(cols.iter())
                    .map(|(c, s)| (if o.kind == 0 { s.name.clone() } else { String::new() }, expected_cql(&s.typ, c)))
                    .collect()
            })
            .collect();
        rows_checked += 1;
        if *rows != expected {
            out.violation(
                "c14.rows_decoded_wrongly",
                format!(
                    "marker {} (kind {}): server encoded version {version} (metadata sent: {with_metadata}) but the caller decoded {:?}, expected {:?}; its requests (conn, node, metadata-id extension on that connection, presented id, answer): {:?}; announcements (ms, version): {:?}",
                    o.marker,
                    o.kind,
                    rows.first(),
                    expected.first(),
                    execs
                        .iter()
                        .filter(|e| e.marker == Some(o.marker))
                        .map(|e| (e.conn, e.node, world::world().conns[e.conn].cql.metadata_id_ext, e.presented_md_id.as_ref().map(|i| i.iter().take(2).map(|b| format!("{b:02x}")).collect::<String>()), format!("{:?}", e.answer)))
                        .collect::<Vec<_>>(),
                    announced.iter().map(|a| (a.0 / MS, a.1)).collect::<Vec<_>>()
                ),
            );
        }
    }
    // Transparency: an eviction alone must not surface as an error.
    let only_evictions = {
        let w = world::world();
        w.faults.keys().all(|k| matches!(k, Fault::Evict | Fault::Chunk | Fault::ChaosYield | Fault::SrvError))
    };
    if only_evictions {
        for o in &obs {
            if let Err(e) = &o.result {
                // How many UNPREPARED answers did this request get in a row on one connection?
                let ups: Vec<&ExecRec> = execs
                    .iter()
                    .filter(|x| x.marker == Some(o.marker) && x.answer == Answer::Unprepared)
                    .collect();
                let twice_on_one_conn = ups.len() >= 2 && ups.windows(2).any(|w| w[0].conn == w[1].conn);
                if twice_on_one_conn && ups.iter().all(|x| !x.is_batch) {
                    out.violation(
                        "c14.second_unprepared_surfaces",
                        format!("EXECUTE marker {} was answered UNPREPARED again right after its re-preparation (evicted in between) and the caller got: {e}", o.marker),
                    );
                } else {
                    out.violation("c14.eviction_not_transparent", format!("marker {} failed although only evictions happened: {e}", o.marker));
                }
            }
        }
    }
    out.nontrivial = unprepared_seen > 0 || versions.len() > 1;
    out.count("unprepared_answers", unprepared_seen);
    out.count("reexecutions_checked", reexecuted);
    out.count("reexecution_metadata_id_checked", reexec_md_checked);
    out.count("rows_checked", rows_checked);
    out.count("conditional_insert_rows_checked", lwt_checked);
    out.count("undetectable_schema_change_skipped", undetectable);
    out.count("schema_versions", versions.len() as u64);
    out.sample = json!({
        "nodes": plan.nodes, "md_ext": plan.md_ext, "use_cached": plan.use_cached, "callers": plan.callers,
        "per_caller": plan.per_caller, "unprepared": unprepared_seen, "reexecuted": reexecuted,
        "versions": versions.len(), "rows_checked": rows_checked, "executes": execs.len(), "prepares": preps.len(),
    });
    out
}
