//! C15 (end-to-end half) - tablet feedback from response payloads and topology
//! maintenance, observed through routing and ClusterState::get_token_endpoints.

use crate::client::{self, SessionCfg};
use crate::cluster::{
    Cluster, KeyspaceDef, Reply, ReqInfo, Script, StmtDef, StmtKind, Strategy, TableDef,
};
use crate::harness::{Outcome, SimSetup, run_sim};
use crate::model;
use crate::runner::RunRequest;
use crate::tape;
use crate::wire::{CType, Envelope, Request, Value as WVal, W, col};
use crate::world::{self, Fault, MS, NetCfg, SEC, World};
use scylla::client::PoolSize;
use scylla::client::execution_profile::ExecutionProfile;
use scylla::policies::load_balancing::DefaultPolicy;
use scylla::policies::retry::FallthroughRetryPolicy;
use scylla::routing::Token;
use serde_json::{Value, json};
use std::any::Any;
use std::collections::BTreeMap;
use std::num::NonZeroUsize;
use std::sync::Arc;
use std::time::Duration;

const TQ: &str = "SELECT v FROM kst.tt WHERE pk = ? AND m = ?";

/// A tablet as the server knows it / as it was sent: tokens (first_excl, last_incl].
#[derive(Debug, Clone, PartialEq)]
struct Tab {
    first_excl: i64,
    last: i64,
    replicas: Vec<(usize, u32)>,
}

fn payload(t: &Tab, host_ids: &[[u8; 16]]) -> Vec<u8> {
    let mut list = W::new();
    list.i32(t.replicas.len() as i32);
    for (n, s) in &t.replicas {
        let mut tu = W::new();
        tu.bytes(Some(&host_ids[*n]));
        tu.bytes(Some(&(*s as i32).to_be_bytes()));
        list.bytes(Some(&tu.buf));
    }
    let mut w = W::new();
    w.bytes(Some(&t.first_excl.to_be_bytes()));
    w.bytes(Some(&t.last.to_be_bytes()));
    w.bytes(Some(&list.buf));
    w.buf
}

/// Reference model of what the client has learnt: insert = delete every
/// overlapping tablet, then add (ranges are inclusive first_excl+1 ..= last).
fn learn(known: &mut Vec<Tab>, t: Tab) {
    let (a, b) = (t.first_excl.saturating_add(1), t.last);
    known.retain(|k| {
        let (ka, kb) = (k.first_excl.saturating_add(1), k.last);
        kb < a || ka > b
    });
    known.push(t);
    known.sort_by_key(|k| k.last);
}

fn lookup<'a>(tabs: &'a [Tab], token: i64) -> Option<&'a Tab> {
    tabs.iter().find(|t| token > t.first_excl && token <= t.last)
}

#[derive(Default)]
struct C15Script {
    layout: Vec<Tab>,
    host_ids: Vec<[u8; 16]>,
    /// What has been sent to the client so far (reference model).
    known: Vec<Tab>,
    /// marker -> (node, shard, token, the client's knowledge for that token BEFORE this response)
    first: BTreeMap<u64, (usize, Option<u32>, i64, Option<Tab>)>,
    payloads_sent: u64,
}

impl Script for C15Script {
    fn on_user_request(&mut self, _w: &mut World, rq: &ReqInfo, req: &Request) -> Reply {
        if let (Request::Execute { params, .. }, Some(m)) = (req, rq.marker) {
            if let Some(WVal::Bytes(pk)) = params.values.first() {
                let token = model::murmur3_token(pk);
                if !self.first.contains_key(&m) {
                    self.first.insert(m, (rq.node, rq.shard, token, lookup(&self.known, token).cloned()));
                    // Sometimes the node has just forgotten the statement when a request that
                    // would be answered with tablet feedback arrives: the first answer is
                    // UNPREPARED, and the feedback rides on the answer to the repeated EXECUTE.
                    if let Request::Execute { id, .. } = req {
                        let here = (rq.node, rq.shard.unwrap_or(0));
                        let feedback_due = lookup(&self.layout, token).map(|t| !t.replicas.contains(&here)).unwrap_or(false);
                        if feedback_due && tape::chance("c15:evict_before_feedback", 1, 5) && _w.cluster.nodes[rq.node].prepared.remove(id).is_some() {
                            _w.fault(Fault::Evict);
                            _w.probe("feedback_after_repreparation");
                        }
                    }
                }
            }
        }
        Reply::Default
    }
    fn envelope_for(&mut self, w: &mut World, rq: &ReqInfo, req: &Request) -> Envelope {
        let mut env = Envelope::default();
        if let Request::Execute { params, .. } = req {
            if !w.conns[rq.conn].cql.tablets_ext {
                return env;
            }
            if let Some(WVal::Bytes(pk)) = params.values.first() {
                let token = model::murmur3_token(pk);
                if let Some(t) = lookup(&self.layout, token).cloned() {
                    // ScyllaDB attaches the tablet when the request reached a
                    // node/shard that is not a replica of it.
                    let here = (rq.node, rq.shard.unwrap_or(0));
                    if !t.replicas.contains(&here) {
                        env.custom_payload = vec![("tablets-routing-v1".into(), payload(&t, &self.host_ids))];
                        learn(&mut self.known, t);
                        self.payloads_sent += 1;
                        w.probe("tablet_payload_sent");
                    } else if tape::chance("c15:unusable_payload", 1, 12) {
                        // A payload that describes no token range (empty or inverted: the
                        // right bound is not above the left one) or is not even well-formed.
                        // It teaches nothing: everything learnt so far stays as it is.
                        let x = if tape::chance("c15:unusable_low", 1, 2) { self.layout[0].last } else { t.first_excl };
                        let mut bad = Tab { first_excl: x, last: i64::MIN, replicas: vec![(rq.node, 0)] };
                        let kind = tape::choose("c15:unusable_kind", 5);
                        let mut bytes = match kind {
                            0 => payload(&bad, &self.host_ids),
                            1 => {
                                bad.first_excl = t.last;
                                bad.last = t.last;
                                payload(&bad, &self.host_ids)
                            }
                            2 => {
                                bad.first_excl = t.last;
                                bad.last = t.first_excl.max(i64::MIN + 1);
                                payload(&bad, &self.host_ids)
                            }
                            _ => {
                                bad.first_excl = t.first_excl;
                                bad.last = t.last;
                                payload(&bad, &self.host_ids)
                            }
                        };
                        match kind {
                            3 => {
                                // Not at 24: a tuple cut after its second component is a
                                // well-formed tuple again (trailing components null), i.e.
                                // a different payload - a tablet without replicas - whose
                                // treatment the property does not fix.
                                let mut cut = tape::range("c15:unusable_cut", 0, bytes.len() as u64 - 1) as usize;
                                if cut == 24 {
                                    cut = 23;
                                }
                                bytes.truncate(cut)
                            }
                            4 => {
                                // shard number -1: last four bytes of the only replica tuple
                                let n = bytes.len();
                                bytes[n - 4..].copy_from_slice(&(-1i32).to_be_bytes());
                            }
                            _ => {}
                        }
                        if kind == 2 && bad.last >= bad.first_excl {
                            return env;
                        }
                        env.custom_payload = vec![("tablets-routing-v1".into(), bytes)];
                        w.fault(Fault::Garbage);
                        w.probe("unusable_tablet_payload_sent");
                        w.log(&format!("unusable_tablet_payload kind={kind} first_excl={} last={} token={token}", bad.first_excl, bad.last));
                    }
                }
            }
        }
        env
    }
    fn as_any(&mut self) -> &mut dyn Any {
        self
    }
}

#[derive(Clone, Debug)]
struct Plan {
    nodes: usize,
    shards: u32,
    tablets: usize,
    rf: usize,
    requests: usize,
    migrations: usize,
    remove_node: bool,
    /// A spare node joins the ring before this request index (the client learns of it
    /// only through its next metadata refresh): tablets may then name a replica the
    /// client does not know yet.
    spare_join_at: Option<usize>,
    spare_event: bool,
    /// The spare node joins unreachable (connection attempts hang): while the cluster
    /// worker waits for its pools, tablet feedback piles up in the channel and is applied
    /// as ONE batch later; during that time the tablets of requested tokens keep moving.
    spare_blackhole: bool,
    /// Oracle id prefix: "c15" or, when run as the tablet part of C12, "c12t".
    prefix: &'static str,
    /// Datacenters (node i lives in dc{1 + i % dcs}); with 2, the load-balancing policy
    /// prefers one of them (`prefer_dc`, 0-based).
    dcs: usize,
    prefer_dc: usize,
    /// Whether the policy may use nodes of the other datacenter at all.
    dc_failover: bool,
    /// A node (never the contact point, never the spare) that the session's host filter
    /// rejects: the client knows it (tablets naming it are stored with its Node object)
    /// but opens no pool to it and sends it nothing.
    filtered_out: Option<usize>,
}

/// Whether the spare node (index plan.nodes) is a ring member by now.
static SPARE_JOINED: std::sync::atomic::AtomicBool = std::sync::atomic::AtomicBool::new(false);

fn draw_layout(plan: &Plan) -> Vec<Tab> {
    let mut bounds: Vec<i64> = (0..plan.tablets - 1)
        .map(|_| {
            let hi = tape::choose("c15:bound_hi", 1 << 16) as i64 - (1 << 15);
            let lo = tape::choose("c15:bound_lo", 1 << 16) as i64;
            (hi << 48) | (lo << 20)
        })
        .collect();
    bounds.sort();
    bounds.dedup();
    let mut out = Vec::new();
    let mut prev = i64::MIN;
    for b in bounds.iter().chain(std::iter::once(&i64::MAX)) {
        out.push(Tab {
            first_excl: prev,
            last: *b,
            replicas: draw_replicas(plan),
        });
        prev = *b;
    }
    out
}

fn draw_replicas(plan: &Plan) -> Vec<(usize, u32)> {
    let mut nodes: Vec<usize> = (0..plan.nodes).collect();
    if SPARE_JOINED.load(std::sync::atomic::Ordering::Relaxed) {
        nodes.push(plan.nodes);
    }
    let mut r = Vec::new();
    for _ in 0..plan.rf.min(plan.nodes) {
        let i = tape::choose("c15:replica_node", nodes.len() as u64) as usize;
        let n = nodes.remove(i);
        r.push((n, tape::choose("c15:replica_shard", plan.shards as u64) as u32));
    }
    r
}

pub fn run(req: &RunRequest) -> Value {
    let req_is_c12t = req.property == "C12t";
    run_sim(req, move || {
        let plan = Plan {
            nodes: tape::range("c15:nodes", 2, 5) as usize,
            shards: tape::range("c15:shards", 1, 4) as u32,
            tablets: tape::range("c15:tablets", 1, 8) as usize,
            rf: tape::range("c15:rf", 1, 3) as usize,
            requests: tape::range("c15:requests", 10, 80) as usize,
            migrations: tape::choose("c15:migrations", 6) as usize,
            remove_node: tape::chance("c15:remove_node", 1, 3),
            spare_join_at: None,
            spare_event: tape::chance("c15:spare_event", 1, 2),
            spare_blackhole: tape::chance("c15:spare_blackhole", 1, 2),
            prefix: if req_is_c12t { "c12t" } else { "c15" },
            dcs: 1,
            prefer_dc: 0,
            dc_failover: true,
            filtered_out: None,
        };
        let mut plan = plan;
        if plan.nodes >= 2 && tape::chance("c15:two_dcs", 1, 3) {
            plan.dcs = 2;
            plan.prefer_dc = tape::choose("c15:prefer_dc", 2) as usize;
            plan.dc_failover = tape::chance("c15:dc_failover", 1, 2);
        }
        if plan.nodes >= 3 && tape::chance("c15:host_filter", 1, 5) {
            plan.filtered_out = Some(1 + tape::choose("c15:filtered_node", plan.nodes as u64 - 1) as usize);
        }
        if tape::chance("c15:spare", 1, 3) {
            plan.spare_join_at = Some(tape::choose("c15:spare_at", plan.requests as u64) as usize);
        }
        let mut cluster = Cluster::new("c15");
        let zero_token_dc = tape::chance("c15:zero_token_dc", 1, 3);
        for i in 0..plan.nodes {
            // (Two datacenters, 1 in 3: the nodes of the preferred datacenter own no vnode
            // tokens - tablet replicas need none -, so that datacenter is absent from the ring.)
            let tokens = if zero_token_dc && plan.dcs == 2 && plan.prefer_dc == 1 && i % 2 == 1 { vec![] } else { vec![(i as i64) * 1000 - 2500] };
            let n = cluster.add_node(&format!("dc{}", 1 + i % plan.dcs), "r1", plan.shards, tokens);
            cluster.nodes[n].msb_ignore = 12;
        }
        if plan.spare_join_at.is_some() {
            let n = cluster.add_node(&format!("dc{}", 1 + plan.nodes % plan.dcs), "r1", plan.shards, vec![(plan.nodes as i64) * 1000 - 2500]);
            cluster.nodes[n].msb_ignore = 12;
            cluster.nodes[n].in_ring = false;
            cluster.nodes[n].up = false;
        }
        // One more node that is no ring member yet: it may join in the very refresh in which
        // another node is seen gone (a node replacement: the node count does not drop).
        {
            let i = cluster.nodes.len();
            let n = cluster.add_node(&format!("dc{}", 1 + i % plan.dcs), "r1", plan.shards, vec![(i as i64) * 1000 - 2500]);
            cluster.nodes[n].msb_ignore = 12;
            cluster.nodes[n].in_ring = false;
            cluster.nodes[n].up = false;
        }
        client::standard_catalog(&mut cluster, Strategy::Simple(1), false);
        cluster.keyspaces.push(KeyspaceDef {
            name: "kst".into(),
            strategy: Strategy::Nts((0..plan.dcs).map(|d| (format!("dc{}", 1 + d), plan.rf)).collect()),
            tablets: true,
            // 1 in 3 runs the table of the statement is a materialized view: the client
            // learns of it through system_schema.views, not system_schema.tables.
            tables: if tape::chance("c15:view", 1, 3) {
                vec![
                    TableDef { name: "tb".into(), partitioner: None, view_of: None },
                    TableDef { name: "tt".into(), partitioner: None, view_of: Some("tb".into()) },
                ]
            } else {
                vec![TableDef { name: "tt".into(), partitioner: None, view_of: None }]
            },
        });
        cluster.catalog.push(StmtDef {
            shape: TQ.into(),
            ks: "kst".into(),
            table: "tt".into(),
            kind: StmtKind::Select,
            bind_cols: vec![col("kst", "tt", "pk", CType::BigInt), col("kst", "tt", "m", CType::BigInt)],
            pk_indexes: vec![0],
            result_cols: vec![col("kst", "tt", "v", CType::BigInt)],
            marker_bind: Some(1),
            schema_version: 0,
            id_version: 0,
        });
        cluster.features.tablets_ext = true;
        cluster.think_min = 0;
        cluster.think_max = 2 * MS;
        let setup = SimSetup {
            cluster,
            net: NetCfg::default(),
            virt_cap: Duration::from_secs(1800),
            world_oracles: vec![],
            panic_is_violation: true,
            rlimit_as: None,
            alloc_limit: None,
        };
        (setup, move || main(plan))
    })
}

async fn main(plan: Plan) -> Outcome {
    let mut out = Outcome::default();
    SPARE_JOINED.store(false, std::sync::atomic::Ordering::Relaxed);
    let oid = |name: &str| format!("{}.{name}", plan.prefix);
    let layout = draw_layout(&plan);
    {
        let mut w = world::world();
        let host_ids = w.cluster.nodes.iter().map(|n| n.host_id).collect();
        w.script = Some(Box::new(C15Script {
            layout: layout.clone(),
            host_ids,
            ..Default::default()
        }));
    }
    let profile = ExecutionProfile::builder()
        .request_timeout(None)
        .retry_policy(Arc::new(FallthroughRetryPolicy))
        .load_balancing_policy(if plan.dcs == 2 {
            DefaultPolicy::builder()
                .token_aware(true)
                .prefer_datacenter(format!("dc{}", 1 + plan.prefer_dc))
                .permit_dc_failover(plan.dc_failover)
                .build()
        } else {
            DefaultPolicy::builder().token_aware(true).build()
        })
        .build();
    let cfg = SessionCfg {
        contact_nodes: vec![0],
        pool: PoolSize::PerShard(NonZeroUsize::new(1).unwrap()),
        profile: Some(profile),
        fetch_schema: true,
        refresh_interval: Duration::from_secs(5),
        filtered_out: plan.filtered_out.into_iter().collect(),
        ..SessionCfg::default()
    };
    out.count("runs_with_host_filter", plan.filtered_out.is_some() as u64);
    let session = match client::build_session(&cfg).await {
        Ok(s) => Arc::new(s),
        Err(e) => {
            out.inconclusive = Some(format!("session: {e}"));
            return out;
        }
    };
    world::sleep_ns(8 * SEC).await;
    let Ok(p) = session.prepare(TQ).await else {
        out.inconclusive = Some("prepare failed".into());
        return out;
    };
    // Keys are drawn from a small pool so that tokens repeat (feedback then routing).
    let keys: Vec<i64> = (0..12).map(|_| tape::choose("c15:key", 1 << 30) as i64).collect();
    let mut migrate_at: Vec<usize> = (0..plan.migrations)
        .map(|_| tape::choose("c15:migrate_at", plan.requests as u64) as usize)
        .collect();
    migrate_at.sort();
    let mut routed_checked = 0u64;
    let mut dc_checked = 0u64;
    let mut unsynced = 0u64;
    let mut spare_known_to_client = false;
    let mut worker_busy_until = 0u64;
    for i in 0..plan.requests {
        if plan.spare_join_at == Some(i) {
            let mut w = world::world();
            let n = plan.nodes;
            w.cluster.nodes[n].in_ring = true;
            w.cluster.nodes[n].up = true;
            SPARE_JOINED.store(true, std::sync::atomic::Ordering::Relaxed);
            if plan.spare_blackhole {
                w.cluster.nodes[n].partitioned = true;
                w.probe("spare_joined_unreachable");
                worker_busy_until = w.now() + 6 * SEC;
            }
            if plan.spare_event || plan.spare_blackhole {
                let ip = w.cluster.nodes[n].ip;
                w.broadcast_event("TOPOLOGY_CHANGE", crate::wire::body_event_topology("NEW_NODE", ip, 9042));
            }
            w.fault(Fault::Topology);
        }
        while migrate_at.first() == Some(&i) {
            migrate_at.remove(0);
            // The server-side layout changes: split, merge or move a tablet.
            let mut w = world::world();
            let mut s = w.script.take().unwrap();
            let sc = s.as_any().downcast_mut::<C15Script>().unwrap();
            let k = tape::choose("c15:mig_tablet", sc.layout.len() as u64) as usize;
            match tape::choose("c15:mig_kind", 6) {
                0 => {
                    sc.layout[k].replicas = draw_replicas(&plan);
                }
                5 if plan.shards >= 2 && !sc.layout[k].replicas.is_empty() => {
                    // Intra-node migration: same replica nodes in the same order, ONE of
                    // them now holds the tablet on another shard.
                    let r = tape::choose("c15:mig_replica", sc.layout[k].replicas.len() as u64) as usize;
                    let step = 1 + tape::choose("c15:mig_shard_step", plan.shards as u64 - 1) as u32;
                    sc.layout[k].replicas[r].1 = (sc.layout[k].replicas[r].1 + step) % plan.shards;
                    w.probe("tablet_moved_to_another_shard_of_its_node");
                }
                1 if sc.layout[k].last.saturating_sub(sc.layout[k].first_excl) > 4 => {
                    let t = sc.layout[k].clone();
                    let mid = t.first_excl / 2 + t.last / 2;
                    sc.layout[k].last = mid;
                    sc.layout.insert(k + 1, Tab { first_excl: mid, last: t.last, replicas: draw_replicas(&plan) });
                }
                3 | 4 if sc.layout.len() > 1 => {
                    // The boundary between two tablets moves by ONE token: the tablet that
                    // grows overlaps what the client may know of its neighbour in exactly
                    // one token.
                    let k = k.min(sc.layout.len() - 2);
                    let down = tape::choose("c15:shift_dir", 2) == 0;
                    let (lo, hi) = (sc.layout[k].first_excl, sc.layout[k + 1].last);
                    let b = sc.layout[k].last;
                    if down && b - 1 > lo {
                        sc.layout[k].last = b - 1;
                        sc.layout[k + 1].first_excl = b - 1;
                        sc.layout[k + 1].replicas = draw_replicas(&plan);
                    } else if !down && b + 1 < hi {
                        sc.layout[k].last = b + 1;
                        sc.layout[k + 1].first_excl = b + 1;
                        sc.layout[k].replicas = draw_replicas(&plan);
                    }
                    if tape::chance("c15:shift_both", 1, 2) {
                        let j = if down { k } else { k + 1 };
                        sc.layout[j].replicas = draw_replicas(&plan);
                    }
                }
                _ if sc.layout.len() > 1 => {
                    let k = k.min(sc.layout.len() - 2);
                    let b = sc.layout.remove(k + 1);
                    sc.layout[k].last = b.last;
                    sc.layout[k].replicas = draw_replicas(&plan);
                }
                _ => {}
            }
            w.script = Some(s);
            w.fault(Fault::Topology);
        }
        let m = (i as u64 + 1) * 16;
        let key = keys[tape::choose("c15:which_key", keys.len() as u64) as usize];
        // While the worker is (probably) held up, the tablet of the requested token moves
        // again and again: several descriptions of one range end up in one batch, in the
        // order they were learnt - the last one must win.
        if world::now_ns() < worker_busy_until && tape::chance("c15:hot_move", 1, 2) {
            let token = model::murmur3_token(&key.to_be_bytes());
            let mut w = world::world();
            let mut s = w.script.take().unwrap();
            let sc = s.as_any().downcast_mut::<C15Script>().unwrap();
            if let Some(t) = sc.layout.iter_mut().find(|t| token > t.first_excl && token <= t.last) {
                t.replicas = draw_replicas(&plan);
            }
            w.script = Some(s);
            w.probe("tablet_moved_while_worker_busy");
        }
        // Routing is judged for requests submitted while the client's published state
        // already holds, for this token, exactly the tablet the model says it has learnt
        // (feedback is applied asynchronously by the cluster worker; that it is applied
        // at all is the business of the lookup oracle at the end).
        let in_sync = {
            let token = model::murmur3_token(&key.to_be_bytes());
            let want: Option<Vec<([u8; 16], u32)>> = {
                let mut w = world::world();
                let mut s = w.script.take().unwrap();
                let sc = s.as_any().downcast_mut::<C15Script>().unwrap();
                let r = lookup(&sc.known, token).map(|t| t.replicas.iter().map(|(n, sh)| (sc.host_ids[*n], *sh)).collect());
                w.script = Some(s);
                r
            };
            match want {
                None => false,
                Some(want) => {
                    let got: Vec<([u8; 16], u32)> = session
                        .get_cluster_state()
                        .get_token_endpoints("kst", "tt", Token::new(token))
                        .iter()
                        .map(|(n, s)| (*n.host_id.as_bytes(), *s))
                        .collect();
                    got == want
                }
            }
        };
        let res = session.execute_unpaged(&p, (key, m as i64)).await;
        if let Ok(qr) = res {
            if let Err(e) = client::check_marker_rows(qr, m) {
                out.violation(&oid("attribution"), e);
            }
        }
        // Tablet feedback is applied by the cluster worker asynchronously.
        world::sleep_ns(20 * MS).await;
        // Routing of this request followed what the client had learnt before it.
        let (first, covered): (Option<(usize, Option<u32>, i64, Option<Tab>)>, Vec<Vec<u32>>) = {
            let mut w = world::world();
            let mut s = w.script.take().unwrap();
            let f = s.as_any().downcast_mut::<C15Script>().unwrap().first.get(&m).cloned();
            w.script = Some(s);
            let mut cov = vec![Vec::new(); w.cluster.nodes.len()];
            // "the pool has a connection to that shard": a connection the mock has seen
            // ready for at least 300 virtual ms (a connection still being set up by the
            // pool refiller - spare node just discovered - does not count yet).
            let now = w.now();
            for c in &w.conns {
                if !c.srv_closed && !c.client_closed && c.cql.registered.is_empty() && c.cql.started && c.opened_at + 320 * MS <= now {
                    if let Some(sh) = c.shard {
                        cov[c.node].push(sh);
                    }
                }
            }
            (f, cov)
        };
        if !spare_known_to_client && SPARE_JOINED.load(std::sync::atomic::Ordering::Relaxed) {
            let hid = uuid::Uuid::from_bytes(world::world().cluster.nodes[plan.nodes].host_id);
            spare_known_to_client = session.get_cluster_state().get_nodes_info().iter().any(|n| n.host_id == hid);
        }
        // A learnt tablet naming a replica the client does not know yet is routed by the
        // replicas it does know (possibly none): judged only when all replicas are known.
        let first = first.filter(|(_, _, _, k)| {
            spare_known_to_client || !k.as_ref().map(|t| t.replicas.iter().any(|(n, _)| *n == plan.nodes)).unwrap_or(false)
        });
        if !in_sync {
            unsynced += 1;
        }
        if let (true, Some((node, shard, token, Some(known)))) = (in_sync, first) {
            routed_checked += 1;
            if plan.filtered_out == Some(node) {
                out.violation(&oid("request_to_filtered_node"), format!("request {m} (token {token}) went to node {node}, which the host filter rejects"));
            }
            // Replicas the host filter rejects are not targets: the tablet is judged by the others.
            let mut known = known;
            known.replicas.retain(|(n, _)| plan.filtered_out != Some(*n));
            if known.replicas.is_empty() {
                continue;
            }
            let hit = known.replicas.iter().find(|(n, _)| *n == node);
            // Without datacenter failover the policy permits the preferred datacenter's
            // nodes only: a tablet without a replica there says nothing about the target.
            if plan.dcs == 2 && !plan.dc_failover && !known.replicas.iter().any(|(n, _)| n % plan.dcs == plan.prefer_dc) {
                continue;
            }
            // With a preferred datacenter: a replica there, if the tablet has one (judged in
            // runs without the spare node, so that every replica is reachable).
            if plan.dcs == 2 && plan.spare_join_at.is_none() && hit.is_some() {
                let local: Vec<usize> = known.replicas.iter().map(|(n, _)| *n).filter(|n| n % plan.dcs == plan.prefer_dc).collect();
                if !local.is_empty() {
                    dc_checked += 1;
                    if !local.contains(&node) {
                        out.violation(
                            &oid("routing_not_in_preferred_dc"),
                            format!(
                                "request {m} (token {token}) went to node {node} in dc{} although the learnt tablet ({}, {}] has replicas {:?} in the preferred dc{}",
                                1 + node % plan.dcs, known.first_excl, known.last, local, 1 + plan.prefer_dc
                            ),
                        );
                    }
                }
            }
            match hit {
                None => out.violation(
                    &oid("routing_ignores_tablet"),
                    format!("request {m} (token {token}) went to node {node} although the client had learnt tablet ({}, {}] with replicas {:?}", known.first_excl, known.last, known.replicas),
                ),
                Some((_, want)) => {
                    if covered[node].contains(want) && shard != Some(*want) {
                        out.violation(
                            &oid("routing_wrong_shard"),
                            format!("request {m} (token {token}) reached node {node} on shard {shard:?}; the learnt tablet says shard {want}"),
                        );
                    }
                }
            }
        }
    }
    // Optional: a node changes rack (same host id, same address): the client re-creates its
    // Node object on the next topology fetch - here the event-driven, topology-only one -
    // and the tablets that name it as a replica must follow.
    if tape::chance("c15:relabel", 1, 4) {
        let victim = tape::choose("c15:relabel_victim", plan.nodes as u64) as usize;
        {
            let mut w = world::world();
            let r = w.cluster.nodes[victim].rack.clone();
            w.cluster.nodes[victim].rack = format!("{r}x");
            w.fault(Fault::Topology);
            w.probe("node_changed_rack");
            let ip = w.cluster.nodes[victim].ip;
            w.broadcast_event("TOPOLOGY_CHANGE", crate::wire::body_event_topology("NEW_NODE", ip, 9042));
        }
        world::sleep_ns(4 * SEC).await;
    }
    // Optional topology maintenance: a node leaves.
    let mut removed: Option<usize> = None;
    if plan.remove_node && plan.nodes > 2 {
        let victim = 1 + tape::choose("c15:victim", plan.nodes as u64 - 1) as usize;
        {
            let mut w = world::world();
            w.cluster.nodes[victim].in_ring = false;
            w.crash_node(victim);
            let ip = w.cluster.nodes[victim].ip;
            w.broadcast_event("TOPOLOGY_CHANGE", crate::wire::body_event_topology("REMOVED_NODE", ip, 9042));
            // 1 in 2: its replacement joins at the same moment.
            if tape::chance("c15:replacement_joins", 1, 2) {
                let repl = w.cluster.nodes.len() - 1;
                w.cluster.nodes[repl].in_ring = true;
                w.cluster.nodes[repl].up = true;
                let ip = w.cluster.nodes[repl].ip;
                w.broadcast_event("TOPOLOGY_CHANGE", crate::wire::body_event_topology("NEW_NODE", ip, 9042));
                w.probe("node_replaced");
            }
        }
        removed = Some(victim);
        world::sleep_ns(15 * SEC).await;
        let _ = tokio::time::timeout(Duration::from_secs(120), session.refresh_metadata()).await;
    }
    if plan.spare_join_at.is_some() {
        // The topology refresh resolves (or drops) tablets learnt with an unknown replica.
        world::sleep_ns(2 * SEC).await;
        let _ = tokio::time::timeout(Duration::from_secs(120), session.refresh_metadata()).await;
        out.count("spare_node_runs", 1);
    }
    world::sleep_ns(2 * SEC).await;

    // After quiescence: lookups equal the reference model at all boundaries.
    let (known, host_ids, payloads) = {
        let mut w = world::world();
        let mut s = w.script.take().unwrap();
        let sc = s.as_any().downcast_mut::<C15Script>().unwrap();
        let mut known = sc.known.clone();
        if let Some(v) = removed {
            // Tablets with a replica on a removed node are discarded by maintenance.
            known.retain(|t| !t.replicas.iter().any(|(n, _)| *n == v));
        }
        let r = (known, sc.host_ids.clone(), sc.payloads_sent);
        w.script = Some(s);
        r
    };
    let state = session.get_cluster_state();
    let mut probes: Vec<i64> = vec![i64::MIN + 1, 0, i64::MAX];
    for t in known.iter().chain(layout.iter()) {
        for d in [-1i64, 0, 1] {
            probes.push(t.first_excl.saturating_add(d));
            probes.push(t.last.saturating_add(d));
        }
    }
    probes.sort();
    probes.dedup();
    let mut lookups = 0u64;
    for token in probes {
        if token == i64::MIN {
            continue;
        }
        let got: Vec<([u8; 16], u32)> = state
            .get_token_endpoints("kst", "tt", Token::new(token))
            .iter()
            .map(|(n, s)| (*n.host_id.as_bytes(), *s))
            .collect();
        let want: Vec<([u8; 16], u32)> = lookup(&known, token)
            .map(|t| t.replicas.iter().map(|(n, s)| (host_ids[*n], *s)).collect())
            .unwrap_or_default();
        lookups += 1;
        // Replica entries are the client's CURRENT Node objects (a re-created node must
        // have been replaced in the tablets by maintenance).
        for (n, _) in state.get_token_endpoints("kst", "tt", Token::new(token)).iter() {
            let current = state.get_nodes_info().iter().find(|c| c.host_id == n.host_id);
            if let Some(c) = current {
                if !Arc::ptr_eq(c, n) {
                    out.violation(
                        &oid("stale_node_object"),
                        format!(
                            "token {token}: the tablet's replica entry for host {:?} is not the client's current Node object (rack {:?} vs current {:?})",
                            n.host_id, n.rack, c.rack
                        ),
                    );
                    break;
                }
            }
        }
        if got != want {
            out.violation(
                &oid("lookup_after_quiescence"),
                format!(
                    "token {token}: ClusterState answers {:?}, the tablets learnt (latest wins, node {:?} removed) say {:?}",
                    got.iter().map(|(h, s)| (h[4], *s)).collect::<Vec<_>>(),
                    removed,
                    want.iter().map(|(h, s)| (h[4], *s)).collect::<Vec<_>>()
                ),
            );
            break;
        }
    }
    out.nontrivial = payloads > 0;
    out.count("tablet_payloads_sent", payloads);
    out.count("routing_checked", routed_checked);
    out.count("routing_checked_against_preferred_dc", dc_checked);
    out.count("routing_not_judged_state_not_in_sync", unsynced);
    out.count("lookups_checked", lookups);
    out.sample = json!({
        "nodes": plan.nodes, "shards": plan.shards, "tablets": plan.tablets, "rf": plan.rf, "requests": plan.requests,
        "migrations": plan.migrations, "spare_join_at": plan.spare_join_at, "removed": removed, "payloads": payloads, "known_tablets": known.len(),
    });
    out
}
