//! C18 (end-to-end half) - timestamps observed by the mock node for concurrent
//! writes of a session using MonotonicTimestampGenerator under a faulty clock.

use crate::client::{self, SessionCfg};
use crate::cluster::{Cluster, Reply, ReqInfo, Script, Strategy};
use crate::harness::{Outcome, SimSetup, run_sim};
use crate::runner::RunRequest;
use crate::tape;
use crate::wire::Request;
use crate::world::{self, Fault, MS, NetCfg, World};
use scylla::client::PoolSize;
use scylla::policies::retry::DefaultRetryPolicy;
use scylla::policies::timestamp_generator::MonotonicTimestampGenerator;
use scylla::statement::Statement;
use scylla::statement::batch::Batch;
use serde_json::{Value, json};
use std::any::Any;
use std::collections::BTreeMap;
use std::num::NonZeroUsize;
use std::sync::Arc;
use std::sync::atomic::{AtomicI64, AtomicU64, Ordering};
use std::time::{Duration, SystemTime, UNIX_EPOCH};

/// Marker flag: the statement carries an explicit timestamp (see `explicit_ts`).
const F_EXPLICIT: u64 = 1;

/// The explicit timestamp of the statement with marker `m`; marker bits 1-2 select the
/// kind of value: a unique ordinary one, 0, a negative one, one near i64::MAX - every
/// i64 is a legal client timestamp (i64::MIN is left out: some servers read it as "unset").
fn explicit_ts(m: u64) -> i64 {
    match (m >> 1) & 3 {
        0 => 7_000_000 + m as i64,
        1 => 0,
        2 => -(m as i64) - 5,
        _ => i64::MAX - m as i64,
    }
}

#[derive(Default)]
struct C18Script {
    /// marker -> (timestamp seen on the wire, frame answered UNPREPARED), per frame.
    seen: BTreeMap<u64, Vec<(Option<i64>, bool)>>,
    error_permille: u64,
    evict_permille: u64,
    evicted: std::collections::BTreeSet<u64>,
}

impl Script for C18Script {
    fn on_user_request(&mut self, w: &mut World, rq: &ReqInfo, req: &Request) -> Reply {
        let ts = match req {
            Request::Query { params, .. } => params.timestamp,
            Request::Execute { params, .. } => params.timestamp,
            Request::Batch(b) => b.timestamp,
            _ => return Reply::Default,
        };
        if let Some(m) = rq.marker {
            // The node may have evicted the prepared statement: the EXECUTE is answered
            // UNPREPARED, the driver re-prepares and sends it again (same timestamp rules).
            let mut unprepared = false;
            if let Request::Execute { id, .. } = req {
                if self.evict_permille > 0
                    && !self.evicted.contains(&m)
                    && tape::chance("c18:evict", self.evict_permille, 1000)
                    && w.cluster.nodes[rq.node].prepared.remove(id).is_some()
                {
                    self.evicted.insert(m);
                    w.fault(Fault::Evict);
                }
                // Whoever evicted it: an EXECUTE for an id the node does not know is
                // answered UNPREPARED, not executed.
                unprepared = !w.cluster.nodes[rq.node].prepared.contains_key(id);
            }
            if let Request::Batch(b) = req {
                unprepared = b.statements.iter().any(|(st, _)| match st {
                    crate::wire::BatchStmt::Prepared(id) => !w.cluster.nodes[rq.node].prepared.contains_key(id),
                    _ => false,
                });
            }
            self.seen.entry(m).or_default().push((ts, unprepared));
            if unprepared {
                return Reply::Default;
            }
            if self.error_permille > 0 && tape::chance("c18:error", self.error_permille, 1000) {
                // A retryable error: the retried attempt takes a fresh timestamp.
                return Reply::Error {
                    code: crate::wire::err::OVERLOADED,
                    msg: "overloaded".into(),
                    extra: vec![],
                    delay: w.think(),
                };
            }
        }
        Reply::Default
    }
    fn as_any(&mut self) -> &mut dyn Any {
        self
    }
}

// The simulated wall clock: microseconds since the epoch, a seeded walk.
static CLOCK_US: AtomicI64 = AtomicI64::new(1_700_000_000_000_000);
static CLOCK_MODE: AtomicU64 = AtomicU64::new(0);
static CLOCK_READS: AtomicU64 = AtomicU64::new(0);

fn sim_clock() -> SystemTime {
    CLOCK_READS.fetch_add(1, Ordering::Relaxed);
    let mode = CLOCK_MODE.load(Ordering::Relaxed);
    let mut now = CLOCK_US.load(Ordering::Relaxed);
    if mode > 0 {
        match tape::weighted("c18:clock", &[10, 3, 2, 4, 1]) {
            0 => {
                world::world().fault(Fault::Clock); // stall
            }
            1 => now -= 1, // repeat / one tick back
            2 => {
                now -= tape::range("c18:clock_back", 2, 3_000_000) as i64;
                world::world().fault(Fault::Clock);
            }
            3 => now += tape::range("c18:clock_fwd", 1, 3) as i64,
            _ => now += tape::range("c18:clock_jump", 1000, 5_000_000) as i64,
        }
        CLOCK_US.store(now, Ordering::Relaxed);
    } else {
        now += 1;
        CLOCK_US.store(now, Ordering::Relaxed);
    }
    UNIX_EPOCH + Duration::from_micros(now.max(0) as u64)
}

#[derive(Clone, Debug)]
struct Plan {
    nodes: usize,
    tasks: usize,
    per_task: usize,
    faulty_clock: bool,
}

pub fn run(req: &RunRequest) -> Value {
    run_sim(req, move || {
        let plan = Plan {
            nodes: tape::range("c18:nodes", 1, 3) as usize,
            tasks: tape::range("c18:tasks", 1, 16) as usize,
            per_task: tape::range("c18:per_task", 1, 8) as usize,
            faulty_clock: !tape::chance("c18:good_clock", 1, 5),
        };
        let mut cluster = Cluster::new("c18");
        for i in 0..plan.nodes {
            cluster.add_node("dc1", "r1", 0, vec![(i as i64) * 1000 - 2500]);
        }
        client::standard_catalog(&mut cluster, Strategy::Simple(1), false);
        // 1 in 3 runs the nodes mark the prepared INSERT as a conditional statement (LWT mark
        // in its prepared metadata): the timestamp rules are the same for it.
        if tape::chance("c18:lwt_mark", 1, 3) {
            cluster.features.lwt_ext = true;
            cluster.features.lwt_marked_shapes = vec![client::Q_PREPARED_INSERT.to_string()];
        }
        cluster.think_min = 0;
        cluster.think_max = 3 * MS;
        let net = NetCfg {
            chaos_yield_permille: [0, 100][tape::choose("c18:chaos", 2) as usize],
            ..NetCfg::default()
        };
        let setup = SimSetup {
            cluster,
            net,
            virt_cap: Duration::from_secs(600),
            world_oracles: vec![],
            panic_is_violation: true,
            rlimit_as: None,
            alloc_limit: None,
        };
        (setup, move || main(plan))
    })
}

async fn main(plan: Plan) -> Outcome {
    let mut out = Outcome::default();
    CLOCK_MODE.store(plan.faulty_clock as u64, Ordering::Relaxed);
    scylla::verif::set_wall_clock(Some(sim_clock));
    {
        let mut w = world::world();
        w.script = Some(Box::new(C18Script {
            error_permille: [0, 100][tape::choose("c18:error_rate", 2) as usize],
            evict_permille: [0, 150][tape::choose("c18:evict_rate", 2) as usize],
            ..Default::default()
        }));
    }
    let cfg = SessionCfg {
        contact_nodes: vec![0],
        pool: PoolSize::PerHost(NonZeroUsize::new(tape::range("c18:pool", 1, 3) as usize).unwrap()),
        retry: Some(Arc::new(DefaultRetryPolicy::new())),
        ..SessionCfg::default()
    };
    // The generator goes in through the builder.
    let session = {
        let mut b = scylla::client::session_builder::SessionBuilder::new();
        b = b
            .known_node_addr(client::contact_point(0))
            .pool_size(cfg.pool.clone())
            .fetch_schema_metadata(false)
            .timestamp_generator(Arc::new(match tape::choose("c18:warnings", 3) {
                0 => MonotonicTimestampGenerator::new().without_warnings(),
                1 => MonotonicTimestampGenerator::new(),
                // Warnings with a seeded skew threshold and no rate limit: the warning
                // branch itself runs whenever the clock is far enough behind.
                _ => MonotonicTimestampGenerator::new().with_warning_times(
                    Duration::from_micros([0, 1, 1000, 1_000_000][tape::choose("c18:warn_threshold", 4) as usize]),
                    Duration::ZERO,
                ),
            }))
            .default_execution_profile_handle(
                scylla::client::execution_profile::ExecutionProfile::builder()
                    .request_timeout(None)
                    .retry_policy(Arc::new(DefaultRetryPolicy::new()))
                    .build()
                    .into_handle(),
            );
        match b.build().await {
            // Wrapped in a CachingSession (some writes go through it, the others through
            // the session inside it - one generator either way).
            Ok(s) => Arc::new(scylla::client::caching_session::CachingSession::<std::collections::hash_map::RandomState>::from(s, 8)),
            Err(e) => {
                out.inconclusive = Some(format!("session: {e}"));
                return out;
            }
        }
    };
    let caching = session.clone();
    let Ok(ins) = session.get_session().prepare(client::Q_PREPARED_INSERT).await else {
        out.inconclusive = Some("prepare failed".into());
        return out;
    };
    let ins = Arc::new(ins);
    let mut handles = Vec::new();
    for t in 0..plan.tasks {
        let caching = caching.clone();
        let ins = ins.clone();
        let kinds: Vec<u64> = (0..plan.per_task).map(|_| tape::choose("c18:kind", 9)).collect();
        let explicit: Vec<bool> = (0..plan.per_task).map(|_| tape::chance("c18:explicit", 1, 4)).collect();
        let ts_kind: Vec<u64> = (0..plan.per_task).map(|_| tape::weighted("c18:explicit_value", &[5, 2, 1, 1]) as u64).collect();
        let batch_len: Vec<usize> = (0..plan.per_task).map(|_| 1 + tape::weighted("c18:batch_len", &[2, 3, 1]) as usize).collect();
        let gaps: Vec<u64> = (0..plan.per_task).map(|_| tape::choose("c18:gap", 3)).collect();
        let per = plan.per_task;
        handles.push(tokio::spawn(async move {
            let session = caching.get_session();
            for k in 0..per {
                let m = ((t * 100 + k) as u64 + 1) * 16 + if explicit[k] { F_EXPLICIT + 2 * ts_kind[k] } else { 0 };
                let ts = if explicit[k] { Some(explicit_ts(m)) } else { None };
                match kinds[k] {
                    0 => {
                        let mut st = Statement::new(client::q_write_marker(m));
                        st.set_is_idempotent(true);
                        st.set_timestamp(ts);
                        let _ = session.query_unpaged(st, ()).await;
                    }
                    1 => {
                        let mut p = (*ins).clone();
                        p.set_is_idempotent(true);
                        p.set_timestamp(ts);
                        let _ = session.execute_unpaged(&p, (k as i64, m as i64)).await;
                    }
                    2 => {
                        // 1..3 statements (a batch of one is still a batch).
                        let mut b = Batch::default();
                        for _ in 0..batch_len[k] {
                            b.append_statement((*ins).clone());
                        }
                        b.set_is_idempotent(true);
                        b.set_timestamp(ts);
                        // (1 in 3 batches go without a serial consistency.)
                        if m / 16 % 3 == 0 {
                            b.set_serial_consistency(None);
                        }
                        let values: Vec<(i64, i64)> = (0..batch_len[k]).map(|i| (1 + i as i64, m as i64)).collect();
                        let _ = session.batch(&b, values).await;
                    }
                    4 => {
                        // The paging iterator (its worker builds every page request itself).
                        let mut st = Statement::new(client::q_write_marker(m));
                        st.set_is_idempotent(true);
                        st.set_timestamp(ts);
                        if let Ok(p) = session.query_iter(st, ()).await {
                            use futures::StreamExt;
                            if let Ok(mut rs) = p.rows_stream::<scylla::value::Row>() {
                                while rs.next().await.is_some() {}
                            }
                        }
                    }
                    7 | 8 => {
                        // Through the CachingSession: the statement text is prepared once
                        // and cached; every execution applies the CALLER's statement
                        // options (here: its timestamp, or none) to the cached statement.
                        // (A caller without an explicit timestamp passes the bare text: no
                        // statement option is set at all.)
                        let mut st = Statement::new(client::Q_PREPARED_INSERT);
                        st.set_timestamp(ts);
                        if kinds[k] == 7 {
                            let _ = caching.execute_unpaged(st, (k as i64, m as i64)).await;
                        } else {
                            let mut b = Batch::default();
                            for _ in 0..batch_len[k] {
                                b.append_statement(client::Q_PREPARED_INSERT);
                            }
                            b.set_is_idempotent(true);
                            b.set_timestamp(ts);
                            if m / 16 % 3 == 0 {
                                b.set_serial_consistency(None);
                            }
                        // (1 in 3 batches go without a serial consistency.)
                        if m / 16 % 3 == 0 {
                            b.set_serial_consistency(None);
                        }
                            let values: Vec<(i64, i64)> = (0..batch_len[k]).map(|i| (1 + i as i64, m as i64)).collect();
                            let _ = caching.batch(&b, values).await;
                        }
                    }
                    6 => {
                        // An unprepared statement WITH values: prepared on the fly on the
                        // connection of each attempt, then executed.
                        let mut st = Statement::new(client::Q_PREPARED_INSERT);
                        st.set_is_idempotent(true);
                        st.set_timestamp(ts);
                        let _ = session.query_unpaged(st, (k as i64, m as i64)).await;
                    }
                    5 => {
                        let mut p = (*ins).clone();
                        p.set_is_idempotent(true);
                        p.set_timestamp(ts);
                        if let Ok(p) = session.execute_iter(p, (k as i64, m as i64)).await {
                            use futures::StreamExt;
                            if let Ok(mut rs) = p.rows_stream::<scylla::value::Row>() {
                                while rs.next().await.is_some() {}
                            }
                        }
                    }
                    _ => {
                        // A batch with an unprepared statement that has values: the driver
                        // prepares it on the fly and rebuilds the batch.
                        let mut b = Batch::default();
                        b.append_statement(Statement::new(client::Q_PREPARED_INSERT));
                        for _ in 1..batch_len[k] {
                            b.append_statement((*ins).clone());
                        }
                        b.set_is_idempotent(true);
                        b.set_timestamp(ts);
                        // (1 in 3 batches go without a serial consistency.)
                        if m / 16 % 3 == 0 {
                            b.set_serial_consistency(None);
                        }
                        let values: Vec<(i64, i64)> = (0..batch_len[k]).map(|i| (1 + i as i64, m as i64)).collect();
                        let _ = session.batch(&b, values).await;
                    }
                }
                match gaps[k] {
                    0 => {}
                    1 => tokio::task::yield_now().await,
                    _ => world::sleep_ns(MS).await,
                }
            }
        }));
    }
    for h in handles {
        if tokio::time::timeout(Duration::from_secs(300), h).await.is_err() {
            out.violation("c18.hang", "writer task did not finish".into());
        }
    }
    scylla::verif::set_wall_clock(None);
    let seen = {
        let mut w = world::world();
        let mut s = w.script.take().unwrap();
        let r = s.as_any().downcast_mut::<C18Script>().unwrap().seen.clone();
        w.script = Some(s);
        r
    };
    let mut generated: BTreeMap<i64, u64> = BTreeMap::new();
    let mut frames = 0u64;
    for (m, list) in &seen {
        for (ts, unprepared) in list {
            frames += 1;
            let Some(ts) = ts else {
                out.violation("c18.no_timestamp", format!("write marker {m} reached the node without a client timestamp although a generator is configured"));
                continue;
            };
            if m & F_EXPLICIT != 0 {
                if *ts != explicit_ts(*m) {
                    out.violation(
                        "c18.explicit_timestamp_not_sent",
                        format!("statement marker {m} has explicit timestamp {} but {ts} was on the wire", explicit_ts(*m)),
                    );
                }
            } else if seen.keys().any(|other| other & F_EXPLICIT != 0 && explicit_ts(*other) == *ts) {
                // (Explicit values lie nowhere near the simulated clock.)
                out.violation(
                    "c18.foreign_explicit_timestamp",
                    format!("write marker {m}, which has no explicit timestamp, reached the node with {ts}: the explicit timestamp of another statement of this run"),
                );
            } else if *unprepared {
                // Not executed: the repeated EXECUTE may carry the same generated value.
            } else if let Some(prev) = generated.insert(*ts, *m) {
                out.violation(
                    "c18.duplicate_on_wire",
                    format!("generated timestamp {ts} was sent for two attempts (markers {prev} and {m})"),
                );
            }
        }
    }
    out.nontrivial = frames >= 2;
    out.count("write_frames", frames);
    out.count("clock_reads", CLOCK_READS.load(Ordering::Relaxed));
    out.sample = json!({"nodes": plan.nodes, "tasks": plan.tasks, "per_task": plan.per_task, "faulty_clock": plan.faulty_clock, "frames": frames});
    out
}
