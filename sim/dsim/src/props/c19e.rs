//! C19 (end-to-end half) - a metadata refresh that was requested is eventually
//! answered and the published state reflects the latest fetched topology.

use crate::client::{self, SessionCfg};
use crate::cluster::{Cluster, Strategy, host_id_for};
use crate::harness::{Outcome, SimSetup, run_sim};
use crate::runner::RunRequest;
use crate::tape;
use crate::wire;
use crate::world::{self, Fault, MS, NetCfg, SEC};
use scylla::client::PoolSize;
use serde_json::{Value, json};
use std::collections::BTreeSet;
use std::num::NonZeroUsize;
use std::sync::Arc;
use std::time::Duration;

/// Counts chaos events (to detect a quiet period after one).
static CHAOS_COUNT: std::sync::atomic::AtomicU64 = std::sync::atomic::AtomicU64::new(0);
/// Bumped by every change of the ring membership / host ids.
static TOPO_VERSION: std::sync::atomic::AtomicU64 = std::sync::atomic::AtomicU64::new(0);
/// Last sampled instant (ns, +1) at which NO ring member could serve a metadata fetch
/// (up, reachable, system reads not failing); 0 = never so far.
static NO_USABLE_NODE_AT: std::sync::atomic::AtomicU64 = std::sync::atomic::AtomicU64::new(0);
/// Ring members that joined unreachable (connection attempts hang until the driver's
/// connect timeout): each can keep the publishing worker waiting for its pool once.
static BLACKHOLES: std::sync::atomic::AtomicU64 = std::sync::atomic::AtomicU64::new(0);
/// How often the fetched-then-published oracle reached a verdict.
static FETCH_JUDGED: std::sync::atomic::AtomicU64 = std::sync::atomic::AtomicU64::new(0);

fn ring_now() -> BTreeSet<[u8; 16]> {
    let w = world::world();
    w.cluster.nodes.iter().filter(|n| n.in_ring).map(|n| n.host_id).collect()
}

/// (token, owner) pairs of the mock's ring.
fn ring_tokens_now() -> BTreeSet<(i64, [u8; 16])> {
    let w = world::world();
    w.cluster
        .nodes
        .iter()
        .filter(|n| n.in_ring)
        .flat_map(|n| n.tokens.iter().map(move |t| (*t, n.host_id)))
        .collect()
}

/// (token, owner) pairs of the published state's ring.
fn published_tokens(session: &scylla::client::session::Session) -> BTreeSet<(i64, [u8; 16])> {
    session
        .get_cluster_state()
        .replica_locator()
        .ring()
        .iter()
        .map(|(t, n)| (t.value(), *n.host_id.as_bytes()))
        .collect()
}

#[derive(Clone, Debug)]
struct Plan {
    initial: usize,
    spare: usize,
    events: usize,
    refreshers: usize,
    refresh_interval_s: u64,
}

pub fn run(req: &RunRequest) -> Value {
    run_sim(req, move || {
        let plan = Plan {
            initial: tape::range("c19:initial", 1, 4) as usize,
            spare: tape::range("c19:spare", 1, 3) as usize,
            events: tape::range("c19:events", 1, 14) as usize,
            refreshers: tape::range("c19:refreshers", 0, 3) as usize,
            refresh_interval_s: [60, 5, 1][tape::choose("c19:refresh_interval", 3) as usize],
        };
        let mut cluster = Cluster::new("c19");
        for i in 0..plan.initial + plan.spare {
            let n = cluster.add_node("dc1", if i % 2 == 0 { "r1" } else { "r2" }, 0, vec![(i as i64) * 1000 - 2500, (i as i64) * 1000 + 7]);
            if i >= plan.initial {
                cluster.nodes[n].in_ring = false;
                cluster.nodes[n].up = false;
            }
        }
        client::standard_catalog(&mut cluster, Strategy::Simple(1), false);
        cluster.think_min = 0;
        cluster.think_max = [MS, 30 * MS][tape::choose("c19:think", 2) as usize];
        cluster.system_page_rows = tape::choose("c19:sys_page", 3) as usize;
        let net = NetCfg {
            chaos_yield_permille: [0, 50][tape::choose("c19:chaos", 2) as usize],
            ..NetCfg::default()
        };
        let setup = SimSetup {
            cluster,
            net,
            virt_cap: Duration::from_secs(3600),
            world_oracles: vec![],
            panic_is_violation: true,
            rlimit_as: None,
            alloc_limit: None,
        };
        (setup, move || main(plan))
    })
}

async fn main(plan: Plan) -> Outcome {
    let mut out = Outcome::default();
    TOPO_VERSION.store(0, std::sync::atomic::Ordering::SeqCst);
    NO_USABLE_NODE_AT.store(0, std::sync::atomic::Ordering::SeqCst);
    CHAOS_COUNT.store(0, std::sync::atomic::Ordering::SeqCst);
    BLACKHOLES.store(0, std::sync::atomic::Ordering::SeqCst);
    FETCH_JUDGED.store(0, std::sync::atomic::Ordering::SeqCst);
    let cfg = SessionCfg {
        contact_nodes: vec![0],
        pool: PoolSize::PerHost(NonZeroUsize::new(1).unwrap()),
        fetch_schema: tape::chance("c19:schema", 1, 2),
        refresh_interval: Duration::from_secs(plan.refresh_interval_s),
        keepalive_interval: Some(Duration::from_secs(3)),
        keepalive_timeout: Some(Duration::from_secs(2)),
        ..SessionCfg::default()
    };
    let session = match client::build_session(&cfg).await {
        Ok(s) => Arc::new(s),
        Err(e) => {
            out.inconclusive = Some(format!("session: {e}"));
            return out;
        }
    };
    let total = plan.initial + plan.spare;
    let span = 10 * SEC;
    // Topology changes, events (with or without, floods), control-connection faults.
    let mut evs = Vec::new();
    for _ in 0..plan.events {
        evs.push((
            tape::range("c19:at", 0, span),
            tape::weighted("c19:kind", &[3, 3, 2, 2, 2, 1, 2, 1]),
            tape::choose("c19:pick", 64) as usize,
            tape::chance("c19:with_event", 2, 3),
        ));
    }
    evs.sort();
    let late: Arc<std::sync::Mutex<Vec<String>>> = Arc::new(std::sync::Mutex::new(Vec::new()));
    let late2 = late.clone();
    let session2 = session.clone();
    let chaos = tokio::spawn(async move {
        let t0 = world::now_ns();
        for (at, kind, pick, with_event) in evs {
            let now = world::now_ns() - t0;
            if at > now {
                world::sleep_ns(at - now).await;
            }
            CHAOS_COUNT.fetch_add(1, std::sync::atomic::Ordering::SeqCst);
            let mut w = world::world();
            match kind {
                0 => {
                    // A spare node joins.
                    if let Some(n) = (0..total).find(|n| !w.cluster.nodes[*n].in_ring) {
                        w.cluster.nodes[n].in_ring = true;
                        w.cluster.nodes[n].up = true;
                        if pick % 4 == 3 {
                            // The new member is unreachable from the client: the worker that
                            // publishes the state waits for its pool (connect timeout) while
                            // further fetches pile up in the hand-off slot.
                            w.cluster.nodes[n].partitioned = true;
                            BLACKHOLES.fetch_add(1, std::sync::atomic::Ordering::SeqCst);
                        }
                        w.fault(Fault::Topology);
                        w.log(&format!("join node={n}"));
                        TOPO_VERSION.fetch_add(1, std::sync::atomic::Ordering::SeqCst);
                        if with_event {
                            let ip = w.cluster.nodes[n].ip;
                            w.broadcast_event("TOPOLOGY_CHANGE", wire::body_event_topology("NEW_NODE", ip, 9042));
                        }
                        {
                            // "The published state reflects the latest fetched topology": once the
                            // client has completely read system.peers in a fetch that STARTED after
                            // this change (whenever the driver chooses to fetch - nothing is demanded
                            // about that), and nothing else happens meanwhile, the published state
                            // must contain the node.
                            let host = w.cluster.nodes[n].host_id;
                            let seen = CHAOS_COUNT.load(std::sync::atomic::Ordering::SeqCst);
                            let t_event = w.now();
                            let session = session2.clone();
                            let late = late2.clone();
                            tokio::spawn(async move {
                                // Wait (up to 20 s) for a complete fetch that started after the change.
                                let mut fetched_at = None;
                                for _ in 0..100 {
                                    world::sleep_ns(200 * MS).await;
                                    if CHAOS_COUNT.load(std::sync::atomic::Ordering::SeqCst) != seen {
                                        return;
                                    }
                                    let w = world::world();
                                    if let Some(f) = w.peers_fetches.iter().find(|f| f.0 >= t_event && f.1 <= w.now()) {
                                        fetched_at = Some(f.1);
                                        break;
                                    }
                                }
                                let Some(fetched_at) = fetched_at else { return };
                                // Publication follows the fetch. While a member is unreachable the
                                // publishing worker waits, at every publication, for that member's
                                // pool to finish its connection attempt in progress (connect timeout
                                // 5 s plus the pool's growing back-off), and the update carrying this
                                // fetch may be queued behind one such publication: the deadline is
                                // 3 s without unreachable members, 40 s with.
                                let wait = if BLACKHOLES.load(std::sync::atomic::Ordering::SeqCst) == 0 { 3 } else { 40 } * SEC;
                                let mut published = false;
                                let t_wait = world::now_ns();
                                while world::now_ns() - t_wait < wait {
                                    world::sleep_ns(500 * MS).await;
                                    if CHAOS_COUNT.load(std::sync::atomic::Ordering::SeqCst) != seen {
                                        return;
                                    }
                                    published = session
                                        .get_cluster_state()
                                        .get_nodes_info()
                                        .iter()
                                        .any(|n| *n.host_id.as_bytes() == host);
                                    if published {
                                        break;
                                    }
                                }
                                FETCH_JUDGED.fetch_add(1, std::sync::atomic::Ordering::SeqCst);
                                if !published {
                                    late.lock().unwrap().push(format!(
                                        "node {n} joined at {} ms (NEW_NODE sent: {with_event}); the client completely re-read system.peers by {} ms; {} quiet seconds later the published state still lacks the node",
                                        t_event / MS,
                                        fetched_at / MS,
                                        wait / SEC
                                    ));
                                }
                            });
                        }
                    }
                }
                1 => {
                    // A node (not the contact point) leaves.
                    let members: Vec<usize> = (1..total).filter(|n| w.cluster.nodes[*n].in_ring).collect();
                    if !members.is_empty() {
                        let n = members[pick % members.len()];
                        w.cluster.nodes[n].in_ring = false;
                        w.fault(Fault::Topology);
                        w.log(&format!("leave node={n}"));
                        TOPO_VERSION.fetch_add(1, std::sync::atomic::Ordering::SeqCst);
                        w.crash_node(n);
                        if with_event {
                            let ip = w.cluster.nodes[n].ip;
                            w.broadcast_event("TOPOLOGY_CHANGE", wire::body_event_topology("REMOVED_NODE", ip, 9042));
                        }
                    }
                }
                2 => {
                    // A node is replaced: same address, new host id.
                    let members: Vec<usize> = (1..total).filter(|n| w.cluster.nodes[*n].in_ring).collect();
                    if !members.is_empty() {
                        let n = members[pick % members.len()];
                        let generation = w.cluster.nodes[n].host_id[8] as u32 + 1;
                        w.cluster.nodes[n].host_id = host_id_for(n, generation);
                        w.fault(Fault::Topology);
                        w.log(&format!("replace node={n}"));
                        TOPO_VERSION.fetch_add(1, std::sync::atomic::Ordering::SeqCst);
                        if with_event {
                            let ip = w.cluster.nodes[n].ip;
                            w.broadcast_event("TOPOLOGY_CHANGE", wire::body_event_topology("NEW_NODE", ip, 9042));
                        }
                    }
                }
                3 => {
                    // Rack change of a member (node object re-created).
                    let members: Vec<usize> = (0..total).filter(|n| w.cluster.nodes[*n].in_ring).collect();
                    let n = members[pick % members.len()];
                    w.cluster.nodes[n].rack = format!("r{}", pick % 5);
                    w.fault(Fault::Topology);
                }
                7 => {
                    // The control host keeps its connections healthy but fails every
                    // system-table read for a while: fetches fail, refreshes must still be
                    // answered (with an error, or after failing over to another node).
                    let cc_node = w
                        .conns
                        .iter()
                        .find(|c| !c.srv_closed && !c.client_closed && !c.cql.registered.is_empty())
                        .map(|c| c.node);
                    if let Some(n) = cc_node {
                        // 5..40 s, or (1 in 4) for the rest of the run.
                        let until = if pick % 4 == 1 { u64::MAX } else { w.now() + (5 + (pick as u64 % 8) * 5) * SEC };
                        w.cluster.nodes[n].system_queries_fail_until = until;
                        w.fault(Fault::SrvError);
                        w.log(&format!("system_queries_fail node={n}"));
                    }
                }
                6 => {
                    // A member's token ownership changes (same membership, same labels).
                    let members: Vec<usize> = (0..total).filter(|n| w.cluster.nodes[*n].in_ring).collect();
                    let n = members[pick % members.len()];
                    let k = w.cluster.nodes[n].tokens.len() as i64;
                    w.cluster.nodes[n].tokens.push((n as i64) * 1000 + 500 + 13 * (k + 1) + (pick as i64));
                    if pick % 3 == 0 && w.cluster.nodes[n].tokens.len() > 2 {
                        w.cluster.nodes[n].tokens.remove(0);
                    }
                    w.fault(Fault::Topology);
                    w.log(&format!("tokens_changed node={n}"));
                    w.probe("tokens_changed");
                    TOPO_VERSION.fetch_add(1, std::sync::atomic::Ordering::SeqCst);
                    if with_event {
                        let ip = w.cluster.nodes[n].ip;
                        w.broadcast_event("TOPOLOGY_CHANGE", wire::body_event_topology("NEW_NODE", ip, 9042));
                    }
                    // Once the client has completely re-read system.peers (and this node is
                    // not the control host, whose tokens come from system.local) in a fetch
                    // that started after the change, the published ring must own the new tokens.
                    let seen = CHAOS_COUNT.load(std::sync::atomic::Ordering::SeqCst);
                    let t_event = w.now();
                    let session = session2.clone();
                    let late = late2.clone();
                    // The control host's own tokens come from system.local, which a fetch may
                    // have read before it started on system.peers: not judged for that node.
                    let is_control_host = w
                        .conns
                        .iter()
                        .any(|c| !c.srv_closed && !c.client_closed && !c.cql.registered.is_empty() && c.node == n);
                    tokio::spawn(async move {
                        if is_control_host {
                            return;
                        }
                        let mut fetched_at = None;
                        for _ in 0..100 {
                            world::sleep_ns(200 * MS).await;
                            if CHAOS_COUNT.load(std::sync::atomic::Ordering::SeqCst) != seen {
                                return;
                            }
                            let w = world::world();
                            if let Some(f) = w.peers_fetches.iter().find(|f| f.0 >= t_event && f.1 <= w.now()) {
                                fetched_at = Some(f.1);
                                break;
                            }
                        }
                        let Some(fetched_at) = fetched_at else { return };
                        let wait = if BLACKHOLES.load(std::sync::atomic::Ordering::SeqCst) == 0 { 3 } else { 40 } * SEC;
                        let t_wait = world::now_ns();
                        let mut ok = false;
                        while world::now_ns() - t_wait < wait {
                            world::sleep_ns(500 * MS).await;
                            if CHAOS_COUNT.load(std::sync::atomic::Ordering::SeqCst) != seen {
                                return;
                            }
                            if published_tokens(&session) == ring_tokens_now() {
                                ok = true;
                                break;
                            }
                        }
                        FETCH_JUDGED.fetch_add(1, std::sync::atomic::Ordering::SeqCst);
                        if !ok {
                            late.lock().unwrap().push(format!(
                                "token ownership of node {n} changed at {} ms; the client completely re-read system.peers by {} ms; {} quiet seconds later the published ring still differs from the cluster's",
                                t_event / MS,
                                fetched_at / MS,
                                wait / SEC
                            ));
                        }
                    });
                }
                4 => {
                    // Event flood.
                    w.fault(Fault::Topology);
                    for k in 0..(10 + pick) {
                        let ip = crate::cluster::node_ip(k % total);
                        let body = if k % 2 == 0 {
                            wire::body_event_status(if k % 4 == 0 { "UP" } else { "DOWN" }, ip, 9042)
                        } else {
                            wire::body_event_schema("UPDATED", "TABLE", "ks1", Some("t1"))
                        };
                        w.broadcast_event(if k % 2 == 0 { "STATUS_CHANGE" } else { "SCHEMA_CHANGE" }, body);
                    }
                }
                _ => {
                    // Control connection reset.
                    let cc: Vec<usize> = w
                        .conns
                        .iter()
                        .filter(|c| !c.srv_closed && !c.client_closed && !c.cql.registered.is_empty())
                        .map(|c| c.id)
                        .collect();
                    if let Some(c) = cc.first() {
                        w.fault(Fault::Rst);
                        w.srv_close_now(*c, true);
                    }
                }
            }
        }
    });
    // Samples whether any member can serve a metadata fetch at all (twice a second).
    let sampler_session = session.clone();
    let sampler = tokio::spawn(async move {
        loop {
            {
                // Only members the client has heard of count (plus its contact point).
                let known: BTreeSet<[u8; 16]> = sampler_session.get_cluster_state().get_nodes_info().iter().map(|n| *n.host_id.as_bytes()).collect();
                let w = world::world();
                let now = w.now();
                let usable = w
                    .cluster
                    .nodes
                    .iter()
                    .any(|n| (n.id == 0 || known.contains(&n.host_id)) && n.in_ring && n.up && !n.partitioned && n.system_queries_fail_until <= now);
                if !usable {
                    NO_USABLE_NODE_AT.store(now + 1, std::sync::atomic::Ordering::SeqCst);
                }
            }
            world::sleep_ns(500 * MS).await;
        }
    });
    // Callers of refresh_metadata().
    let mut handles = Vec::new();
    for _ in 0..plan.refreshers {
        let session = session.clone();
        let gaps: Vec<u64> = (0..6).map(|_| tape::range("c19:refresh_gap", 0, 3000) * MS).collect();
        // Some callers give up on their refresh after a few milliseconds (the call is
        // dropped while its request may already be queued or merged with others').
        let give_up: Vec<Option<u64>> = (0..6)
            .map(|_| if tape::chance("c19:refresh_cancel", 1, 4) { Some(tape::range("c19:refresh_cancel_after", 0, 40) * MS) } else { None })
            .collect();
        handles.push(tokio::spawn(async move {
            let mut slow = Vec::new();
            let mut stale: Vec<String> = Vec::new();
            let mut n = 0u64;
            for (g, give_up) in gaps.into_iter().zip(give_up) {
                world::sleep_ns(g).await;
                if let Some(after) = give_up {
                    if tokio::time::timeout(Duration::from_nanos(after.max(1)), session.refresh_metadata()).await.is_err() {
                        world::world().fault(Fault::Cancel);
                    }
                    n += 1;
                    continue;
                }
                let t = world::now_ns();
                let v0 = TOPO_VERSION.load(std::sync::atomic::Ordering::SeqCst);
                let ring0 = ring_now();
                let r = tokio::time::timeout(Duration::from_secs(240), session.refresh_metadata()).await;
                n += 1;
                match r {
                    Err(_) => {
                        // The deadline binds only if, during the whole wait, some member
                        // could serve a fetch: with every member unreachable or failing its
                        // system reads the driver answers one queued request per round of
                        // failed attempts (each taking connect timeouts), however many
                        // calls - also abandoned ones - are queued before this one.
                        if NO_USABLE_NODE_AT.load(std::sync::atomic::Ordering::SeqCst) > t {
                            world::world().probe("refresh_deadline_not_judged_no_usable_node");
                        } else {
                            slow.push(t);
                        }
                        break;
                    }
                    Ok(Ok(())) => {
                        // An answered refresh: the published state reflects a fetch made
                        // for it. If the ring did not change while it ran, that is exact.
                        if TOPO_VERSION.load(std::sync::atomic::Ordering::SeqCst) == v0 {
                            let published: BTreeSet<[u8; 16]> = session
                                .get_cluster_state()
                                .get_nodes_info()
                                .iter()
                                .map(|n| *n.host_id.as_bytes())
                                .collect();
                            if published != ring0 {
                                stale.push(format!(
                                    "refresh_metadata() called at {} ms returned Ok but the published state has {} nodes, the ring (unchanged during the call) has {} (missing {:?}, extra {:?})",
                                    t / MS,
                                    published.len(),
                                    ring0.len(),
                                    ring0.difference(&published).map(|h| h[4]).collect::<Vec<_>>(),
                                    published.difference(&ring0).map(|h| h[4]).collect::<Vec<_>>()
                                ));
                            }
                        }
                    }
                    Ok(Err(_)) => {}
                }
            }
            (n, slow, stale)
        }));
    }
    let mut refreshes = 0u64;
    for h in handles {
        match h.await {
            Ok((n, slow, stale)) => {
                refreshes += n;
                for m in stale {
                    out.violation("c19.published_state_stale", m);
                }
                for t in slow {
                    out.violation(
                        "c19.refresh_unanswered",
                        format!("refresh_metadata() called at {} ms was not answered within 240 virtual s", t / MS),
                    );
                }
            }
            Err(e) => out.violation("c19.client_task", format!("{e}")),
        }
    }
    let _ = chaos.await;
    sampler.abort();
    world::sleep_ns(70 * SEC).await;
    for m in late.lock().unwrap().iter() {
        out.violation("c19.event_not_reflected", m.clone());
    }
    // A total outage (1 in 4 runs with >= 2 members): the control host fails every system
    // read, every other member is unreachable (connection attempts hang until the connect
    // timeout). Nothing is queued at this point; ONE refresh_metadata() call must still be
    // answered - with an error - after some rounds of failed attempts. A round takes at most
    // 5 s per member; the driver picks a queued request up after a round with probability
    // 1/2 (its inter-attempt sleep has expired by then), hence the long deadline.
    {
        let members: Vec<usize> = {
            let w = world::world();
            w.cluster.nodes.iter().filter(|n| n.in_ring && n.up).map(|n| n.id).collect()
        };
        if members.len() >= 2 && tape::chance("c19:total_outage_phase", 1, 4) {
            {
                let mut w = world::world();
                let cc_node = w
                    .conns
                    .iter()
                    .find(|c| !c.srv_closed && !c.client_closed && !c.cql.registered.is_empty())
                    .map(|c| c.node)
                    .unwrap_or(members[0]);
                for n in &members {
                    if *n == cc_node {
                        w.cluster.nodes[*n].system_queries_fail_until = u64::MAX;
                    } else {
                        w.cluster.nodes[*n].partitioned = true;
                        for c in w.live_conns_of(*n) {
                            w.stall_conn(c);
                        }
                    }
                }
                w.fault(Fault::SrvError);
                w.log(&format!("total_outage control_host={cc_node}"));
                w.probe("total_outage_phase");
            }
            world::sleep_ns(20 * SEC).await;
            if tokio::time::timeout(Duration::from_secs(1500), session.refresh_metadata()).await.is_err() {
                out.violation(
                    "c19.refresh_unanswered",
                    format!("refresh_metadata() called during a total outage ({} members: the control host fails its system reads, the others are unreachable) with nothing else queued was not answered within 1500 virtual s", members.len()),
                );
            }
            refreshes += 1;
        }
    }
    // Faults stop: every member serves system reads again and is reachable again.
    {
        let mut w = world::world();
        for n in w.cluster.nodes.iter_mut() {
            n.system_queries_fail_until = 0;
            n.partitioned = false;
        }
        w.log("healed");
    }
    world::sleep_ns(60 * SEC).await;
    // Quiescence: faults stopped. One explicit refresh must be answered, and after
    // it (or a refresh interval) the published node set equals the cluster's.
    world::sleep_ns(8 * SEC).await;
    let mut answered_ok = false;
    for _ in 0..4 {
        match tokio::time::timeout(Duration::from_secs(240), session.refresh_metadata()).await {
            Err(_) => {
                out.violation("c19.refresh_unanswered", "refresh_metadata() after quiescence was not answered within 240 virtual s".into());
                break;
            }
            Ok(Ok(())) => {
                answered_ok = true;
                refreshes += 1;
                break;
            }
            Ok(Err(_)) => {
                refreshes += 1;
                world::sleep_ns(3 * SEC).await;
            }
        }
    }
    if answered_ok {
        let expected: BTreeSet<[u8; 16]> = {
            let w = world::world();
            w.cluster.nodes.iter().filter(|n| n.in_ring).map(|n| n.host_id).collect()
        };
        let published: BTreeSet<[u8; 16]> = session
            .get_cluster_state()
            .get_nodes_info()
            .iter()
            .map(|n| *n.host_id.as_bytes())
            .collect();
        if expected == published && published_tokens(&session) != ring_tokens_now() {
            out.violation(
                "c19.published_state_stale",
                "after a successful refresh the published ring's (token, owner) pairs differ from the cluster's".into(),
            );
        }
        if expected != published {
            out.violation(
                "c19.published_state_stale",
                format!(
                    "after a successful refresh the published state has {} nodes, the cluster has {} (missing {:?}, extra {:?})",
                    published.len(),
                    expected.len(),
                    expected.difference(&published).map(|h| h[4]).collect::<Vec<_>>(),
                    published.difference(&expected).map(|h| h[4]).collect::<Vec<_>>()
                ),
            );
        }
    }
    out.nontrivial = refreshes > 0;
    out.count("refresh_calls", refreshes);
    out.count("fetched_then_published_judged", FETCH_JUDGED.load(std::sync::atomic::Ordering::SeqCst));
    out.sample = json!({"initial": plan.initial, "spare": plan.spare, "events": plan.events, "refreshers": plan.refreshers, "refresh_interval_s": plan.refresh_interval_s, "refresh_calls": refreshes});
    out
}
