//! C19 (end-to-end half) - a metadata refresh that was requested is eventually
//! answered and the published state reflects the latest fetched topology.

use crate::client::{self, SessionCfg};
use crate::cluster::{Cluster, Strategy, host_id_for};
use crate::harness::{Outcome, SimSetup, run_sim};
use crate::runner::RunRequest;
use crate::tape;
use crate::wire;
use crate::world::{self, Fault, MS, NetCfg, SEC};
use scylla::client::PoolSize;
use serde_json::{Value, json};
use std::collections::BTreeSet;
use std::num::NonZeroUsize;
use std::sync::Arc;
use std::time::Duration;

/// Counts chaos events (to detect a quiet period after one).
static CHAOS_COUNT: std::sync::atomic::AtomicU64 = std::sync::atomic::AtomicU64::new(0);
/// Bumped by every change of the ring membership / host ids.
static TOPO_VERSION: std::sync::atomic::AtomicU64 = std::sync::atomic::AtomicU64::new(0);
/// Ring members that joined unreachable (connection attempts hang until the driver's
/// connect timeout): each can keep the publishing worker waiting for its pool once.
static BLACKHOLES: std::sync::atomic::AtomicU64 = std::sync::atomic::AtomicU64::new(0);

fn ring_now() -> BTreeSet<[u8; 16]> {
    let w = world::world();
    w.cluster.nodes.iter().filter(|n| n.in_ring).map(|n| n.host_id).collect()
}

#[derive(Clone, Debug)]
struct Plan {
    initial: usize,
    spare: usize,
    events: usize,
    refreshers: usize,
    refresh_interval_s: u64,
}

pub fn run(req: &RunRequest) -> Value {
    run_sim(req, move || {
        let plan = Plan {
            initial: tape::range("c19:initial", 1, 4) as usize,
            spare: tape::range("c19:spare", 1, 3) as usize,
            events: tape::range("c19:events", 1, 14) as usize,
            refreshers: tape::range("c19:refreshers", 0, 3) as usize,
            refresh_interval_s: [60, 5, 1][tape::choose("c19:refresh_interval", 3) as usize],
        };
        let mut cluster = Cluster::new("c19");
        for i in 0..plan.initial + plan.spare {
            let n = cluster.add_node("dc1", if i % 2 == 0 { "r1" } else { "r2" }, 0, vec![(i as i64) * 1000 - 2500, (i as i64) * 1000 + 7]);
            if i >= plan.initial {
                cluster.nodes[n].in_ring = false;
                cluster.nodes[n].up = false;
            }
        }
        client::standard_catalog(&mut cluster, Strategy::Simple(1), false);
        cluster.think_min = 0;
        cluster.think_max = [MS, 30 * MS][tape::choose("c19:think", 2) as usize];
        cluster.system_page_rows = tape::choose("c19:sys_page", 3) as usize;
        let net = NetCfg {
            chaos_yield_permille: [0, 50][tape::choose("c19:chaos", 2) as usize],
            ..NetCfg::default()
        };
        let setup = SimSetup {
            cluster,
            net,
            virt_cap: Duration::from_secs(3600),
            world_oracles: vec![],
            panic_is_violation: true,
            rlimit_as: None,
            alloc_limit: None,
        };
        (setup, move || main(plan))
    })
}

async fn main(plan: Plan) -> Outcome {
    let mut out = Outcome::default();
    TOPO_VERSION.store(0, std::sync::atomic::Ordering::SeqCst);
    CHAOS_COUNT.store(0, std::sync::atomic::Ordering::SeqCst);
    BLACKHOLES.store(0, std::sync::atomic::Ordering::SeqCst);
    let cfg = SessionCfg {
        contact_nodes: vec![0],
        pool: PoolSize::PerHost(NonZeroUsize::new(1).unwrap()),
        fetch_schema: tape::chance("c19:schema", 1, 2),
        refresh_interval: Duration::from_secs(plan.refresh_interval_s),
        keepalive_interval: Some(Duration::from_secs(3)),
        keepalive_timeout: Some(Duration::from_secs(2)),
        ..SessionCfg::default()
    };
    let session = match client::build_session(&cfg).await {
        Ok(s) => Arc::new(s),
        Err(e) => {
            out.inconclusive = Some(format!("session: {e}"));
            return out;
        }
    };
    let total = plan.initial + plan.spare;
    let span = 10 * SEC;
    // Topology changes, events (with or without, floods), control-connection faults.
    let mut evs = Vec::new();
    for _ in 0..plan.events {
        evs.push((
            tape::range("c19:at", 0, span),
            tape::weighted("c19:kind", &[3, 3, 2, 2, 2, 1]),
            tape::choose("c19:pick", 64) as usize,
            tape::chance("c19:with_event", 2, 3),
        ));
    }
    evs.sort();
    let late: Arc<std::sync::Mutex<Vec<String>>> = Arc::new(std::sync::Mutex::new(Vec::new()));
    let late2 = late.clone();
    let session2 = session.clone();
    let chaos = tokio::spawn(async move {
        let t0 = world::now_ns();
        for (at, kind, pick, with_event) in evs {
            let now = world::now_ns() - t0;
            if at > now {
                world::sleep_ns(at - now).await;
            }
            CHAOS_COUNT.fetch_add(1, std::sync::atomic::Ordering::SeqCst);
            let mut w = world::world();
            match kind {
                0 => {
                    // A spare node joins.
                    if let Some(n) = (0..total).find(|n| !w.cluster.nodes[*n].in_ring) {
                        w.cluster.nodes[n].in_ring = true;
                        w.cluster.nodes[n].up = true;
                        if pick % 4 == 3 {
                            // The new member is unreachable from the client: the worker that
                            // publishes the state waits for its pool (connect timeout) while
                            // further fetches pile up in the hand-off slot.
                            w.cluster.nodes[n].partitioned = true;
                            BLACKHOLES.fetch_add(1, std::sync::atomic::Ordering::SeqCst);
                        }
                        w.fault(Fault::Topology);
                        w.log(&format!("join node={n}"));
                        TOPO_VERSION.fetch_add(1, std::sync::atomic::Ordering::SeqCst);
                        if with_event {
                            let ip = w.cluster.nodes[n].ip;
                            w.broadcast_event("TOPOLOGY_CHANGE", wire::body_event_topology("NEW_NODE", ip, 9042));
                            // If nothing else happens for a while, the announced node must
                            // show up in the published state without any explicit refresh.
                            let host = w.cluster.nodes[n].host_id;
                            let seen = CHAOS_COUNT.load(std::sync::atomic::Ordering::SeqCst);
                            let has_cc = w.conns.iter().any(|c| !c.srv_closed && !c.client_closed && !c.cql.registered.is_empty());
                            if has_cc {
                                let session = session2.clone();
                                let late = late2.clone();
                                // Each unreachable member may hold the publication back by one
                                // connect timeout (5 s).
                                let wait = (6 + 6 * BLACKHOLES.load(std::sync::atomic::Ordering::SeqCst)) * SEC;
                                tokio::spawn(async move {
                                    world::sleep_ns(wait).await;
                                    if CHAOS_COUNT.load(std::sync::atomic::Ordering::SeqCst) != seen {
                                        return;
                                    }
                                    let published = session
                                        .get_cluster_state()
                                        .get_nodes_info()
                                        .iter()
                                        .any(|n| *n.host_id.as_bytes() == host);
                                    if !published {
                                        late.lock().unwrap().push(format!(
                                            "node {n} joined and NEW_NODE was sent at {} ms; {} quiet seconds later the published state still lacks it",
                                            (world::now_ns() - wait) / MS,
                                            wait / SEC
                                        ));
                                    }
                                });
                            }
                        }
                    }
                }
                1 => {
                    // A node (not the contact point) leaves.
                    let members: Vec<usize> = (1..total).filter(|n| w.cluster.nodes[*n].in_ring).collect();
                    if !members.is_empty() {
                        let n = members[pick % members.len()];
                        w.cluster.nodes[n].in_ring = false;
                        w.fault(Fault::Topology);
                        w.log(&format!("leave node={n}"));
                        TOPO_VERSION.fetch_add(1, std::sync::atomic::Ordering::SeqCst);
                        w.crash_node(n);
                        if with_event {
                            let ip = w.cluster.nodes[n].ip;
                            w.broadcast_event("TOPOLOGY_CHANGE", wire::body_event_topology("REMOVED_NODE", ip, 9042));
                        }
                    }
                }
                2 => {
                    // A node is replaced: same address, new host id.
                    let members: Vec<usize> = (1..total).filter(|n| w.cluster.nodes[*n].in_ring).collect();
                    if !members.is_empty() {
                        let n = members[pick % members.len()];
                        let generation = w.cluster.nodes[n].host_id[8] as u32 + 1;
                        w.cluster.nodes[n].host_id = host_id_for(n, generation);
                        w.fault(Fault::Topology);
                        w.log(&format!("replace node={n}"));
                        TOPO_VERSION.fetch_add(1, std::sync::atomic::Ordering::SeqCst);
                        if with_event {
                            let ip = w.cluster.nodes[n].ip;
                            w.broadcast_event("TOPOLOGY_CHANGE", wire::body_event_topology("NEW_NODE", ip, 9042));
                        }
                    }
                }
                3 => {
                    // Rack change of a member (node object re-created).
                    let members: Vec<usize> = (0..total).filter(|n| w.cluster.nodes[*n].in_ring).collect();
                    let n = members[pick % members.len()];
                    w.cluster.nodes[n].rack = format!("r{}", pick % 5);
                    w.fault(Fault::Topology);
                }
                4 => {
                    // Event flood.
                    w.fault(Fault::Topology);
                    for k in 0..(10 + pick) {
                        let ip = crate::cluster::node_ip(k % total);
                        let body = if k % 2 == 0 {
                            wire::body_event_status(if k % 4 == 0 { "UP" } else { "DOWN" }, ip, 9042)
                        } else {
                            wire::body_event_schema("UPDATED", "TABLE", "ks1", Some("t1"))
                        };
                        w.broadcast_event(if k % 2 == 0 { "STATUS_CHANGE" } else { "SCHEMA_CHANGE" }, body);
                    }
                }
                _ => {
                    // Control connection reset.
                    let cc: Vec<usize> = w
                        .conns
                        .iter()
                        .filter(|c| !c.srv_closed && !c.client_closed && !c.cql.registered.is_empty())
                        .map(|c| c.id)
                        .collect();
                    if let Some(c) = cc.first() {
                        w.fault(Fault::Rst);
                        w.srv_close_now(*c, true);
                    }
                }
            }
        }
    });
    // Callers of refresh_metadata().
    let mut handles = Vec::new();
    for _ in 0..plan.refreshers {
        let session = session.clone();
        let gaps: Vec<u64> = (0..6).map(|_| tape::range("c19:refresh_gap", 0, 3000) * MS).collect();
        handles.push(tokio::spawn(async move {
            let mut slow = Vec::new();
            let mut stale: Vec<String> = Vec::new();
            let mut n = 0u64;
            for g in gaps {
                world::sleep_ns(g).await;
                let t = world::now_ns();
                let v0 = TOPO_VERSION.load(std::sync::atomic::Ordering::SeqCst);
                let ring0 = ring_now();
                let r = tokio::time::timeout(Duration::from_secs(240), session.refresh_metadata()).await;
                n += 1;
                match r {
                    Err(_) => {
                        slow.push(t);
                        break;
                    }
                    Ok(Ok(())) => {
                        // An answered refresh: the published state reflects a fetch made
                        // for it. If the ring did not change while it ran, that is exact.
                        if TOPO_VERSION.load(std::sync::atomic::Ordering::SeqCst) == v0 {
                            let published: BTreeSet<[u8; 16]> = session
                                .get_cluster_state()
                                .get_nodes_info()
                                .iter()
                                .map(|n| *n.host_id.as_bytes())
                                .collect();
                            if published != ring0 {
                                stale.push(format!(
                                    "refresh_metadata() called at {} ms returned Ok but the published state has {} nodes, the ring (unchanged during the call) has {} (missing {:?}, extra {:?})",
                                    t / MS,
                                    published.len(),
                                    ring0.len(),
                                    ring0.difference(&published).map(|h| h[4]).collect::<Vec<_>>(),
                                    published.difference(&ring0).map(|h| h[4]).collect::<Vec<_>>()
                                ));
                            }
                        }
                    }
                    Ok(Err(_)) => {}
                }
            }
            (n, slow, stale)
        }));
    }
    let mut refreshes = 0u64;
    for h in handles {
        match h.await {
            Ok((n, slow, stale)) => {
                refreshes += n;
                for m in stale {
                    out.violation("c19.published_state_stale", m);
                }
                for t in slow {
                    out.violation(
                        "c19.refresh_unanswered",
                        format!("refresh_metadata() called at {} ms was not answered within 240 virtual s", t / MS),
                    );
                }
            }
            Err(e) => out.violation("c19.client_task", format!("{e}")),
        }
    }
    let _ = chaos.await;
    world::sleep_ns(26 * SEC).await;
    for m in late.lock().unwrap().iter() {
        out.violation("c19.event_not_reflected", m.clone());
    }
    // Quiescence: faults stopped. One explicit refresh must be answered, and after
    // it (or a refresh interval) the published node set equals the cluster's.
    world::sleep_ns(8 * SEC).await;
    let mut answered_ok = false;
    for _ in 0..4 {
        match tokio::time::timeout(Duration::from_secs(240), session.refresh_metadata()).await {
            Err(_) => {
                out.violation("c19.refresh_unanswered", "refresh_metadata() after quiescence was not answered within 240 virtual s".into());
                break;
            }
            Ok(Ok(())) => {
                answered_ok = true;
                refreshes += 1;
                break;
            }
            Ok(Err(_)) => {
                refreshes += 1;
                world::sleep_ns(3 * SEC).await;
            }
        }
    }
    if answered_ok {
        let expected: BTreeSet<[u8; 16]> = {
            let w = world::world();
            w.cluster.nodes.iter().filter(|n| n.in_ring).map(|n| n.host_id).collect()
        };
        let published: BTreeSet<[u8; 16]> = session
            .get_cluster_state()
            .get_nodes_info()
            .iter()
            .map(|n| *n.host_id.as_bytes())
            .collect();
        if expected != published {
            out.violation(
                "c19.published_state_stale",
                format!(
                    "after a successful refresh the published state has {} nodes, the cluster has {} (missing {:?}, extra {:?})",
                    published.len(),
                    expected.len(),
                    expected.difference(&published).map(|h| h[4]).collect::<Vec<_>>(),
                    published.difference(&expected).map(|h| h[4]).collect::<Vec<_>>()
                ),
            );
        }
    }
    out.nontrivial = refreshes > 0;
    out.count("refresh_calls", refreshes);
    out.sample = json!({"initial": plan.initial, "spare": plan.spare, "events": plan.events, "refreshers": plan.refreshers, "refresh_interval_s": plan.refresh_interval_s, "refresh_calls": refreshes});
    out
}
