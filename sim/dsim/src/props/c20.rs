//! C20 - after USE keyspace succeeds, all requests run on connections in that
//! keyspace; invalid names are rejected locally.

use crate::client::{self, SessionCfg};
use crate::cluster::{Cluster, KeyspaceDef, Reply, ReqInfo, Script, Strategy, parse_use};
use crate::harness::{Outcome, SimSetup, run_sim};
use crate::runner::RunRequest;
use crate::tape;
use crate::wire::{self, Request, err};
use crate::world::{self, Fault, MS, NetCfg, SEC, World};
use scylla::client::PoolSize;
use scylla::policies::retry::DefaultRetryPolicy;
use scylla::statement::Statement;
use serde_json::{Value, json};
use std::any::Any;
use std::num::NonZeroUsize;
use std::sync::{Arc, Mutex};
use std::time::Duration;

/// ("MixedCase" must be quoted; "mixedcase" is another keyspace, its lower-cased namesake.)
const KEYSPACES: [&str; 5] = ["ks1", "ksalpha", "ks_beta2", "MixedCase", "mixedcase"];

#[derive(Default)]
struct C20Script {
    use_slow_permille: u64,
    use_fail_permille: u64,
    /// Every USE statement text received.
    use_texts: Vec<String>,
    use_seen: u64,
}

impl Script for C20Script {
    fn observe(&mut self, _w: &mut World, _rq: &ReqInfo, req: &Request) {
        if let Request::Query { text, .. } = req {
            if parse_use(text).is_some() {
                self.use_seen += 1;
                if self.use_texts.len() < 10_000 {
                    self.use_texts.push(text.clone());
                }
            }
        }
    }
    fn on_system_request(&mut self, w: &mut World, _rq: &ReqInfo, req: &Request) -> Reply {
        if let Request::Query { text, .. } = req {
            if parse_use(text).is_some() {
                if self.use_fail_permille > 0 && tape::chance("c20:use_fail", self.use_fail_permille, 1000) {
                    return Reply::Error {
                        code: err::OVERLOADED,
                        msg: "overloaded".into(),
                        extra: vec![],
                        delay: w.think(),
                    };
                }
                if self.use_slow_permille > 0 && tape::chance("c20:use_slow", self.use_slow_permille, 1000) {
                    w.fault(Fault::Delay);
                    return Reply::DefaultAfter(tape::range("c20:use_slow_len", 20, 800) * MS);
                }
            }
        }
        Reply::Default
    }
    fn as_any(&mut self) -> &mut dyn Any {
        self
    }
}

#[derive(Clone, Debug)]
struct Plan {
    nodes: usize,
    shards: u32,
    pool: usize,
    requesters: usize,
    use_calls: usize,
    chaos_events: usize,
    add_node: bool,
    span_ms: u64,
    /// PerShard(pool) instead of PerHost(pool) (sharded nodes only).
    per_shard: bool,
    /// The client may not use the shard-aware port: connections land on whatever shard the
    /// node picks, and those that land on a shard which has enough already are set aside.
    no_shard_aware_port: bool,
}

pub fn run(req: &RunRequest) -> Value {
    run_sim(req, move || {
        let plan = Plan {
            nodes: tape::range("c20:nodes", 1, 4) as usize,
            shards: [0, 0, 2, 3][tape::choose("c20:shards", 4) as usize],
            pool: tape::range("c20:pool", 1, 3) as usize,
            requesters: tape::range("c20:requesters", 1, 4) as usize,
            use_calls: tape::range("c20:use_calls", 1, 5) as usize,
            chaos_events: tape::choose("c20:chaos_events", 8) as usize,
            add_node: tape::chance("c20:add_node", 1, 3),
            span_ms: tape::range("c20:span", 500, 4000),
            per_shard: tape::chance("c20:per_shard", 1, 3),
            no_shard_aware_port: tape::chance("c20:no_shard_aware_port", 1, 3),
        };
        ZERO_TOKEN.store(tape::chance("c20:zero_token_node", 1, 5), std::sync::atomic::Ordering::Relaxed);
        let mut cluster = Cluster::new("c20");
        for i in 0..plan.nodes + 1 {
            // 1 in 5 layouts with >= 2 nodes: the last initial node is a zero-token node (it
            // owns no data, is in no replica set and in no ring walk, but it is a member: it
            // has a pool, and requests pinned to it are served).
            let zero_token = plan.nodes >= 2 && i + 1 == plan.nodes && ZERO_TOKEN.load(std::sync::atomic::Ordering::Relaxed);
            let n = cluster.add_node("dc1", "r1", plan.shards, if zero_token { vec![] } else { vec![(i as i64) * 1000 - 2500] });
            if i == plan.nodes {
                // The extra node joins later (if at all).
                cluster.nodes[n].in_ring = false;
                cluster.nodes[n].up = false;
            }
        }
        client::standard_catalog(&mut cluster, Strategy::Simple(1), false);
        // "mixedcase": the lower-cased namesake of the case-sensitive name exists as well,
        // so that an unquoted `USE MixedCase` would succeed - in the wrong keyspace.
        for ks in KEYSPACES[1..].iter().copied() {
            cluster.keyspaces.push(KeyspaceDef {
                name: ks.to_string(),
                strategy: Strategy::Simple(1),
                tablets: false,
                tables: vec![],
            });
        }
        cluster.think_min = 0;
        cluster.think_max = [MS, 10 * MS][tape::choose("c20:think", 2) as usize];
        let net = NetCfg {
            chaos_yield_permille: [0, 50][tape::choose("c20:chaos", 2) as usize],
            connect_max: [3, 30][tape::choose("c20:connect", 2) as usize] * MS,
            ..NetCfg::default()
        };
        let setup = SimSetup {
            cluster,
            net,
            virt_cap: Duration::from_secs(1800),
            world_oracles: vec![],
            panic_is_violation: true,
            rlimit_as: None,
            alloc_limit: None,
        };
        (setup, move || main(plan))
    })
}

#[derive(Debug, Clone)]
struct UseCall {
    name: String,
    case_sensitive: bool,
    start: u64,
    end: u64,
    ok: bool,
}

fn valid_identifier(s: &str) -> bool {
    !s.is_empty() && s.chars().count() <= 48 && s.chars().all(|c| c.is_ascii_alphanumeric() || c == '_')
}

/// Whether the last initial node of this run is a zero-token node.
static ZERO_TOKEN: std::sync::atomic::AtomicBool = std::sync::atomic::AtomicBool::new(false);

fn draw_candidate_name() -> String {
    let len = tape::choose("c20:name_len", 61) as usize;
    let alphabet: Vec<char> = "abcXYZ019_ \"';-./\\*?\n\t\u{e9}\u{4e16}%$()".chars().collect();
    // Nearly valid: a valid identifier with one character that only LOOKS alphanumeric
    // (non-ASCII letters and digits), or one ASCII character outside [A-Za-z0-9_].
    if tape::chance("c20:name_nearly", 1, 4) {
        let ok: Vec<char> = "abcXYZ019_".chars().collect();
        let tricky: Vec<char> = "\u{e9}\u{434}\u{ff21}\u{b2}\u{663}\u{4e16}\u{df}\u{130}-. ".chars().collect();
        let n = 1 + tape::choose("c20:nearly_len", 47) as usize;
        let mut v: Vec<char> = (0..n).map(|_| ok[tape::choose("c20:name_char_ok", 10) as usize]).collect();
        let at = tape::choose("c20:nearly_at", n as u64) as usize;
        v[at] = tricky[tape::choose("c20:nearly_char", tricky.len() as u64) as usize];
        return v.into_iter().collect();
    }
    let wild = tape::chance("c20:name_wild", 2, 3);
    (0..len)
        .map(|_| {
            if wild {
                alphabet[tape::choose("c20:name_char", alphabet.len() as u64) as usize]
            } else {
                alphabet[tape::choose("c20:name_char_ok", 10) as usize]
            }
        })
        .collect()
}

async fn main(plan: Plan) -> Outcome {
    let mut out = Outcome::default();
    {
        let mut w = world::world();
        w.script = Some(Box::new(C20Script {
            use_slow_permille: [0, 200, 600][tape::choose("c20:use_slow_rate", 3) as usize],
            use_fail_permille: [0, 0, 150][tape::choose("c20:use_fail_rate", 3) as usize],
            ..Default::default()
        }));
    }
    let cfg = SessionCfg {
        contact_nodes: vec![0],
        pool: if plan.per_shard && plan.shards > 0 {
            PoolSize::PerShard(NonZeroUsize::new(plan.pool.min(2)).unwrap())
        } else {
            PoolSize::PerHost(NonZeroUsize::new(plan.pool).unwrap())
        },
        disallow_shard_aware_port: plan.no_shard_aware_port,
        // 1 in 3 sessions do not wait for schema agreement after schema-changing statements
        // (an unrelated convenience; setting the keyspace works the same).
        no_auto_schema_agreement: tape::chance("c20:no_auto_schema_agreement", 1, 3),
        retry: Some(Arc::new(DefaultRetryPolicy::new())),
        request_timeout: Some(Duration::from_secs(20)),
        keepalive_interval: Some(Duration::from_secs(3)),
        keepalive_timeout: Some(Duration::from_secs(2)),
        refresh_interval: Duration::from_secs([60, 2][tape::choose("c20:refresh", 2) as usize]),
        // 1 in 4: the keyspace is (also) set when the session is created; once the builder
        // has returned the session, that is a successful keyspace-setting call like any other.
        initial_keyspace: if tape::chance("c20:initial_keyspace", 1, 4) {
            let name = KEYSPACES[tape::choose("c20:initial_ks", KEYSPACES.len() as u64) as usize];
            Some((name.to_string(), name.chars().any(|c| c.is_ascii_uppercase())))
        } else {
            None
        },
        ..SessionCfg::default()
    };
    let build_start = world::now_ns();
    let session = match client::build_session(&cfg).await {
        Ok(s) => Arc::new(s),
        Err(e) => {
            out.inconclusive = Some(format!("session: {e}"));
            return out;
        }
    };
    let build_end = world::now_ns();
    world::sleep_ns(300 * MS).await;
    let span = plan.span_ms * MS;
    let t0 = world::now_ns();
    let stop = Arc::new(std::sync::atomic::AtomicBool::new(false));
    let invokes: Arc<Mutex<Vec<(u64, u64)>>> = Arc::new(Mutex::new(Vec::new()));

    // Requesters.
    let mut req_handles = Vec::new();
    // With a zero-token node: one more requester whose requests are pinned to that node
    // (single-target load balancing) - the default policy would never pick it.
    let pinned_profile = if ZERO_TOKEN.load(std::sync::atomic::Ordering::Relaxed) && plan.nodes >= 2 {
        let host = uuid::Uuid::from_bytes(world::world().cluster.nodes[plan.nodes - 1].host_id);
        out.count("zero_token_node_runs", 1);
        Some(
            scylla::client::execution_profile::ExecutionProfile::builder()
                .load_balancing_policy(scylla::policies::load_balancing::SingleTargetLoadBalancingPolicy::new(
                    scylla::policies::load_balancing::NodeIdentifier::HostId(host),
                    None,
                ))
                .build()
                .into_handle(),
        )
    } else {
        None
    };
    for r in 0..plan.requesters + pinned_profile.is_some() as usize {
        let pinned = if r == plan.requesters { pinned_profile.clone() } else { None };
        let session = session.clone();
        let stop = stop.clone();
        let invokes = invokes.clone();
        let gaps: Vec<u64> = (0..400).map(|_| tape::range("c20:req_gap", 1, 40) * MS).collect();
        req_handles.push(tokio::spawn(async move {
            let mut i = 0usize;
            while !stop.load(std::sync::atomic::Ordering::SeqCst) && i < 400 {
                let m = ((r * 1000 + i) as u64 + 1) * 16;
                invokes.lock().unwrap().push((m, world::now_ns()));
                let mut st = Statement::new(client::q_marker(m));
                st.set_is_idempotent(true);
                if let Some(h) = &pinned {
                    st.set_execution_profile_handle(Some(h.clone()));
                }
                let _ = session.query_unpaged(st, ()).await;
                world::sleep_ns(gaps[i]).await;
                i += 1;
            }
        }));
    }
    // Chaos: resets, node restart, node addition.
    let mut chaos = Vec::new();
    for _ in 0..plan.chaos_events {
        chaos.push((
            tape::range("c20:chaos_at", 0, span),
            tape::weighted("c20:chaos_kind", &[4, 2]),
            tape::choose("c20:chaos_pick", 64),
        ));
    }
    if plan.add_node {
        chaos.push((tape::range("c20:add_at", 0, span), 2, 0));
    }
    chaos.sort();
    let nodes = plan.nodes;
    let chaos_task = tokio::spawn(async move {
        for (at, kind, pick) in chaos {
            let now = world::now_ns() - t0;
            if at > now {
                world::sleep_ns(at - now).await;
            }
            match kind {
                0 => {
                    let mut w = world::world();
                    let live: Vec<usize> = w
                        .conns
                        .iter()
                        .filter(|c| !c.srv_closed && !c.client_closed && c.cql.registered.is_empty())
                        .map(|c| c.id)
                        .collect();
                    if !live.is_empty() {
                        let v = live[pick as usize % live.len()];
                        w.fault(Fault::Rst);
                        w.srv_close_now(v, true);
                    }
                }
                1 => {
                    let node = pick as usize % nodes;
                    world::world().crash_node(node);
                    world::sleep_ns(100 * MS).await;
                    world::world().restart_node(node, None);
                }
                _ => {
                    let mut w = world::world();
                    let n = nodes;
                    w.cluster.nodes[n].in_ring = true;
                    w.cluster.nodes[n].up = true;
                    w.fault(Fault::Topology);
                    w.log("node_added");
                    let ip = w.cluster.nodes[n].ip;
                    w.broadcast_event("TOPOLOGY_CHANGE", wire::body_event_topology("NEW_NODE", ip, 9042));
                }
            }
        }
    });
    // The USE caller: one call at a time (the documented usage).
    let mut calls: Vec<UseCall> = Vec::new();
    if let Some((name, cs)) = &cfg.initial_keyspace {
        out.count("keyspace_set_at_session_creation", 1);
        calls.push(UseCall { name: name.clone(), case_sensitive: *cs, start: build_start, end: build_end, ok: true });
    }
    for _ in 0..plan.use_calls {
        world::sleep_ns(tape::range("c20:use_gap", 0, span / plan.use_calls as u64)).await;
        let mut which = tape::choose("c20:which_ks", KEYSPACES.len() as u64) as usize;
        // After a failed call the application typically retries the same name.
        if let Some(last) = calls.last() {
            if !last.ok && tape::chance("c20:retry_same", 2, 3) {
                which = KEYSPACES.iter().position(|k| *k == last.name).unwrap_or(which);
            }
        }
        let name = KEYSPACES[which];
        let case_sensitive = name.chars().any(|c| c.is_ascii_uppercase());
        let start = world::now_ns();
        // The keyspace is set through Session::use_keyspace or (1 in 3) by running a USE
        // statement as an ordinary query: the driver notices the SetKeyspace result and
        // switches the whole session before the call returns.
        let via_query = tape::chance("c20:via_query", 1, 3);
        let res: Result<Result<(), String>, _> = if via_query {
            let text = if case_sensitive { format!("USE \"{name}\"") } else { format!("USE {name}") };
            // 1 in 2 such statements carry a request timeout that may run out while the
            // keyspace is still being set on the other connections: then the call fails -
            // it may not report success before every connection has acknowledged.
            let mut text = Statement::new(text);
            if tape::chance("c20:use_statement_timeout", 1, 2) {
                text.set_request_timeout(Some(Duration::from_millis(tape::range("c20:use_statement_timeout_ms", 30, 400))));
            }
            out.count("use_via_query", 1);
            // ... unpaged, as one manually fetched page, or through the paging iterator.
            match tape::choose("c20:via_query_api", 3) {
                0 => tokio::time::timeout(Duration::from_secs(120), async { session.query_unpaged(text, ()).await.map(|_| ()).map_err(|e| e.to_string()) }).await,
                1 => {
                    tokio::time::timeout(Duration::from_secs(120), async {
                        session.query_single_page(text, (), scylla::response::PagingState::start()).await.map(|_| ()).map_err(|e| e.to_string())
                    })
                    .await
                }
                _ => {
                    out.count("use_via_query_iter", 1);
                    tokio::time::timeout(Duration::from_secs(120), async { session.query_iter(text, ()).await.map(|_| ()).map_err(|e| e.to_string()) }).await
                }
            }
        } else {
            tokio::time::timeout(Duration::from_secs(120), async { session.use_keyspace(name, case_sensitive).await.map_err(|e| e.to_string()) }).await
        };
        let end = world::now_ns();
        match res {
            Ok(r) => calls.push(UseCall {
                name: name.to_string(),
                case_sensitive,
                start,
                end,
                ok: r.is_ok(),
            }),
            Err(_) => {
                out.violation("c20.use_hang", format!("use_keyspace({name}) did not return within 120 virtual s"));
                break;
            }
        }
    }
    // Keep requests flowing for a while after the last USE (reconnects, new node).
    let _ = chaos_task.await;
    world::sleep_ns(tape::range("c20:tail", 200, 6000) * MS).await;
    stop.store(true, std::sync::atomic::Ordering::SeqCst);
    for h in req_handles {
        let _ = tokio::time::timeout(Duration::from_secs(60), h).await;
    }

    // Validation part: candidate names.
    let n_names = tape::range("c20:names", 2, 10);
    let mut invalid_tried = Vec::new();
    let marker_before = { world::world().frames.len() };
    for _ in 0..n_names {
        let name = draw_candidate_name();
        let cs = tape::chance("c20:name_cs", 1, 2);
        let valid = valid_identifier(&name);
        let t = world::now_ns();
        let r = tokio::time::timeout(Duration::from_secs(60), session.use_keyspace(name.clone(), cs)).await;
        match r {
            Ok(Ok(())) if !valid => out.violation("c20.invalid_name_accepted", format!("use_keyspace({name:?}) succeeded")),
            Ok(Ok(())) => {
                // A valid but unknown name cannot succeed against this cluster.
                // (A valid but unknown name can "succeed" only when no pool has a connection to
                // ask; the property does not forbid that: no request can then be sent at all
                // before a connection acknowledges the name. Counted, not judged.)
                if !KEYSPACES.contains(&name.as_str()) && !KEYSPACES.iter().any(|k| k.eq_ignore_ascii_case(&name)) {
                    out.count("use_ok_without_any_connection", 1);
                }
                calls.push(UseCall { name: name.clone(), case_sensitive: cs, start: t, end: world::now_ns(), ok: true });
            }
            Ok(Err(_)) => {
                // A failed call leaves the keyspace unconstrained.
                calls.push(UseCall { name: name.clone(), case_sensitive: cs, start: t, end: world::now_ns(), ok: false });
            }
            Err(_) => out.violation("c20.use_hang", format!("use_keyspace({name:?}) did not return")),
        }
        if !valid {
            // The same invalid name again: still rejected.
            if let Ok(Ok(())) = tokio::time::timeout(Duration::from_secs(60), session.use_keyspace(name.clone(), cs)).await {
                out.violation("c20.invalid_name_accepted", format!("use_keyspace({name:?}) succeeded at the second attempt"));
            }
            invalid_tried.push(name);
        }
    }
    let _ = marker_before;

    // ---- oracle -------------------------------------------------------------
    let (frames, use_texts, use_seen) = {
        let mut w = world::world();
        let mut s = w.script.take().unwrap();
        let sc = s.as_any().downcast_mut::<C20Script>().unwrap();
        let r = (w.frames.clone(), sc.use_texts.clone(), sc.use_seen);
        w.script = Some(s);
        r
    };
    // Invalid names are never interpolated into a statement.
    for bad in &invalid_tried {
        if bad.is_empty() {
            continue;
        }
        for t in &use_texts {
            let rest = t.trim()[3..].trim();
            let inner = rest.trim_matches('"');
            if inner == bad.as_str() {
                out.violation("c20.invalid_name_sent", format!("a node received {t:?} for the invalid name {bad:?}"));
            }
        }
    }
    for t in &use_texts {
        let rest = t.trim()[3..].trim().trim_end_matches(';');
        let inner = rest.trim_matches('"');
        if !valid_identifier(inner) {
            out.violation("c20.invalid_name_sent", format!("a node received the statement {t:?}"));
        }
    }
    // Keyspace in force at frame arrival.
    let inv = invokes.lock().unwrap().clone();
    let mut constrained = 0u64;
    for (m, t_inv) in &inv {
        // The governing USE: the last call that STARTED before this invocation.
        let Some(last) = calls.iter().filter(|c| c.start <= *t_inv).max_by_key(|c| c.start) else {
            continue;
        };
        // Constrained only if that call had returned Ok before the invocation.
        if !(last.ok && last.end <= *t_inv) {
            continue;
        }
        let expected = if last.case_sensitive { last.name.clone() } else { last.name.to_ascii_lowercase() };
        // The next call (if any) ends the constrained window: a frame that arrives
        // after it started may already see the next keyspace.
        let next_start = calls.iter().filter(|c| c.start > *t_inv).map(|c| c.start).min().unwrap_or(u64::MAX);
        for f in frames.iter().filter(|f| f.marker == Some(*m) && f.opcode == wire::OP_QUERY) {
            if f.t >= next_start {
                continue;
            }
            constrained += 1;
            if f.keyspace.as_deref() != Some(expected.as_str()) {
                out.violation(
                    "c20.wrong_keyspace",
                    format!(
                        "request marker {m} invoked at {} ms, after use_keyspace({}) returned Ok at {} ms, arrived on connection {} (node {}) whose keyspace was {:?}",
                        t_inv / MS,
                        last.name,
                        last.end / MS,
                        f.conn,
                        f.node,
                        f.keyspace
                    ),
                );
            }
        }
    }
    out.nontrivial = constrained > 0;
    out.count("constrained_frames_checked", constrained);
    out.count("use_statements_seen", use_seen);
    out.count("use_calls_ok", calls.iter().filter(|c| c.ok).count() as u64);
    out.count("invalid_names_tried", invalid_tried.len() as u64);
    out.sample = json!({
        "nodes": plan.nodes, "shards": plan.shards, "pool": plan.pool, "requesters": plan.requesters,
        "use_calls": calls.iter().map(|c| (c.name.clone(), c.ok, c.start / MS, c.end / MS)).collect::<Vec<_>>(),
        "chaos_events": plan.chaos_events, "add_node": plan.add_node, "constrained": constrained,
        "invalid_names": invalid_tried.iter().take(3).collect::<Vec<_>>(),
    });
    let _ = SEC;
    out
}
