//! Per-property scenarios and oracles.

use crate::runner::ScenarioFn;

pub mod c02;
pub mod c10;

pub fn scenario_for(property: &str) -> Option<ScenarioFn> {
    match property {
        "C02" => Some(c02::run),
        "C10" => Some(c10::run),
        _ => None,
    }
}

/// (runs, per-run wall limit s, batch budget s) per tier.
pub fn budget(property: &str, tier: &str) -> (u64, u64, u64) {
    let quick = tier != "thorough";
    match property {
        _ if quick => (4000, 30, 75),
        _ => (200_000, 60, 900),
    }
}
