//! Per-property scenarios and oracles.

use crate::runner::ScenarioFn;

pub mod c02;
pub mod c06;
pub mod c07;
pub mod c08;
pub mod c10;
pub mod c12;
pub mod c13;
pub mod c14;
pub mod c15e;
pub mod c18e;
pub mod c19e;
pub mod c20;

pub fn scenario_for(property: &str) -> Option<ScenarioFn> {
    match property {
        "C02" => Some(c02::run),
        "C06" => Some(c06::run),
        "C07" => Some(c07::run),
        "C08" => Some(c08::run),
        "C10" => Some(c10::run),
        "C12" => Some(c12::run),
        "C13" => Some(c13::run),
        "C14" => Some(c14::run),
        "C15e" | "C12t" => Some(c15e::run),
        "C18e" => Some(c18e::run),
        "C19e" => Some(c19e::run),
        "C20" => Some(c20::run),
        _ => None,
    }
}

/// (runs, per-run wall limit s, batch budget s) per tier.
pub fn budget(property: &str, tier: &str) -> (u64, u64, u64) {
    let quick = tier != "thorough";
    match property {
        "C08" if quick => (30_000, 30, 80),
        "C08" => (600_000, 60, 900),
        "C02" if quick => (20_000, 30, 60),
        "C10" if quick => (16_000, 30, 60),
        "C15e" | "C12t" if quick => (20_000, 30, 40),
        "C18e" if quick => (30_000, 30, 30),
        "C19e" if quick => (20_000, 30, 40),
        "C15e" | "C12t" | "C18e" | "C19e" => (400_000, 60, 600),
        "C06" if quick => (30_000, 30, 60),
        "C07" if quick => (20_000, 30, 60),
        "C12" if quick => (8_000, 30, 60),
        "C13" if quick => (30_000, 30, 60),
        "C14" if quick => (30_000, 30, 60),
        "C20" if quick => (10_000, 30, 60),
        "C02" => (600_000, 60, 900),
        "C10" => (600_000, 60, 900),
        "C12" => (200_000, 60, 900),
        "C20" => (300_000, 60, 900),
        _ if quick => (4000, 30, 75),
        _ => (800_000, 60, 900),
    }
}
