//! One forked process per run; parallel single-threaded workers; minimisation.

use serde_json::{Value, json};
use std::io::Read;
use std::os::fd::FromRawFd;
use std::time::{Duration, Instant};

#[derive(Debug, Clone)]
pub struct RunRequest {
    pub property: String,
    pub tier: String,
    pub base_seed: u64,
    pub run_index: u64,
    /// Replay tape; `None` = generate from the seed.
    pub tape: Option<Vec<u64>>,
    pub trace: bool,
    /// Enumerated scenarios fix the seed of everything else so that the
    /// scripted exchange is identical across the enumeration.
    pub seed_override: Option<u64>,
}

impl RunRequest {
    pub fn run_seed(&self) -> u64 {
        if let Some(s) = self.seed_override {
            return s;
        }
        let mut h = crate::rng::Fnv::default();
        h.str(&self.property);
        crate::rng::mix(&[self.base_seed, h.0, self.run_index])
    }
}

#[derive(Debug, Clone)]
pub struct RunResult {
    /// ok | violation | inconclusive | crash | timeout | harness_error
    pub status: String,
    pub oracle: String,
    pub msg: String,
    pub report: Value,
    pub wall_ms: f64,
}

impl RunResult {
    pub fn is_violation(&self) -> bool {
        self.status == "violation" || self.status == "crash" || self.status == "timeout"
    }
    pub fn class(&self) -> String {
        format!("{}:{}", self.status, self.oracle)
    }
}

pub type ScenarioFn = fn(&RunRequest) -> Value;

/// Writes a note line to the report pipe right away, so that it survives a
/// crash of the child (e.g. which input was being decoded).
pub fn note(text: &str) {
    let fd = crate::shims::REPORT_FD.load(std::sync::atomic::Ordering::SeqCst);
    if fd >= 0 {
        let mut line = serde_json::to_vec(&json!({"note": text})).unwrap_or_default();
        line.push(b'\n');
        unsafe { libc::write(fd, line.as_ptr() as *const libc::c_void, line.len()) };
    }
}

/// Runs one simulation in a forked child and collects its report.
pub fn run_in_child(req: &RunRequest, f: ScenarioFn, wall_limit: Duration) -> RunResult {
    let started = Instant::now();
    let mut fds = [0i32; 2];
    if unsafe { libc::pipe(fds.as_mut_ptr()) } != 0 {
        return harness_error("pipe failed");
    }
    let pid = unsafe { libc::fork() };
    if pid < 0 {
        return harness_error("fork failed");
    }
    if pid == 0 {
        // ---- child ----
        unsafe { libc::close(fds[0]) };
        let wfd = fds[1];
        // A decoder or task that spins is caught by CPU time (robust against the
        // whole machine being paused or overloaded); the wall clock is only a
        // backstop against real blocking.
        let cpu = libc::rlimit {
            rlim_cur: wall_limit.as_secs().max(1),
            rlim_max: wall_limit.as_secs().max(1) + 5,
        };
        unsafe { libc::setrlimit(libc::RLIMIT_CPU, &cpu) };
        crate::shims::REPORT_FD.store(wfd, std::sync::atomic::Ordering::SeqCst);
        let req2 = req.clone();
        // C08 ("does not overflow the stack") runs the driver on a stack of the size its
        // tasks get in production: Tokio's default worker-thread stack, 2 MiB.
        let stack = if req.property == "C08" { 2 << 20 } else { crate::harness::SIM_STACK_BYTES };
        let handle = std::thread::Builder::new()
            .name("sim".into())
            .stack_size(stack)
            .spawn(move || f(&req2));
        let report = match handle {
            Ok(h) => match h.join() {
                Ok(v) => v,
                Err(_) => {
                    json!({"status": "violation", "oracle": "harness.panic", "msg": crate::harness::take_panics().join(" | "), "panicked": true})
                }
            },
            Err(e) => json!({"status": "harness_error", "msg": format!("thread spawn: {e}")}),
        };
        let mut line = serde_json::to_vec(&report).unwrap_or_else(|_| b"{}".to_vec());
        line.push(b'\n');
        let mut off = 0;
        while off < line.len() {
            let n = unsafe {
                libc::write(
                    wfd,
                    line[off..].as_ptr() as *const libc::c_void,
                    line.len() - off,
                )
            };
            if n <= 0 {
                break;
            }
            off += n as usize;
        }
        unsafe { libc::_exit(0) };
    }
    // ---- parent ----
    unsafe { libc::close(fds[1]) };
    let rfd = fds[0];
    let mut out: Vec<u8> = Vec::new();
    let deadline = started + wall_limit * 4;
    let mut timed_out = false;
    loop {
        let now = Instant::now();
        if now >= deadline {
            timed_out = true;
            break;
        }
        let ms = (deadline - now).as_millis().min(1000) as i32;
        let mut pfd = libc::pollfd {
            fd: rfd,
            events: libc::POLLIN,
            revents: 0,
        };
        let r = unsafe { libc::poll(&mut pfd, 1, ms) };
        if r < 0 {
            continue;
        }
        if r == 0 {
            continue;
        }
        let mut buf = [0u8; 65536];
        let n = unsafe { libc::read(rfd, buf.as_mut_ptr() as *mut libc::c_void, buf.len()) };
        if n <= 0 {
            break;
        }
        out.extend_from_slice(&buf[..n as usize]);
    }
    if timed_out {
        unsafe { libc::kill(pid, libc::SIGKILL) };
    }
    let mut status: i32 = 0;
    unsafe { libc::waitpid(pid, &mut status, 0) };
    // Drain anything left.
    {
        let mut f = unsafe { std::fs::File::from_raw_fd(rfd) };
        let _ = f.read_to_end(&mut out);
    }
    let wall_ms = started.elapsed().as_secs_f64() * 1e3;
    let text = String::from_utf8_lossy(&out);
    let mut oversize: Option<Value> = None;
    let mut report: Option<Value> = None;
    let mut notes: Vec<String> = Vec::new();
    for line in text.lines() {
        if let Ok(v) = serde_json::from_str::<Value>(line) {
            if let Some(n) = v.get("note").and_then(|n| n.as_str()) {
                notes.push(n.to_string());
            } else if v.get("oversize_alloc").is_some() {
                if oversize.is_none() {
                    oversize = Some(v);
                }
            } else {
                report = Some(v);
            }
        }
    }
    let signaled = libc::WIFSIGNALED(status);
    let sig = if signaled { libc::WTERMSIG(status) } else { 0 };
    let mut res = if timed_out {
        RunResult {
            status: "timeout".into(),
            oracle: "harness.wall_clock".into(),
            msg: format!("child exceeded {} s of wall clock (real block)", wall_limit.as_secs() * 4),
            report: report.unwrap_or(json!({})),
            wall_ms,
        }
    } else if signaled && sig == libc::SIGXCPU {
        RunResult {
            status: "timeout".into(),
            oracle: "harness.cpu_time".into(),
            msg: format!("child burnt more than {} s of CPU (busy loop)", wall_limit.as_secs()),
            report: report.unwrap_or(json!({})),
            wall_ms,
        }
    } else if signaled {
        RunResult {
            status: "crash".into(),
            oracle: format!("process.signal_{sig}"),
            msg: format!("child terminated by signal {sig}"),
            report: report.unwrap_or(json!({})),
            wall_ms,
        }
    } else if let Some(r) = report {
        RunResult {
            status: r["status"].as_str().unwrap_or("harness_error").to_string(),
            oracle: r["oracle"].as_str().unwrap_or("").to_string(),
            msg: r["msg"].as_str().unwrap_or("").to_string(),
            report: r,
            wall_ms,
        }
    } else {
        RunResult {
            status: "harness_error".into(),
            oracle: "".into(),
            msg: format!("child exited with status {status} without a report"),
            report: json!({}),
            wall_ms,
        }
    };
    if !notes.is_empty() && (res.status == "crash" || res.status == "timeout" || oversize.is_some()) {
        res.msg = format!("{} [{}]", res.msg, notes.join("; "));
        res.report["notes"] = json!(notes);
    }
    if let Some(o) = oversize {
        // An out-of-proportion allocation is a verdict in its own right (C08);
        // it outranks the abort that usually follows.
        res.report["oversize_alloc"] = o.clone();
        if res.status == "crash" || res.status == "ok" {
            res.msg = format!(
                "{} of {} bytes (limit {}); then: {}",
                if o.get("live").is_some() { "live allocations adding up to a total" } else { "single allocation" },
                o["oversize_alloc"],
                o["limit"],
                res.msg
            );
            res.status = "violation".into();
            res.oracle = "c08.alloc_out_of_proportion".into();
        }
    }
    res
}

fn harness_error(msg: &str) -> RunResult {
    RunResult {
        status: "harness_error".into(),
        oracle: "".into(),
        msg: msg.into(),
        report: json!({}),
        wall_ms: 0.0,
    }
}

/// Tape minimisation: keeps the same violation class.
pub fn minimise(
    req: &RunRequest,
    f: ScenarioFn,
    wall_limit: Duration,
    first: &RunResult,
    budget: usize,
) -> (Vec<u64>, RunResult, usize) {
    let class = first.class();
    let mut best: Vec<u64> = first.report["tape"]
        .as_array()
        .map(|a| a.iter().map(|v| v.as_u64().unwrap_or(0)).collect())
        .unwrap_or_default();
    let mut best_res = first.clone();
    let mut used = 0usize;
    // Minimisation is bounded in wall time too (slow failing runs, e.g. a retry loop
    // that only the virtual-time cap ends): past the limit every candidate is refused,
    // which ends all passes with the best tape so far.
    let t0 = Instant::now();
    let max_wall = Duration::from_secs(
        std::env::var("VERIF_MINIMISE_SECS").ok().and_then(|s| s.parse().ok()).unwrap_or(240),
    );
    let budget = budget.max(1);
    let try_tape = |tape: &Vec<u64>, used: &mut usize| -> Option<RunResult> {
        if *used > 0 && t0.elapsed() > max_wall {
            *used = (*used).max(budget);
            return None;
        }
        *used += 1;
        let mut r = req.clone();
        r.tape = Some(tape.clone());
        let res = run_in_child(&r, f, wall_limit);
        if res.class() == class { Some(res) } else { None }
    };
    // The recorded tape must reproduce at all.
    match try_tape(&best, &mut used) {
        Some(r) => {
            best_res = r;
            // Use the tape the replay actually consumed (it may be shorter).
            if let Some(a) = best_res.report["tape"].as_array() {
                let t: Vec<u64> = a.iter().map(|v| v.as_u64().unwrap_or(0)).collect();
                if t.len() <= best.len() {
                    best = t;
                }
            }
        }
        None => return (best, best_res, used),
    }
    let mut progress = true;
    while progress && used < budget {
        progress = false;
        // Pass 1: truncate the tail (halving).
        let mut keep = best.len() / 2;
        while keep < best.len() && used < budget {
            let cand: Vec<u64> = best[..keep].to_vec();
            if let Some(r) = try_tape(&cand, &mut used) {
                best = cand;
                best_res = r;
                progress = true;
                keep = best.len() / 2;
            } else {
                keep = keep + (best.len() - keep).div_ceil(2);
                if keep >= best.len() {
                    break;
                }
            }
        }
        // Pass 2: zero blocks, then delete blocks, with shrinking block size.
        let mut block = (best.len() / 4).max(1);
        while block >= 1 && used < budget {
            let mut i = 0;
            while i < best.len() && used < budget {
                let end = (i + block).min(best.len());
                if best[i..end].iter().any(|v| *v != 0) {
                    let mut cand = best.clone();
                    for v in &mut cand[i..end] {
                        *v = 0;
                    }
                    if let Some(r) = try_tape(&cand, &mut used) {
                        best = cand;
                        best_res = r;
                        progress = true;
                    }
                }
                i = end;
            }
            let mut i = 0;
            while i < best.len() && used < budget && block < best.len() {
                let end = (i + block).min(best.len());
                let mut cand = best[..i].to_vec();
                cand.extend_from_slice(&best[end..]);
                if let Some(r) = try_tape(&cand, &mut used) {
                    best = cand;
                    best_res = r;
                    progress = true;
                } else {
                    i = end;
                }
            }
            if block == 1 {
                break;
            }
            block /= 2;
        }
        // Pass 3: lower individual values.
        let mut i = 0;
        while i < best.len() && used < budget {
            if best[i] > 1 {
                let mut cand = best.clone();
                cand[i] /= 2;
                if let Some(r) = try_tape(&cand, &mut used) {
                    best = cand;
                    best_res = r;
                    progress = true;
                    continue;
                }
            }
            i += 1;
        }
    }
    // Trailing zeros carry no information (the tape is zero-extended on replay).
    while best.last() == Some(&0) {
        best.pop();
    }
    (best, best_res, used)
}

/// Forks `jobs` single-threaded workers; worker `k` handles run indices
/// `k, k+jobs, ...` below `runs`, or until the wall budget is spent. Each worker
/// writes one JSON line per interesting run plus a final summary line to its
/// own file; the caller merges.
pub fn run_batch(
    property: &str,
    tier: &str,
    base_seed: u64,
    runs: u64,
    jobs: usize,
    f: ScenarioFn,
    wall_limit: Duration,
    batch_budget: Duration,
    out_dir: &std::path::Path,
) -> Vec<Value> {
    let _ = std::fs::create_dir_all(out_dir);
    let mut pids = Vec::new();
    let started = Instant::now();
    for k in 0..jobs {
        let path = out_dir.join(format!("worker_{k}.jsonl"));
        let pid = unsafe { libc::fork() };
        if pid == 0 {
            let mut lines: Vec<String> = Vec::new();
            let mut agg = crate::evidence::Agg::default();
            let mut seen_classes: std::collections::BTreeMap<String, u32> = std::collections::BTreeMap::new();
            let mut idx = k as u64;
            while idx < runs {
                if started.elapsed() > batch_budget {
                    agg.budget_exhausted = true;
                    break;
                }
                let req = RunRequest {
                    property: property.to_string(),
                    tier: tier.to_string(),
                    base_seed,
                    run_index: idx,
                    tape: None,
                    trace: false,
                    seed_override: None,
                };
                let mut res = run_in_child(&req, f, wall_limit);
                if res.status == "timeout" {
                    // Confirm by replaying the same seed before believing it.
                    let again = run_in_child(&req, f, wall_limit);
                    if again.status != "timeout" {
                        agg.timeouts_not_confirmed += 1;
                    }
                    res = again;
                }
                agg.add(&req, &res);
                if res.status != "ok" {
                    // The full report (tape included) is needed only for the first run of a
                    // class; a change that fails every run must not exhaust memory.
                    let class = format!("{}:{}", res.status, res.oracle);
                    let seen = seen_classes.entry(class).or_insert(0u32);
                    *seen += 1;
                    let report = if *seen <= 1 { res.report.clone() } else { Value::Null };
                    let msg: String = res.msg.chars().take(2000).collect();
                    lines.push(
                        json!({"kind": "run", "run_index": idx, "status": res.status, "oracle": res.oracle, "msg": msg, "report": report, "wall_ms": res.wall_ms})
                            .to_string(),
                    );
                }
                idx += jobs as u64;
            }
            lines.push(json!({"kind": "summary", "agg": agg.to_json()}).to_string());
            let _ = std::fs::write(&path, lines.join("\n") + "\n");
            unsafe { libc::_exit(0) };
        }
        pids.push((pid, path));
    }
    let mut all = Vec::new();
    for (pid, path) in pids {
        let mut status = 0;
        unsafe { libc::waitpid(pid, &mut status, 0) };
        if let Ok(text) = std::fs::read_to_string(&path) {
            for l in text.lines() {
                if let Ok(v) = serde_json::from_str::<Value>(l) {
                    all.push(v);
                }
            }
        } else {
            all.push(json!({"kind": "worker_failed", "status": status}));
        }
        let _ = std::fs::remove_file(&path);
    }
    all
}
