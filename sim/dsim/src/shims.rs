//! Process-level seams: OS entropy and the allocator.
//!
//! * `getrandom` is defined here as a strong symbol, so std's `RandomState`
//!   (which looks the symbol up weakly), the `getrandom` crate (libc call),
//!   `rand::rng()` and `Uuid::new_v4()` all read a stream derived from the run
//!   seed instead of OS entropy.
//! * The global allocator counts and flags single allocation requests that are
//!   out of proportion (C08), writing the record to the report pipe *before*
//!   forwarding to the system allocator, so the verdict survives an abort.

use std::alloc::{GlobalAlloc, Layout, System};
use std::cell::Cell;
use std::sync::atomic::{AtomicI32, AtomicU64, AtomicUsize, Ordering};

static ENTROPY_SEED: AtomicU64 = AtomicU64::new(0x5EED_5EED_5EED_5EED);
static THREAD_ORDINALS: AtomicU64 = AtomicU64::new(0);
pub static ENTROPY_CALLS: AtomicU64 = AtomicU64::new(0);

thread_local! {
    static THREAD_ORDINAL: Cell<u64> = const { Cell::new(u64::MAX) };
    static THREAD_COUNTER: Cell<u64> = const { Cell::new(0) };
}

pub fn set_entropy_seed(seed: u64) {
    ENTROPY_SEED.store(seed, Ordering::SeqCst);
    THREAD_ORDINALS.store(0, Ordering::SeqCst);
}

fn splitmix(mut z: u64) -> u64 {
    z = z.wrapping_add(0x9E37_79B9_7F4A_7C15);
    z = (z ^ (z >> 30)).wrapping_mul(0xBF58_476D_1CE4_E5B9);
    z = (z ^ (z >> 27)).wrapping_mul(0x94D0_49BB_1331_11EB);
    z ^ (z >> 31)
}

fn fill(buf: &mut [u8]) {
    let ordinal = THREAD_ORDINAL.with(|o| {
        if o.get() == u64::MAX {
            o.set(THREAD_ORDINALS.fetch_add(1, Ordering::SeqCst));
        }
        o.get()
    });
    let seed = ENTROPY_SEED.load(Ordering::SeqCst);
    ENTROPY_CALLS.fetch_add(1, Ordering::Relaxed);
    let mut i = 0;
    while i < buf.len() {
        let c = THREAD_COUNTER.with(|c| {
            let v = c.get();
            c.set(v + 1);
            v
        });
        let word = splitmix(seed ^ splitmix(ordinal.wrapping_mul(0xA24B_AED4_963E_E407) ^ c));
        let bytes = word.to_le_bytes();
        let n = (buf.len() - i).min(8);
        buf[i..i + n].copy_from_slice(&bytes[..n]);
        i += n;
    }
}

/// Interposes libc's `getrandom(2)` wrapper.
///
/// # Safety
/// `buf` must be valid for `len` bytes, as for the libc function.
#[unsafe(no_mangle)]
pub unsafe extern "C" fn getrandom(buf: *mut u8, len: usize, _flags: u32) -> isize {
    if len == 0 {
        return 0;
    }
    let slice = unsafe { std::slice::from_raw_parts_mut(buf, len) };
    fill(slice);
    len as isize
}

// ---------------------------------------------------------------------------

pub struct CountingAlloc;

/// fd on which an oversize allocation is reported (-1: none).
pub static REPORT_FD: AtomicI32 = AtomicI32::new(-1);
/// Fixed part of the threshold.
pub static ALLOC_BASE_LIMIT: AtomicUsize = AtomicUsize::new(usize::MAX);
/// Bytes the simulated network has delivered to the driver so far.
pub static NET_BYTES_DELIVERED: AtomicUsize = AtomicUsize::new(0);
pub static MAX_SINGLE_ALLOC: AtomicUsize = AtomicUsize::new(0);
pub static OVERSIZE_ALLOCS: AtomicUsize = AtomicUsize::new(0);
/// Bytes currently allocated (all of the process: driver, mock, harness).
pub static LIVE_BYTES: AtomicUsize = AtomicUsize::new(0);
static LIVE_REPORTED: std::sync::atomic::AtomicBool = std::sync::atomic::AtomicBool::new(false);

/// Many allocations that are each below the single-allocation threshold can still add up to
/// memory out of proportion to the input: the live total is bounded by four times the base
/// limit plus 64 bytes per byte delivered.
#[inline]
fn observe_live(delta_up: usize) {
    let live = LIVE_BYTES.fetch_add(delta_up, Ordering::Relaxed) + delta_up;
    let base = ALLOC_BASE_LIMIT.load(Ordering::Relaxed);
    if base == usize::MAX {
        return;
    }
    let limit = base.saturating_mul(4).saturating_add(NET_BYTES_DELIVERED.load(Ordering::Relaxed).saturating_mul(64));
    if live > limit && !LIVE_REPORTED.swap(true, Ordering::Relaxed) {
        OVERSIZE_ALLOCS.fetch_add(1, Ordering::Relaxed);
        let fd = REPORT_FD.load(Ordering::Relaxed);
        if fd >= 0 {
            let mut line = [0u8; 112];
            let prefix = b"{\"oversize_alloc\":";
            line[..prefix.len()].copy_from_slice(prefix);
            let mut pos = write_num(&mut line, prefix.len(), live);
            let mid = b",\"limit\":";
            line[pos..pos + mid.len()].copy_from_slice(mid);
            pos = write_num(&mut line, pos + mid.len(), limit);
            let tail = b",\"live\":1}\n";
            line[pos..pos + tail.len()].copy_from_slice(tail);
            unsafe {
                libc::write(fd, line.as_ptr() as *const libc::c_void, pos + tail.len());
            }
        }
    }
}

fn write_num(out: &mut [u8], mut pos: usize, mut v: usize) -> usize {
    let mut tmp = [0u8; 24];
    let mut n = 0;
    if v == 0 {
        tmp[0] = b'0';
        n = 1;
    }
    while v > 0 {
        tmp[n] = b'0' + (v % 10) as u8;
        v /= 10;
        n += 1;
    }
    while n > 0 {
        n -= 1;
        out[pos] = tmp[n];
        pos += 1;
    }
    pos
}

#[inline]
fn observe(size: usize) {
    if size > MAX_SINGLE_ALLOC.load(Ordering::Relaxed) {
        MAX_SINGLE_ALLOC.store(size, Ordering::Relaxed);
    }
    let base = ALLOC_BASE_LIMIT.load(Ordering::Relaxed);
    if base == usize::MAX {
        return;
    }
    let limit = base.saturating_add(NET_BYTES_DELIVERED.load(Ordering::Relaxed).saturating_mul(16));
    if size > limit {
        OVERSIZE_ALLOCS.fetch_add(1, Ordering::Relaxed);
        let fd = REPORT_FD.load(Ordering::Relaxed);
        if fd >= 0 {
            // No allocation here: format by hand.
            let mut line = [0u8; 96];
            let prefix = b"{\"oversize_alloc\":";
            line[..prefix.len()].copy_from_slice(prefix);
            let mut pos = write_num(&mut line, prefix.len(), size);
            let mid = b",\"limit\":";
            line[pos..pos + mid.len()].copy_from_slice(mid);
            pos = write_num(&mut line, pos + mid.len(), limit);
            line[pos] = b'}';
            line[pos + 1] = b'\n';
            unsafe {
                libc::write(fd, line.as_ptr() as *const libc::c_void, pos + 2);
            }
        }
    }
}

unsafe impl GlobalAlloc for CountingAlloc {
    unsafe fn alloc(&self, layout: Layout) -> *mut u8 {
        observe(layout.size());
        observe_live(layout.size());
        unsafe { System.alloc(layout) }
    }
    unsafe fn dealloc(&self, ptr: *mut u8, layout: Layout) {
        LIVE_BYTES.fetch_sub(layout.size(), Ordering::Relaxed);
        unsafe { System.dealloc(ptr, layout) }
    }
    unsafe fn alloc_zeroed(&self, layout: Layout) -> *mut u8 {
        observe(layout.size());
        observe_live(layout.size());
        unsafe { System.alloc_zeroed(layout) }
    }
    unsafe fn realloc(&self, ptr: *mut u8, layout: Layout, new_size: usize) -> *mut u8 {
        observe(new_size);
        if new_size >= layout.size() {
            observe_live(new_size - layout.size());
        } else {
            LIVE_BYTES.fetch_sub(layout.size() - new_size, Ordering::Relaxed);
        }
        unsafe { System.realloc(ptr, layout, new_size) }
    }
}
