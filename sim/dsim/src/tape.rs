//! The choice tape: every decision of the simulator goes through `choose`.
//!
//! Generation mode: values come from a PRNG seeded by the run seed and are
//! recorded. Replay mode: values are read back (clamped to the site's range)
//! and the tape is extended by zeros when exhausted. Choice sites are designed
//! so that 0 is the boring choice.

use crate::rng::Rng;
use std::sync::Mutex;

pub struct Tape {
    rng: Option<Rng>,
    replay: Option<Vec<u64>>,
    pub recorded: Vec<u64>,
    pos: usize,
    /// Number of choices that were taken past the end of a replay tape.
    pub overrun: usize,
}

static TAPE: Mutex<Option<Tape>> = Mutex::new(None);

/// Choices recorded per run at most (the longest legitimate runs - a filled stream-id
/// space - use a few hundred thousand).
pub const TAPE_CAP: usize = 3_000_000;

pub fn install_generate(seed: u64) {
    *TAPE.lock().unwrap() = Some(Tape {
        rng: Some(Rng::new(seed)),
        replay: None,
        recorded: Vec::new(),
        pos: 0,
        overrun: 0,
    });
}

pub fn install_replay(values: Vec<u64>) {
    *TAPE.lock().unwrap() = Some(Tape {
        rng: None,
        replay: Some(values),
        recorded: Vec::new(),
        pos: 0,
        overrun: 0,
    });
}

pub fn take_recorded() -> Vec<u64> {
    TAPE.lock()
        .unwrap()
        .as_ref()
        .map(|t| t.recorded.clone())
        .unwrap_or_default()
}

pub fn position() -> usize {
    TAPE.lock().unwrap().as_ref().map(|t| t.pos).unwrap_or(0)
}

/// A value in `0..n`. `_site` documents the decision; it is not recorded.
pub fn choose(_site: &'static str, n: u64) -> u64 {
    if n <= 1 {
        return 0;
    }
    let mut guard = TAPE.lock().unwrap();
    let tape = guard.as_mut().expect("tape not installed");
    if tape.pos >= TAPE_CAP {
        // A run that never ends (e.g. a request repeated forever) must not grow the
        // tape without bound: past the cap every choice is the boring one, in
        // generation and in replay alike, and nothing more is recorded.
        tape.pos += 1;
        return 0;
    }
    let v = if let Some(rng) = tape.rng.as_mut() {
        rng.below(n)
    } else {
        let replay = tape.replay.as_ref().unwrap();
        if tape.pos < replay.len() {
            let raw = replay[tape.pos];
            if raw >= n { n - 1 } else { raw }
        } else {
            tape.overrun += 1;
            0
        }
    };
    tape.pos += 1;
    tape.recorded.push(v);
    v
}

/// True with probability `num/den`; the boring (0) outcome is `false`.
pub fn chance(site: &'static str, num: u64, den: u64) -> bool {
    if num == 0 {
        // Still consume nothing: a disabled fault kind must not shift the tape.
        return false;
    }
    let v = choose(site, den);
    v >= den - num.min(den)
}

/// A value in `lo..=hi`, boring outcome `lo`.
pub fn range(site: &'static str, lo: u64, hi: u64) -> u64 {
    lo + choose(site, hi - lo + 1)
}

/// Picks an index with the given weights; index 0 is the boring outcome and
/// owns tape value 0.
pub fn weighted(site: &'static str, weights: &[u64]) -> usize {
    let total: u64 = weights.iter().sum();
    if total == 0 {
        return 0;
    }
    let mut v = choose(site, total);
    for (i, w) in weights.iter().enumerate() {
        if v < *w {
            return i;
        }
        v -= *w;
    }
    weights.len() - 1
}
