//! Independent server-side CQL v4 codec, written from the protocol spec.
//! Nothing here calls the driver's encoders or decoders.

use std::net::IpAddr;

pub const OP_ERROR: u8 = 0x00;
pub const OP_STARTUP: u8 = 0x01;
pub const OP_READY: u8 = 0x02;
pub const OP_AUTHENTICATE: u8 = 0x03;
pub const OP_OPTIONS: u8 = 0x05;
pub const OP_SUPPORTED: u8 = 0x06;
pub const OP_QUERY: u8 = 0x07;
pub const OP_RESULT: u8 = 0x08;
pub const OP_PREPARE: u8 = 0x09;
pub const OP_EXECUTE: u8 = 0x0A;
pub const OP_REGISTER: u8 = 0x0B;
pub const OP_EVENT: u8 = 0x0C;
pub const OP_BATCH: u8 = 0x0D;
pub const OP_AUTH_CHALLENGE: u8 = 0x0E;
pub const OP_AUTH_RESPONSE: u8 = 0x0F;
pub const OP_AUTH_SUCCESS: u8 = 0x10;

pub const FLAG_COMPRESSION: u8 = 0x01;
pub const FLAG_TRACING: u8 = 0x02;
pub const FLAG_CUSTOM_PAYLOAD: u8 = 0x04;
pub const FLAG_WARNING: u8 = 0x08;

#[derive(Debug, Clone)]
pub struct WireErr(pub String);

pub type WResult<T> = Result<T, WireErr>;

fn short(what: &str) -> WireErr {
    WireErr(format!("short read: {what}"))
}

/// Cursor over a request body.
pub struct R<'a> {
    pub buf: &'a [u8],
}

impl<'a> R<'a> {
    pub fn new(buf: &'a [u8]) -> Self {
        R { buf }
    }
    pub fn remaining(&self) -> usize {
        self.buf.len()
    }
    pub fn take(&mut self, n: usize, what: &str) -> WResult<&'a [u8]> {
        if self.buf.len() < n {
            return Err(short(what));
        }
        let (a, b) = self.buf.split_at(n);
        self.buf = b;
        Ok(a)
    }
    pub fn u8(&mut self) -> WResult<u8> {
        Ok(self.take(1, "u8")?[0])
    }
    pub fn u16(&mut self) -> WResult<u16> {
        let b = self.take(2, "short")?;
        Ok(u16::from_be_bytes([b[0], b[1]]))
    }
    pub fn i16(&mut self) -> WResult<i16> {
        Ok(self.u16()? as i16)
    }
    pub fn i32(&mut self) -> WResult<i32> {
        let b = self.take(4, "int")?;
        Ok(i32::from_be_bytes([b[0], b[1], b[2], b[3]]))
    }
    pub fn i64(&mut self) -> WResult<i64> {
        let b = self.take(8, "long")?;
        let mut a = [0u8; 8];
        a.copy_from_slice(b);
        Ok(i64::from_be_bytes(a))
    }
    pub fn string(&mut self) -> WResult<String> {
        let n = self.u16()? as usize;
        let b = self.take(n, "string")?;
        String::from_utf8(b.to_vec()).map_err(|_| WireErr("bad utf8".into()))
    }
    pub fn long_string(&mut self) -> WResult<String> {
        let n = self.i32()?;
        if n < 0 {
            return Err(WireErr("negative long string".into()));
        }
        let b = self.take(n as usize, "long string")?;
        String::from_utf8(b.to_vec()).map_err(|_| WireErr("bad utf8".into()))
    }
    pub fn short_bytes(&mut self) -> WResult<Vec<u8>> {
        let n = self.u16()? as usize;
        Ok(self.take(n, "short bytes")?.to_vec())
    }
    /// `[bytes]`: `None` for null (length < 0).
    pub fn bytes(&mut self) -> WResult<Option<Vec<u8>>> {
        let n = self.i32()?;
        if n < 0 {
            return Ok(None);
        }
        Ok(Some(self.take(n as usize, "bytes")?.to_vec()))
    }
    /// `[value]`: null (-1), not set (-2) or bytes.
    pub fn value(&mut self) -> WResult<Value> {
        let n = self.i32()?;
        match n {
            -1 => Ok(Value::Null),
            -2 => Ok(Value::Unset),
            n if n < 0 => Err(WireErr("bad value length".into())),
            n => Ok(Value::Bytes(self.take(n as usize, "value")?.to_vec())),
        }
    }
    pub fn string_list(&mut self) -> WResult<Vec<String>> {
        let n = self.u16()?;
        (0..n).map(|_| self.string()).collect()
    }
    pub fn string_map(&mut self) -> WResult<Vec<(String, String)>> {
        let n = self.u16()?;
        (0..n)
            .map(|_| Ok((self.string()?, self.string()?)))
            .collect()
    }
}

#[derive(Debug, Clone, PartialEq, Eq)]
pub enum Value {
    Null,
    Unset,
    Bytes(Vec<u8>),
}

/// Writer for response bodies.
#[derive(Default, Clone)]
pub struct W {
    pub buf: Vec<u8>,
}

impl W {
    pub fn new() -> Self {
        W { buf: Vec::new() }
    }
    pub fn u8(&mut self, v: u8) -> &mut Self {
        self.buf.push(v);
        self
    }
    pub fn u16(&mut self, v: u16) -> &mut Self {
        self.buf.extend_from_slice(&v.to_be_bytes());
        self
    }
    pub fn i32(&mut self, v: i32) -> &mut Self {
        self.buf.extend_from_slice(&v.to_be_bytes());
        self
    }
    pub fn i64(&mut self, v: i64) -> &mut Self {
        self.buf.extend_from_slice(&v.to_be_bytes());
        self
    }
    pub fn raw(&mut self, b: &[u8]) -> &mut Self {
        self.buf.extend_from_slice(b);
        self
    }
    pub fn string(&mut self, s: &str) -> &mut Self {
        self.u16(s.len() as u16);
        self.raw(s.as_bytes())
    }
    pub fn long_string(&mut self, s: &str) -> &mut Self {
        self.i32(s.len() as i32);
        self.raw(s.as_bytes())
    }
    pub fn short_bytes(&mut self, b: &[u8]) -> &mut Self {
        self.u16(b.len() as u16);
        self.raw(b)
    }
    pub fn bytes(&mut self, b: Option<&[u8]>) -> &mut Self {
        match b {
            None => self.i32(-1),
            Some(b) => {
                self.i32(b.len() as i32);
                self.raw(b)
            }
        }
    }
    pub fn string_list(&mut self, l: &[String]) -> &mut Self {
        self.u16(l.len() as u16);
        for s in l {
            self.string(s);
        }
        self
    }
    pub fn string_multimap(&mut self, m: &[(String, Vec<String>)]) -> &mut Self {
        self.u16(m.len() as u16);
        for (k, v) in m {
            self.string(k);
            self.string_list(v);
        }
        self
    }
    pub fn inet(&mut self, ip: IpAddr, port: i32) -> &mut Self {
        match ip {
            IpAddr::V4(a) => {
                self.u8(4);
                self.raw(&a.octets());
            }
            IpAddr::V6(a) => {
                self.u8(16);
                self.raw(&a.octets());
            }
        }
        self.i32(port)
    }
}

// ---------------------------------------------------------------------------
// Column types and cell values (the subset the mock emits).

#[derive(Debug, Clone, PartialEq, Eq)]
pub enum CType {
    Ascii,
    BigInt,
    Blob,
    Boolean,
    Int,
    Text,
    Uuid,
    Inet,
    SmallInt,
    TinyInt,
    Double,
    Timestamp,
    List(Box<CType>),
    Set(Box<CType>),
    Map(Box<CType>, Box<CType>),
    Tuple(Vec<CType>),
    Udt {
        ks: String,
        name: String,
        fields: Vec<(String, CType)>,
    },
    /// Raw option id + raw trailing bytes: for field-aware mutations.
    Raw(u16, Vec<u8>),
}

impl CType {
    pub fn write(&self, w: &mut W) {
        match self {
            CType::Ascii => {
                w.u16(0x0001);
            }
            CType::BigInt => {
                w.u16(0x0002);
            }
            CType::Blob => {
                w.u16(0x0003);
            }
            CType::Boolean => {
                w.u16(0x0004);
            }
            CType::Double => {
                w.u16(0x0007);
            }
            CType::Int => {
                w.u16(0x0009);
            }
            CType::Timestamp => {
                w.u16(0x000B);
            }
            CType::Uuid => {
                w.u16(0x000C);
            }
            CType::Text => {
                w.u16(0x000D);
            }
            CType::Inet => {
                w.u16(0x0010);
            }
            CType::SmallInt => {
                w.u16(0x0013);
            }
            CType::TinyInt => {
                w.u16(0x0014);
            }
            CType::List(t) => {
                w.u16(0x0020);
                t.write(w);
            }
            CType::Map(k, v) => {
                w.u16(0x0021);
                k.write(w);
                v.write(w);
            }
            CType::Set(t) => {
                w.u16(0x0022);
                t.write(w);
            }
            CType::Udt { ks, name, fields } => {
                w.u16(0x0030);
                w.string(ks);
                w.string(name);
                w.u16(fields.len() as u16);
                for (n, t) in fields {
                    w.string(n);
                    t.write(w);
                }
            }
            CType::Tuple(ts) => {
                w.u16(0x0031);
                w.u16(ts.len() as u16);
                for t in ts {
                    t.write(w);
                }
            }
            CType::Raw(id, rest) => {
                w.u16(*id);
                w.raw(rest);
            }
        }
    }
}

/// A logical cell value; `encode` gives the CQL v4 serialized form
/// (without the length prefix).
#[derive(Debug, Clone, PartialEq)]
pub enum Cell {
    Null,
    Int(i32),
    BigInt(i64),
    SmallInt(i16),
    TinyInt(i8),
    Boolean(bool),
    Double(f64),
    Text(String),
    Blob(Vec<u8>),
    Uuid([u8; 16]),
    Inet(IpAddr),
    List(Vec<Cell>),
    Map(Vec<(Cell, Cell)>),
    Tuple(Vec<Cell>),
    /// Pre-encoded bytes.
    Raw(Vec<u8>),
}

impl Cell {
    pub fn encode(&self) -> Option<Vec<u8>> {
        Some(match self {
            Cell::Null => return None,
            Cell::Int(v) => v.to_be_bytes().to_vec(),
            Cell::BigInt(v) => v.to_be_bytes().to_vec(),
            Cell::SmallInt(v) => v.to_be_bytes().to_vec(),
            Cell::TinyInt(v) => v.to_be_bytes().to_vec(),
            Cell::Boolean(v) => vec![*v as u8],
            Cell::Double(v) => v.to_be_bytes().to_vec(),
            Cell::Text(s) => s.as_bytes().to_vec(),
            Cell::Blob(b) => b.clone(),
            Cell::Uuid(u) => u.to_vec(),
            Cell::Inet(IpAddr::V4(a)) => a.octets().to_vec(),
            Cell::Inet(IpAddr::V6(a)) => a.octets().to_vec(),
            Cell::List(items) => {
                let mut w = W::new();
                w.i32(items.len() as i32);
                for it in items {
                    w.bytes(it.encode().as_deref());
                }
                w.buf
            }
            Cell::Map(items) => {
                let mut w = W::new();
                w.i32(items.len() as i32);
                for (k, v) in items {
                    w.bytes(k.encode().as_deref());
                    w.bytes(v.encode().as_deref());
                }
                w.buf
            }
            Cell::Tuple(items) => {
                let mut w = W::new();
                for it in items {
                    w.bytes(it.encode().as_deref());
                }
                w.buf
            }
            Cell::Raw(b) => b.clone(),
        })
    }
}

#[derive(Debug, Clone, PartialEq)]
pub struct ColSpec {
    pub ks: String,
    pub table: String,
    pub name: String,
    pub typ: CType,
}

pub fn col(ks: &str, table: &str, name: &str, typ: CType) -> ColSpec {
    ColSpec {
        ks: ks.into(),
        table: table.into(),
        name: name.into(),
        typ,
    }
}

/// Writes `<global_table_spec>? <col_spec>*` choosing the global form when all
/// columns share a table (as real servers do).
pub fn write_col_specs(w: &mut W, cols: &[ColSpec], global: bool) {
    if global && !cols.is_empty() {
        w.string(&cols[0].ks);
        w.string(&cols[0].table);
    }
    for c in cols {
        if !global {
            w.string(&c.ks);
            w.string(&c.table);
        }
        w.string(&c.name);
        c.typ.write(w);
    }
}

pub fn cols_share_table(cols: &[ColSpec]) -> bool {
    !cols.is_empty()
        && cols
            .iter()
            .all(|c| c.ks == cols[0].ks && c.table == cols[0].table)
}

// ---------------------------------------------------------------------------
// Frames

#[derive(Debug, Clone)]
pub struct ReqFrame {
    pub version: u8,
    pub flags: u8,
    pub stream: i16,
    pub opcode: u8,
    pub body: Vec<u8>,
}

pub const HEADER: usize = 9;

/// Tries to cut one complete request frame from the front of `buf`.
pub fn try_parse_frame(buf: &mut Vec<u8>) -> Option<ReqFrame> {
    if buf.len() < HEADER {
        return None;
    }
    let len = u32::from_be_bytes([buf[5], buf[6], buf[7], buf[8]]) as usize;
    if buf.len() < HEADER + len {
        return None;
    }
    let frame = ReqFrame {
        version: buf[0],
        flags: buf[1],
        stream: i16::from_be_bytes([buf[2], buf[3]]),
        opcode: buf[4],
        body: buf[HEADER..HEADER + len].to_vec(),
    };
    buf.drain(..HEADER + len);
    Some(frame)
}

#[derive(Debug, Clone, Copy, PartialEq, Eq)]
pub enum Compression {
    Lz4,
    Snappy,
}

pub fn decompress(body: &[u8], c: Compression) -> WResult<Vec<u8>> {
    match c {
        Compression::Lz4 => {
            if body.len() < 4 {
                return Err(short("lz4 prefix"));
            }
            let n = u32::from_be_bytes([body[0], body[1], body[2], body[3]]) as usize;
            if n > 64 << 20 {
                return Err(WireErr("lz4 too large".into()));
            }
            lz4_flex::decompress(&body[4..], n).map_err(|e| WireErr(format!("lz4: {e}")))
        }
        Compression::Snappy => snap::raw::Decoder::new()
            .decompress_vec(body)
            .map_err(|e| WireErr(format!("snappy: {e}"))),
    }
}

pub fn compress(body: &[u8], c: Compression) -> Vec<u8> {
    match c {
        Compression::Lz4 => {
            let mut out = (body.len() as u32).to_be_bytes().to_vec();
            out.extend_from_slice(&lz4_flex::compress(body));
            out
        }
        Compression::Snappy => snap::raw::Encoder::new().compress_vec(body).unwrap(),
    }
}

/// Response envelope extras.
#[derive(Debug, Clone, Default)]
pub struct Envelope {
    pub tracing_id: Option<[u8; 16]>,
    pub warnings: Vec<String>,
    pub custom_payload: Vec<(String, Vec<u8>)>,
    /// Extra header flag bits (e.g. the LWT mark).
    pub extra_flags: u8,
}

pub fn encode_response(
    stream: i16,
    opcode: u8,
    body: &[u8],
    env: &Envelope,
    compression: Option<Compression>,
) -> Vec<u8> {
    let mut flags = env.extra_flags;
    let mut full = W::new();
    if let Some(t) = env.tracing_id {
        flags |= FLAG_TRACING;
        full.raw(&t);
    }
    if !env.warnings.is_empty() {
        flags |= FLAG_WARNING;
        full.string_list(&env.warnings);
    }
    if !env.custom_payload.is_empty() {
        flags |= FLAG_CUSTOM_PAYLOAD;
        full.u16(env.custom_payload.len() as u16);
        for (k, v) in &env.custom_payload {
            full.string(k);
            full.bytes(Some(v));
        }
    }
    full.raw(body);
    let mut payload = full.buf;
    if let Some(c) = compression {
        // Real servers do not compress tiny bodies; either is legal.
        if !payload.is_empty() {
            payload = compress(&payload, c);
            flags |= FLAG_COMPRESSION;
        }
    }
    let mut out = Vec::with_capacity(HEADER + payload.len());
    out.push(0x84);
    out.push(flags);
    out.extend_from_slice(&stream.to_be_bytes());
    out.push(opcode);
    out.extend_from_slice(&(payload.len() as u32).to_be_bytes());
    out.extend_from_slice(&payload);
    out
}

// ---------------------------------------------------------------------------
// Requests

#[derive(Debug, Clone, Default)]
pub struct QueryParams {
    pub consistency: u16,
    pub flags: u8,
    pub values: Vec<Value>,
    pub value_names: Vec<String>,
    pub skip_metadata: bool,
    pub page_size: Option<i32>,
    pub paging_state: Option<Vec<u8>>,
    pub serial_consistency: Option<u16>,
    pub timestamp: Option<i64>,
}

pub fn parse_query_params(r: &mut R) -> WResult<QueryParams> {
    let consistency = r.u16()?;
    let flags = r.u8()?;
    let mut p = QueryParams {
        consistency,
        flags,
        skip_metadata: flags & 0x02 != 0,
        ..Default::default()
    };
    if flags & 0x01 != 0 {
        let n = r.u16()?;
        for _ in 0..n {
            if flags & 0x40 != 0 {
                p.value_names.push(r.string()?);
            }
            p.values.push(r.value()?);
        }
    }
    if flags & 0x04 != 0 {
        p.page_size = Some(r.i32()?);
    }
    if flags & 0x08 != 0 {
        p.paging_state = r.bytes()?;
    }
    if flags & 0x10 != 0 {
        p.serial_consistency = Some(r.u16()?);
    }
    if flags & 0x20 != 0 {
        p.timestamp = Some(r.i64()?);
    }
    Ok(p)
}

#[derive(Debug, Clone)]
pub enum BatchStmt {
    Query(String),
    Prepared(Vec<u8>),
}

#[derive(Debug, Clone)]
pub struct BatchReq {
    pub batch_type: u8,
    pub statements: Vec<(BatchStmt, Vec<Value>)>,
    pub consistency: u16,
    pub serial_consistency: Option<u16>,
    pub timestamp: Option<i64>,
}

#[derive(Debug, Clone)]
pub enum Request {
    Startup(Vec<(String, String)>),
    Options,
    AuthResponse(Option<Vec<u8>>),
    Register(Vec<String>),
    Query {
        text: String,
        params: QueryParams,
    },
    Prepare {
        text: String,
    },
    Execute {
        id: Vec<u8>,
        result_metadata_id: Option<Vec<u8>>,
        params: QueryParams,
    },
    Batch(BatchReq),
}

pub fn parse_request(opcode: u8, body: &[u8], metadata_id_ext: bool) -> WResult<Request> {
    let mut r = R::new(body);
    let req = match opcode {
        OP_STARTUP => Request::Startup(r.string_map()?),
        OP_OPTIONS => Request::Options,
        OP_AUTH_RESPONSE => Request::AuthResponse(r.bytes()?),
        OP_REGISTER => Request::Register(r.string_list()?),
        OP_QUERY => {
            let text = r.long_string()?;
            let params = parse_query_params(&mut r)?;
            Request::Query { text, params }
        }
        OP_PREPARE => Request::Prepare {
            text: r.long_string()?,
        },
        OP_EXECUTE => {
            let id = r.short_bytes()?;
            let result_metadata_id = if metadata_id_ext {
                Some(r.short_bytes()?)
            } else {
                None
            };
            let params = parse_query_params(&mut r)?;
            Request::Execute {
                id,
                result_metadata_id,
                params,
            }
        }
        OP_BATCH => {
            let batch_type = r.u8()?;
            let n = r.u16()?;
            let mut statements = Vec::new();
            for _ in 0..n {
                let kind = r.u8()?;
                let stmt = match kind {
                    0 => BatchStmt::Query(r.long_string()?),
                    1 => BatchStmt::Prepared(r.short_bytes()?),
                    k => return Err(WireErr(format!("bad batch statement kind {k}"))),
                };
                let nv = r.u16()?;
                let mut values = Vec::new();
                for _ in 0..nv {
                    values.push(r.value()?);
                }
                statements.push((stmt, values));
            }
            let consistency = r.u16()?;
            let flags = r.u8()?;
            let serial_consistency = if flags & 0x10 != 0 {
                Some(r.u16()?)
            } else {
                None
            };
            let timestamp = if flags & 0x20 != 0 {
                Some(r.i64()?)
            } else {
                None
            };
            Request::Batch(BatchReq {
                batch_type,
                statements,
                consistency,
                serial_consistency,
                timestamp,
            })
        }
        op => return Err(WireErr(format!("unknown opcode {op:#x}"))),
    };
    if r.remaining() != 0 {
        return Err(WireErr(format!(
            "{} trailing bytes after request (opcode {opcode:#x})",
            r.remaining()
        )));
    }
    Ok(req)
}

// ---------------------------------------------------------------------------
// Response bodies

pub fn body_supported(options: &[(String, Vec<String>)]) -> Vec<u8> {
    let mut w = W::new();
    w.string_multimap(options);
    w.buf
}

pub fn body_error(code: i32, msg: &str, extra: &[u8]) -> Vec<u8> {
    let mut w = W::new();
    w.i32(code);
    w.string(msg);
    w.raw(extra);
    w.buf
}

pub fn body_void() -> Vec<u8> {
    let mut w = W::new();
    w.i32(0x0001);
    w.buf
}

pub fn body_set_keyspace(ks: &str) -> Vec<u8> {
    let mut w = W::new();
    w.i32(0x0003);
    w.string(ks);
    w.buf
}

#[derive(Debug, Clone, Default)]
pub struct RowsOpts {
    pub no_metadata: bool,
    pub paging_state: Option<Vec<u8>>,
    /// With the metadata-id extension: announce a new id (flag 0x0008).
    pub new_metadata_id: Option<Vec<u8>>,
}

pub fn body_rows(cols: &[ColSpec], rows: &[Vec<Cell>], opts: &RowsOpts) -> Vec<u8> {
    let mut w = W::new();
    w.i32(0x0002);
    let global = cols_share_table(cols) && !opts.no_metadata;
    let mut flags = 0i32;
    if global {
        flags |= 0x0001;
    }
    if opts.paging_state.is_some() {
        flags |= 0x0002;
    }
    if opts.no_metadata {
        flags |= 0x0004;
    }
    if opts.new_metadata_id.is_some() && !opts.no_metadata {
        flags |= 0x0008;
    }
    w.i32(flags);
    w.i32(cols.len() as i32);
    if let Some(ps) = &opts.paging_state {
        w.bytes(Some(ps));
    }
    if flags & 0x0008 != 0 {
        w.short_bytes(opts.new_metadata_id.as_ref().unwrap());
    }
    if !opts.no_metadata {
        write_col_specs(&mut w, cols, global);
    }
    w.i32(rows.len() as i32);
    for row in rows {
        for cell in row {
            w.bytes(cell.encode().as_deref());
        }
    }
    w.buf
}

pub struct PreparedBody<'a> {
    pub id: &'a [u8],
    pub result_metadata_id: Option<&'a [u8]>,
    pub bind_cols: &'a [ColSpec],
    pub pk_indexes: &'a [u16],
    pub result_cols: &'a [ColSpec],
    /// ScyllaDB's "this is a conditional statement" mark in the prepared metadata flags
    /// (the bit announced as LWT_OPTIMIZATION_META_BIT_MASK in SUPPORTED).
    pub lwt_mark: bool,
}

pub fn body_prepared(p: &PreparedBody) -> Vec<u8> {
    let mut w = W::new();
    w.i32(0x0004);
    w.short_bytes(p.id);
    if let Some(mid) = p.result_metadata_id {
        w.short_bytes(mid);
    }
    // prepared metadata
    let global = cols_share_table(p.bind_cols);
    w.i32((if global { 1 } else { 0 }) | if p.lwt_mark { i32::MIN } else { 0 });
    w.i32(p.bind_cols.len() as i32);
    w.i32(p.pk_indexes.len() as i32);
    for i in p.pk_indexes {
        w.u16(*i);
    }
    write_col_specs(&mut w, p.bind_cols, global);
    // result metadata
    if p.result_cols.is_empty() {
        w.i32(0x0004);
        w.i32(0);
    } else {
        let global = cols_share_table(p.result_cols);
        w.i32(if global { 1 } else { 0 });
        w.i32(p.result_cols.len() as i32);
        write_col_specs(&mut w, p.result_cols, global);
    }
    w.buf
}

pub fn body_schema_change(change: &str, target: &str, ks: &str, name: Option<&str>) -> Vec<u8> {
    let mut w = W::new();
    w.i32(0x0005);
    w.string(change);
    w.string(target);
    w.string(ks);
    if let Some(n) = name {
        w.string(n);
    }
    w.buf
}

pub fn body_event_topology(change: &str, ip: IpAddr, port: i32) -> Vec<u8> {
    let mut w = W::new();
    w.string("TOPOLOGY_CHANGE");
    w.string(change);
    w.inet(ip, port);
    w.buf
}

pub fn body_event_status(change: &str, ip: IpAddr, port: i32) -> Vec<u8> {
    let mut w = W::new();
    w.string("STATUS_CHANGE");
    w.string(change);
    w.inet(ip, port);
    w.buf
}

pub fn body_event_schema(change: &str, target: &str, ks: &str, name: Option<&str>) -> Vec<u8> {
    let mut w = W::new();
    w.string("SCHEMA_CHANGE");
    w.string(change);
    w.string(target);
    w.string(ks);
    if let Some(n) = name {
        w.string(n);
    }
    w.buf
}

pub mod err {
    pub const SERVER_ERROR: i32 = 0x0000;
    pub const PROTOCOL_ERROR: i32 = 0x000A;
    pub const AUTH_ERROR: i32 = 0x0100;
    pub const UNAVAILABLE: i32 = 0x1000;
    pub const OVERLOADED: i32 = 0x1001;
    pub const IS_BOOTSTRAPPING: i32 = 0x1002;
    pub const TRUNCATE_ERROR: i32 = 0x1003;
    pub const WRITE_TIMEOUT: i32 = 0x1100;
    pub const READ_TIMEOUT: i32 = 0x1200;
    pub const READ_FAILURE: i32 = 0x1300;
    pub const FUNCTION_FAILURE: i32 = 0x1400;
    pub const WRITE_FAILURE: i32 = 0x1500;
    pub const SYNTAX_ERROR: i32 = 0x2000;
    pub const UNAUTHORIZED: i32 = 0x2100;
    pub const INVALID: i32 = 0x2200;
    pub const CONFIG_ERROR: i32 = 0x2300;
    pub const ALREADY_EXISTS: i32 = 0x2400;
    pub const UNPREPARED: i32 = 0x2500;
}

pub mod consistency {
    pub const ANY: u16 = 0;
    pub const ONE: u16 = 1;
    pub const TWO: u16 = 2;
    pub const THREE: u16 = 3;
    pub const QUORUM: u16 = 4;
    pub const ALL: u16 = 5;
    pub const LOCAL_QUORUM: u16 = 6;
    pub const EACH_QUORUM: u16 = 7;
    pub const SERIAL: u16 = 8;
    pub const LOCAL_SERIAL: u16 = 9;
    pub const LOCAL_ONE: u16 = 10;
}
