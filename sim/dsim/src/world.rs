//! The simulated world: discrete-event queue on Tokio's paused clock, the
//! simulated transport (`SimStream` + connector) and the connection-level part
//! of the mock CQL cluster. One global instance per run (one process per run).

use crate::cluster::{Cluster, NodeId};
use crate::rng::Fnv;
use crate::tape;
use crate::wire::{self, ReqFrame};
use std::collections::{BTreeMap, BTreeSet, BinaryHeap, VecDeque};
use std::cmp::Reverse;
use std::future::Future;
use std::io;
use std::net::{IpAddr, SocketAddr};
use std::pin::Pin;
use std::sync::{Arc, Mutex, MutexGuard};
use std::task::{Context, Poll, Waker};
use tokio::io::{AsyncRead, AsyncWrite, ReadBuf};
use tokio::sync::Notify;
use tokio::time::{Duration, Instant};

pub type ConnId = usize;
pub const NATIVE_PORT: u16 = 9042;
pub const SHARD_AWARE_PORT: u16 = 19042;

pub const MS: u64 = 1_000_000;
pub const SEC: u64 = 1_000_000_000;

/// How much more a stalled connection's send buffer takes (None = no limit).
fn draw_stall_budget() -> Option<usize> {
    [None, None, Some(0), Some(4096), Some(65536)][tape::choose("io:stall_sndbuf", 5) as usize]
}

/// Kinds of injected faults, counted when they actually fire.
#[derive(Debug, Clone, Copy, PartialEq, Eq, PartialOrd, Ord)]
pub enum Fault {
    Delay,
    ReorderResp,
    Fin,
    Rst,
    Stall,
    Backpressure,
    Chunk,
    ChaosYield,
    Corrupt,
    Garbage,
    NodeCrash,
    NodeRestart,
    Evict,
    SchemaChange,
    Topology,
    SrvError,
    NoReply,
    Nat,
    Clock,
    Cancel,
    ConnectRefused,
    ConnectBlackhole,
    AddrInUse,
    Rlimit,
    IdChange,
    WriteFail,
}

#[derive(Debug, Clone)]
pub struct NetCfg {
    /// One-way latency range per segment, ns.
    pub lat_min: u64,
    pub lat_max: u64,
    /// Probability (x/1000) of a latency spike and its maximum.
    pub spike_permille: u64,
    pub spike_max: u64,
    /// Probability (x/1000) that a poll_read / poll_write yields first.
    pub chaos_yield_permille: u64,
    /// Probability (x/1000) that a read or write is fragmented.
    pub chunk_permille: u64,
    /// SYN round trip.
    pub connect_min: u64,
    pub connect_max: u64,
    /// Probability (x/1000) that a write hits a full send buffer, and for how long.
    pub backpressure_permille: u64,
    pub backpressure_max: u64,
}

impl Default for NetCfg {
    fn default() -> Self {
        NetCfg {
            lat_min: 100_000,
            lat_max: 2 * MS,
            spike_permille: 0,
            spike_max: 200 * MS,
            chaos_yield_permille: 0,
            chunk_permille: 0,
            connect_min: 200_000,
            connect_max: 3 * MS,
            backpressure_permille: 0,
            backpressure_max: 50 * MS,
        }
    }
}

#[derive(Debug, Clone, Copy, PartialEq, Eq)]
pub enum CutKind {
    Fin,
    Rst,
    /// Replace everything from the offset on by these garbage bytes, keep the connection open.
    Stall,
}

#[derive(Debug, Clone)]
pub struct Cut {
    /// Absolute offset in the server->client byte stream; `usize::MAX` when
    /// the cut is placed at a frame boundary instead (see `before_frame`).
    pub at: usize,
    /// Fire in place of the n-th next response frame (0 = the next one).
    pub before_frame: Option<u32>,
    pub kind: CutKind,
    /// Bytes injected at the cut point before the kind takes effect.
    pub inject: Vec<u8>,
}

#[derive(Debug, Default, Clone)]
pub struct CqlConnState {
    pub options_seen: bool,
    pub started: bool,
    pub authenticated: bool,
    pub compression: Option<wire::Compression>,
    pub keyspace: Option<String>,
    pub registered: Vec<String>,
    pub metadata_id_ext: bool,
    pub tablets_ext: bool,
    pub lwt_ext: bool,
    pub rate_limit_ext: bool,
    /// Stream ids received and not yet answered by the server.
    pub outstanding: BTreeSet<i16>,
    /// Marker of the request outstanding on each stream (if it has one).
    pub outstanding_markers: BTreeMap<i16, u64>,
    pub user_requests: u64,
}

pub struct Conn {
    pub id: ConnId,
    pub node: NodeId,
    pub shard: Option<u32>,
    pub dst_port: u16,
    pub src_ip: Option<IpAddr>,
    pub src_port: Option<u16>,
    pub opened_at: u64,

    // client -> server
    pub c2s_last_deliver: u64,
    pub c2s_bytes: usize,
    pub srv_rx: Vec<u8>,
    /// The client dropped or shut down its stream.
    pub client_closed: bool,
    pub c2s_stalled: bool,
    /// While stalled: how many more bytes the local send buffer takes before writes
    /// block for good (the peer has stopped reading). None = no limit.
    pub c2s_stall_budget: Option<usize>,
    /// The opcode byte of the next response frame sent on this connection is replaced by
    /// this value (the rest of the frame stays intact).
    pub corrupt_next_opcode: Option<u8>,
    /// Bytes (complete frames) that go out immediately in front of the next response
    /// frame, in the same segment.
    pub prepend_next_response: Option<Vec<u8>>,

    // server -> client
    pub s2c_last_deliver: u64,
    pub s2c_sent: usize,
    pub s2c_delivered: usize,
    pub cli_rx: VecDeque<u8>,
    pub cli_fin: bool,
    pub cli_rst: bool,
    pub s2c_stalled: bool,
    pub cut: Option<Cut>,
    /// The server side is gone: no more input processed, no more output.
    pub srv_closed: bool,

    pub reader_waker: Option<Waker>,
    pub writer_waker: Option<Waker>,
    pub write_blocked_until: u64,
    /// Local writes fail (e.g. ETIMEDOUT) while reads just stay pending.
    pub fail_writes: bool,

    pub cql: CqlConnState,
}

/// A frame received by a node (the omniscient server-side observation).
#[derive(Debug, Clone)]
pub struct FrameRec {
    pub seq: u64,
    pub t: u64,
    pub conn: ConnId,
    pub node: NodeId,
    pub shard: Option<u32>,
    pub stream: i16,
    pub opcode: u8,
    pub marker: Option<u64>,
    pub keyspace: Option<String>,
    pub is_control: bool,
}

#[derive(Debug, Clone)]
pub struct Violation {
    pub oracle: String,
    pub msg: String,
}

pub enum Ev {
    C2S { conn: ConnId, bytes: Vec<u8> },
    S2C { conn: ConnId, bytes: Vec<u8> },
    S2CFin { conn: ConnId, rst: bool },
    ClientGone { conn: ConnId },
    SrvSend { conn: ConnId, bytes: Vec<u8>, stream: Option<i16> },
    SrvClose { conn: ConnId, rst: bool },
    WakeWriter { conn: ConnId },
    Call(Box<dyn FnOnce(&mut World) + Send>),
}

struct QEntry {
    at: u64,
    seq: u64,
    ev: Ev,
}
impl PartialEq for QEntry {
    fn eq(&self, o: &Self) -> bool {
        self.at == o.at && self.seq == o.seq
    }
}
impl Eq for QEntry {}
impl PartialOrd for QEntry {
    fn partial_cmp(&self, o: &Self) -> Option<std::cmp::Ordering> {
        Some(self.cmp(o))
    }
}
impl Ord for QEntry {
    fn cmp(&self, o: &Self) -> std::cmp::Ordering {
        (self.at, self.seq).cmp(&(o.at, o.seq))
    }
}

pub struct World {
    pub start: Instant,
    pub seq: u64,
    queue: BinaryHeap<Reverse<QEntry>>,
    pub events_run: u64,
    pub conns: Vec<Conn>,
    pub cluster: Cluster,
    pub script: Option<Box<dyn crate::cluster::Script>>,
    pub net: NetCfg,
    pub log_hash: Fnv,
    pub trace: Option<Vec<String>>,
    pub faults: BTreeMap<Fault, u64>,
    pub probes: BTreeMap<&'static str, u64>,
    pub frames: Vec<FrameRec>,
    pub violations: Vec<Violation>,
    pub bytes_to_client: u64,
    pub bytes_to_server: u64,
    pub connects: u64,
    /// Hard cap on processed events (run bound).
    pub max_events: u64,
    pub event_cap_hit: bool,
    /// Server frames encoded so far (index of the next one).
    pub frames_out: u64,
    /// Armed in-flight damage: (frame index, mutation).
    pub mutation: Option<(u64, crate::mutate::Mutation)>,
    pub mutation_fired: Option<String>,
    /// Wire length of every server frame encoded so far.
    pub frame_lens: Vec<usize>,
    /// (schema version used, metadata included) of the most recent built-in Rows answer.
    pub last_rows_answer: Option<(u32, bool)>,
    /// Complete reads of system.peers by the client: (arrival of the first page
    /// request, time the last page was answered).
    pub peers_fetches: Vec<(u64, u64)>,
    pub peers_fetch_started: BTreeMap<ConnId, u64>,
}

static WORLD: Mutex<Option<World>> = Mutex::new(None);
static PUMP: Notify = Notify::const_new();

pub struct WorldGuard(MutexGuard<'static, Option<World>>);
impl std::ops::Deref for WorldGuard {
    type Target = World;
    fn deref(&self) -> &World {
        self.0.as_ref().expect("world not installed")
    }
}
impl std::ops::DerefMut for WorldGuard {
    fn deref_mut(&mut self) -> &mut World {
        self.0.as_mut().expect("world not installed")
    }
}

pub fn world() -> WorldGuard {
    WorldGuard(WORLD.lock().unwrap_or_else(|e| e.into_inner()))
}

pub fn install(cluster: Cluster, net: NetCfg, trace: bool) {
    let w = World {
        start: Instant::now(),
        seq: 0,
        queue: BinaryHeap::new(),
        events_run: 0,
        conns: Vec::new(),
        cluster,
        script: None,
        net,
        log_hash: Fnv::default(),
        trace: if trace { Some(Vec::new()) } else { None },
        faults: BTreeMap::new(),
        probes: BTreeMap::new(),
        frames: Vec::new(),
        violations: Vec::new(),
        bytes_to_client: 0,
        bytes_to_server: 0,
        connects: 0,
        max_events: 5_000_000,
        event_cap_hit: false,
        frames_out: 0,
        mutation: None,
        mutation_fired: None,
        frame_lens: Vec::new(),
        last_rows_answer: None,
        peers_fetches: Vec::new(),
        peers_fetch_started: BTreeMap::new(),
    };
    *WORLD.lock().unwrap() = Some(w);
}

pub fn now_ns() -> u64 {
    world().now()
}

impl World {
    pub fn now(&self) -> u64 {
        (Instant::now() - self.start).as_nanos() as u64
    }

    pub fn next_seq(&mut self) -> u64 {
        self.seq += 1;
        self.seq
    }

    pub fn fault(&mut self, f: Fault) {
        *self.faults.entry(f).or_insert(0) += 1;
    }

    pub fn probe(&mut self, p: &'static str) {
        *self.probes.entry(p).or_insert(0) += 1;
    }

    pub fn violation(&mut self, oracle: &str, msg: String) {
        self.log(&format!("VIOLATION {oracle}: {msg}"));
        if self.violations.len() < 64 {
            self.violations.push(Violation {
                oracle: oracle.to_string(),
                msg,
            });
        }
    }

    /// Appends to the event log (hash always, text when tracing).
    pub fn log(&mut self, line: &str) {
        let t = self.now();
        self.log_hash.u64(t);
        self.log_hash.str(line);
        if let Some(tr) = self.trace.as_mut() {
            if tr.len() < 200_000 {
                tr.push(format!("[{:>12.6}ms #{}] {}", t as f64 / 1e6, self.seq, line));
            }
        }
    }

    pub fn schedule(&mut self, delay_ns: u64, ev: Ev) {
        let at = self.now() + delay_ns;
        self.schedule_at(at, ev);
    }

    pub fn schedule_at(&mut self, at: u64, ev: Ev) {
        let seq = self.next_seq();
        self.queue.push(Reverse(QEntry { at, seq, ev }));
        PUMP.notify_one();
    }

    pub fn call_after(&mut self, delay_ns: u64, f: impl FnOnce(&mut World) + Send + 'static) {
        self.schedule(delay_ns, Ev::Call(Box::new(f)));
    }

    fn next_due(&self) -> Option<u64> {
        self.queue.peek().map(|e| e.0.at)
    }

    fn latency(&mut self) -> u64 {
        let mut d = tape::range("net:latency", self.net.lat_min, self.net.lat_max);
        if self.net.spike_permille > 0 && tape::chance("net:spike", self.net.spike_permille, 1000) {
            d += tape::range("net:spike_len", 0, self.net.spike_max);
            self.fault(Fault::Delay);
        }
        d
    }

    // ---- client -> server -------------------------------------------------

    fn client_wrote(&mut self, conn: ConnId, bytes: Vec<u8>) {
        let lat = self.latency();
        let now = self.now();
        let c = &mut self.conns[conn];
        c.c2s_bytes += bytes.len();
        if c.c2s_stalled {
            return;
        }
        let at = (now + lat).max(c.c2s_last_deliver);
        c.c2s_last_deliver = at;
        self.schedule_at(at, Ev::C2S { conn, bytes });
    }

    fn on_c2s(&mut self, conn: ConnId, bytes: Vec<u8>) {
        self.bytes_to_server += bytes.len() as u64;
        {
            let c = &mut self.conns[conn];
            if c.srv_closed {
                return;
            }
            c.srv_rx.extend_from_slice(&bytes);
        }
        loop {
            let frame = {
                let c = &mut self.conns[conn];
                if c.srv_closed {
                    return;
                }
                wire::try_parse_frame(&mut c.srv_rx)
            };
            match frame {
                Some(f) => self.on_frame(conn, f),
                None => break,
            }
        }
    }

    fn on_frame(&mut self, conn: ConnId, frame: ReqFrame) {
        crate::cluster::handle_frame(self, conn, frame);
    }

    // ---- server -> client -------------------------------------------------

    /// The server emits bytes on a connection now; latency, cuts and stalls apply.
    pub fn srv_send_now(&mut self, conn: ConnId, mut bytes: Vec<u8>, stream: Option<i16>) {
        if self.conns[conn].srv_closed {
            return;
        }
        if let Some(s) = stream {
            self.conns[conn].cql.outstanding.remove(&s);
            self.conns[conn].cql.outstanding_markers.remove(&s);
            if let Some(mut pre) = self.conns[conn].prepend_next_response.take() {
                pre.extend_from_slice(&bytes);
                bytes = pre;
            } else if bytes.len() > 4 {
                if let Some(op) = self.conns[conn].corrupt_next_opcode.take() {
                    bytes[4] = op;
                    self.fault(Fault::Corrupt);
                    self.log(&format!("opcode_corrupted conn={conn} stream={s} opcode={op:#x}"));
                }
            }
        }
        let mut after: Option<CutKind> = None;
        let mut garbage = false;
        {
            let c = &mut self.conns[conn];
            let mut frame_cut = false;
            if let Some(cut) = c.cut.as_mut() {
                if let Some(n) = cut.before_frame.as_mut() {
                    if stream.is_some() {
                        if *n == 0 {
                            frame_cut = true;
                        } else {
                            *n -= 1;
                        }
                    }
                }
            }
            if frame_cut {
                let cut = c.cut.take().unwrap();
                bytes = cut.inject.clone();
                after = Some(cut.kind);
                garbage = !cut.inject.is_empty();
            } else if let Some(cut) = c.cut.as_ref() {
                if c.s2c_sent + bytes.len() > cut.at {
                    let keep = cut.at.saturating_sub(c.s2c_sent);
                    bytes.truncate(keep);
                    bytes.extend_from_slice(&cut.inject);
                    after = Some(cut.kind);
                    garbage = !cut.inject.is_empty();
                    c.cut = None;
                }
            }
            c.s2c_sent += bytes.len();
        }
        if !bytes.is_empty() {
            self.push_s2c(conn, bytes);
        }
        if garbage {
            self.fault(Fault::Garbage);
        }
        if after.is_some() {
            self.probe("cut_fired");
        }
        if let Some(kind) = after {
            match kind {
                CutKind::Fin => {
                    self.fault(Fault::Fin);
                    self.srv_close_now(conn, false);
                }
                CutKind::Rst => {
                    self.fault(Fault::Rst);
                    self.srv_close_now(conn, true);
                }
                CutKind::Stall => {
                    self.fault(Fault::Stall);
                    let budget = draw_stall_budget();
                    let c = &mut self.conns[conn];
                    c.s2c_stalled = true;
                    c.c2s_stalled = true;
                    c.c2s_stall_budget = budget;
                }
            }
        }
    }

    fn push_s2c(&mut self, conn: ConnId, bytes: Vec<u8>) {
        let lat = self.latency();
        let now = self.now();
        let c = &mut self.conns[conn];
        if c.s2c_stalled {
            return;
        }
        let at = (now + lat).max(c.s2c_last_deliver);
        c.s2c_last_deliver = at;
        self.schedule_at(at, Ev::S2C { conn, bytes });
    }

    /// The server closes the connection now (FIN after pending bytes, or RST).
    pub fn srv_close_now(&mut self, conn: ConnId, rst: bool) {
        let lat = self.latency();
        let now = self.now();
        let c = &mut self.conns[conn];
        if c.srv_closed {
            return;
        }
        c.srv_closed = true;
        c.cql.outstanding.clear();
        if c.s2c_stalled {
            return;
        }
        let at = (now + lat).max(c.s2c_last_deliver);
        c.s2c_last_deliver = at;
        self.log(&format!("srv_close conn={conn} rst={rst}"));
        self.schedule_at(at, Ev::S2CFin { conn, rst });
    }

    /// Black-holes a connection in both directions from now on.
    pub fn stall_conn(&mut self, conn: ConnId) {
        let budget = if self.conns[conn].s2c_stalled { None } else { draw_stall_budget() };
        let c = &mut self.conns[conn];
        if !c.s2c_stalled {
            c.s2c_stalled = true;
            c.c2s_stalled = true;
            c.c2s_stall_budget = budget;
            self.fault(Fault::Stall);
            self.log(&format!("stall conn={conn}"));
        }
    }

    pub fn live_conns_of(&self, node: NodeId) -> Vec<ConnId> {
        self.conns
            .iter()
            .filter(|c| c.node == node && !c.srv_closed && !c.client_closed)
            .map(|c| c.id)
            .collect()
    }

    fn handle(&mut self, ev: Ev) {
        self.events_run += 1;
        match ev {
            Ev::C2S { conn, bytes } => self.on_c2s(conn, bytes),
            Ev::S2C { conn, bytes } => {
                let n = bytes.len();
                self.bytes_to_client += n as u64;
                crate::shims::NET_BYTES_DELIVERED
                    .fetch_add(n, std::sync::atomic::Ordering::Relaxed);
                let c = &mut self.conns[conn];
                c.s2c_delivered += n;
                c.cli_rx.extend(bytes);
                if let Some(w) = c.reader_waker.take() {
                    w.wake();
                }
            }
            Ev::S2CFin { conn, rst } => {
                let c = &mut self.conns[conn];
                if rst {
                    c.cli_rst = true;
                } else {
                    c.cli_fin = true;
                }
                if let Some(w) = c.reader_waker.take() {
                    w.wake();
                }
                if let Some(w) = c.writer_waker.take() {
                    w.wake();
                }
            }
            Ev::ClientGone { conn } => {
                let c = &mut self.conns[conn];
                c.srv_closed = true;
                c.cql.outstanding.clear();
                self.log(&format!("client_gone conn={conn}"));
            }
            Ev::SrvSend {
                conn,
                bytes,
                stream,
            } => self.srv_send_now(conn, bytes, stream),
            Ev::SrvClose { conn, rst } => self.srv_close_now(conn, rst),
            Ev::WakeWriter { conn } => {
                if let Some(w) = self.conns[conn].writer_waker.take() {
                    w.wake();
                }
            }
            Ev::Call(f) => f(self),
        }
    }
}

/// The event pump: the only task that advances the world. Runs until aborted.
pub async fn pump() {
    loop {
        // Run everything that is due.
        loop {
            let mut w = world();
            let now = w.now();
            match w.next_due() {
                Some(at) if at <= now => {
                    if w.events_run >= w.max_events {
                        w.event_cap_hit = true;
                        w.queue.clear();
                        break;
                    }
                    let Reverse(e) = w.queue.pop().unwrap();
                    w.handle(e.ev);
                }
                _ => break,
            }
        }
        let next = { world().next_due() };
        match next {
            Some(at) => {
                let deadline = { world().start } + Duration::from_nanos(at);
                tokio::select! {
                    biased;
                    _ = PUMP.notified() => {}
                    _ = tokio::time::sleep_until(deadline) => {}
                }
            }
            None => PUMP.notified().await,
        }
    }
}

// ---------------------------------------------------------------------------
// Client-side stream

pub struct SimStream {
    conn: ConnId,
}

impl Drop for SimStream {
    fn drop(&mut self) {
        let mut w = world();
        let conn = self.conn;
        if !w.conns[conn].client_closed {
            w.conns[conn].client_closed = true;
            let lat = w.latency();
            let now = w.now();
            let at = (now + lat).max(w.conns[conn].c2s_last_deliver);
            w.log(&format!("client_close conn={conn}"));
            if !w.conns[conn].c2s_stalled {
                w.schedule_at(at, Ev::ClientGone { conn });
            }
        }
    }
}

impl AsyncRead for SimStream {
    fn poll_read(
        self: Pin<&mut Self>,
        cx: &mut Context<'_>,
        buf: &mut ReadBuf<'_>,
    ) -> Poll<io::Result<()>> {
        let mut w = world();
        let conn = self.conn;
        if w.net.chaos_yield_permille > 0
            && tape::chance("io:read_yield", w.net.chaos_yield_permille, 1000)
        {
            w.fault(Fault::ChaosYield);
            cx.waker().wake_by_ref();
            return Poll::Pending;
        }
        if w.conns[conn].cli_rst {
            return Poll::Ready(Err(io::Error::from(io::ErrorKind::ConnectionReset)));
        }
        let avail = w.conns[conn].cli_rx.len();
        if avail > 0 {
            let mut n = avail.min(buf.remaining());
            if n > 1 && w.net.chunk_permille > 0 && tape::chance("io:read_chunk", w.net.chunk_permille, 1000)
            {
                n = 1 + tape::choose("io:read_chunk_len", n as u64 - 1) as usize;
                w.fault(Fault::Chunk);
            }
            let c = &mut w.conns[conn];
            let (a, b) = c.cli_rx.as_slices();
            if n <= a.len() {
                buf.put_slice(&a[..n]);
            } else {
                buf.put_slice(a);
                buf.put_slice(&b[..n - a.len()]);
            }
            c.cli_rx.drain(..n);
            return Poll::Ready(Ok(()));
        }
        if w.conns[conn].cli_fin {
            return Poll::Ready(Ok(()));
        }
        w.conns[conn].reader_waker = Some(cx.waker().clone());
        Poll::Pending
    }
}

impl AsyncWrite for SimStream {
    fn poll_write(
        self: Pin<&mut Self>,
        cx: &mut Context<'_>,
        data: &[u8],
    ) -> Poll<io::Result<usize>> {
        let mut w = world();
        let conn = self.conn;
        if w.net.chaos_yield_permille > 0
            && tape::chance("io:write_yield", w.net.chaos_yield_permille, 1000)
        {
            w.fault(Fault::ChaosYield);
            cx.waker().wake_by_ref();
            return Poll::Pending;
        }
        if w.conns[conn].cli_rst {
            return Poll::Ready(Err(io::Error::from(io::ErrorKind::ConnectionReset)));
        }
        if w.conns[conn].fail_writes {
            w.fault(Fault::WriteFail);
            return Poll::Ready(Err(io::Error::from(io::ErrorKind::TimedOut)));
        }
        if w.conns[conn].cli_fin && w.conns[conn].srv_closed {
            // Peer closed; a real kernel answers the next write with RST -> EPIPE.
            return Poll::Ready(Err(io::Error::from(io::ErrorKind::BrokenPipe)));
        }
        let now = w.now();
        if w.conns[conn].write_blocked_until > now {
            w.conns[conn].writer_waker = Some(cx.waker().clone());
            return Poll::Pending;
        }
        if w.net.backpressure_permille > 0
            && tape::chance("io:backpressure", w.net.backpressure_permille, 1000)
        {
            let d = tape::range("io:backpressure_len", 1, w.net.backpressure_max);
            w.fault(Fault::Backpressure);
            w.conns[conn].write_blocked_until = now + d;
            w.conns[conn].writer_waker = Some(cx.waker().clone());
            w.schedule_at(now + d, Ev::WakeWriter { conn });
            return Poll::Pending;
        }
        if data.is_empty() {
            return Poll::Ready(Ok(0));
        }
        let mut n = data.len();
        if w.conns[conn].c2s_stalled {
            if let Some(left) = w.conns[conn].c2s_stall_budget {
                if left == 0 {
                    // The peer does not read any more and the send buffer is full: the
                    // write stays pending until the connection is given up.
                    w.probe("write_blocked_on_stalled_peer");
                    w.conns[conn].writer_waker = Some(cx.waker().clone());
                    return Poll::Pending;
                }
                n = n.min(left);
            }
        }
        if n > 1 && w.net.chunk_permille > 0 && tape::chance("io:write_chunk", w.net.chunk_permille, 1000)
        {
            n = 1 + tape::choose("io:write_chunk_len", n as u64 - 1) as usize;
            w.fault(Fault::Chunk);
        }
        if w.conns[conn].c2s_stalled {
            if let Some(left) = w.conns[conn].c2s_stall_budget {
                w.conns[conn].c2s_stall_budget = Some(left - n.min(left));
            }
        }
        w.client_wrote(conn, data[..n].to_vec());
        Poll::Ready(Ok(n))
    }

    fn poll_flush(self: Pin<&mut Self>, _cx: &mut Context<'_>) -> Poll<io::Result<()>> {
        Poll::Ready(Ok(()))
    }

    fn poll_shutdown(self: Pin<&mut Self>, _cx: &mut Context<'_>) -> Poll<io::Result<()>> {
        Poll::Ready(Ok(()))
    }
}

// ---------------------------------------------------------------------------
// Connector

pub struct Connector;

impl scylla::verif::SimConnector for Connector {
    fn connect(
        &self,
        addr: SocketAddr,
        source_ip: Option<IpAddr>,
        source_port: Option<u16>,
    ) -> scylla::verif::ConnectFuture {
        Box::pin(connect(addr, source_ip, source_port))
    }
}

enum ConnectPlan {
    Refused,
    AddrInUse,
    Blackhole,
    Ok { delay: u64 },
}

async fn connect(
    addr: SocketAddr,
    source_ip: Option<IpAddr>,
    source_port: Option<u16>,
) -> io::Result<scylla::verif::BoxedStream> {
    let (plan, node) = {
        let mut w = world();
        w.connects += 1;
        let node = w.cluster.node_by_ip(addr.ip());
        let plan = match node {
            None => ConnectPlan::Refused,
            Some(n) => {
                let st = &w.cluster.nodes[n];
                let port_ok = addr.port() == NATIVE_PORT
                    || (addr.port() == SHARD_AWARE_PORT && st.shard_aware_port_open && st.nr_shards > 0);
                if st.partitioned {
                    ConnectPlan::Blackhole
                } else if !st.up || !port_ok {
                    ConnectPlan::Refused
                } else if source_port.is_some()
                    && w.conns.iter().any(|c| {
                        c.node == n
                            && c.src_port == source_port
                            && c.dst_port == addr.port()
                            && !(c.client_closed && c.srv_closed)
                    })
                {
                    ConnectPlan::AddrInUse
                } else {
                    let d = tape::range("net:connect", w.net.connect_min, w.net.connect_max);
                    ConnectPlan::Ok { delay: d }
                }
            }
        };
        w.log(&format!(
            "connect addr={addr} src_port={source_port:?} plan={}",
            match plan {
                ConnectPlan::Refused => "refused",
                ConnectPlan::AddrInUse => "addrinuse",
                ConnectPlan::Blackhole => "blackhole",
                ConnectPlan::Ok { .. } => "ok",
            }
        ));
        match plan {
            ConnectPlan::Refused => w.fault(Fault::ConnectRefused),
            ConnectPlan::AddrInUse => w.fault(Fault::AddrInUse),
            ConnectPlan::Blackhole => w.fault(Fault::ConnectBlackhole),
            _ => {}
        }
        (plan, node)
    };
    match plan {
        ConnectPlan::Refused => {
            tokio::time::sleep(Duration::from_micros(200)).await;
            Err(io::Error::from(io::ErrorKind::ConnectionRefused))
        }
        ConnectPlan::AddrInUse => Err(io::Error::from(io::ErrorKind::AddrInUse)),
        ConnectPlan::Blackhole => {
            futures::future::pending::<()>().await;
            unreachable!()
        }
        ConnectPlan::Ok { delay } => {
            tokio::time::sleep(Duration::from_nanos(delay)).await;
            let mut w = world();
            let node = node.unwrap();
            // The node may have gone down while the SYN was in flight.
            if !w.cluster.nodes[node].up {
                w.fault(Fault::ConnectRefused);
                return Err(io::Error::from(io::ErrorKind::ConnectionRefused));
            }
            let nr_shards = w.cluster.nodes[node].nr_shards;
            let shard = if nr_shards == 0 {
                None
            } else if addr.port() == SHARD_AWARE_PORT && source_port.is_some() {
                let natural = source_port.unwrap() as u32 % nr_shards;
                if w.cluster.nodes[node].nat_permille > 0
                    && tape::chance("net:nat", w.cluster.nodes[node].nat_permille, 1000)
                {
                    w.fault(Fault::Nat);
                    Some(tape::choose("net:nat_shard", nr_shards as u64) as u32)
                } else {
                    Some(natural)
                }
            } else {
                Some(tape::choose("net:accept_shard", nr_shards as u64) as u32)
            };
            let id = w.conns.len();
            let now = w.now();
            w.conns.push(Conn {
                id,
                node,
                shard,
                dst_port: addr.port(),
                src_ip: source_ip,
                src_port: source_port,
                opened_at: now,
                c2s_last_deliver: 0,
                c2s_bytes: 0,
                srv_rx: Vec::new(),
                client_closed: false,
                c2s_stalled: false,
                c2s_stall_budget: None,
                corrupt_next_opcode: None,
                prepend_next_response: None,
                s2c_last_deliver: 0,
                s2c_sent: 0,
                s2c_delivered: 0,
                cli_rx: VecDeque::new(),
                cli_fin: false,
                cli_rst: false,
                s2c_stalled: false,
                cut: None,
                srv_closed: false,
                reader_waker: None,
                writer_waker: None,
                write_blocked_until: 0,
                fail_writes: false,
                cql: CqlConnState::default(),
            });
            w.log(&format!("accepted conn={id} node={node} shard={shard:?}"));
            if let Some(mut script) = w.script.take() {
                script.on_connect(&mut w, id);
                w.script = Some(script);
            }
            Ok(Box::new(SimStream { conn: id }))
        }
    }
}

/// Convenience for scenario code: a future that completes after `ns` virtual ns.
pub fn sleep_ns(ns: u64) -> impl Future<Output = ()> {
    tokio::time::sleep(Duration::from_nanos(ns))
}

pub fn install_connector() {
    scylla::verif::set_connector(Some(Arc::new(Connector)));
    scylla::verif::set_inline_blocking(true);
}

pub fn world_note_rlimit() {}

pub fn now_ns_or_zero() -> u64 {
    match WORLD.try_lock() {
        Ok(g) => g.as_ref().map(|w| w.now()).unwrap_or(0),
        Err(_) => 0,
    }
}
