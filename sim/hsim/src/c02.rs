//! C02d - direct history driver of the real `ResponseHandlerMap`/`StreamIdSet`
//! (`scylla::verif::VerifHandlerMap`) against a reference model
//! stream id -> Live(request) | Orphaned.

use crate::case::{Ctx, Stop, Tier};
use crate::rng::Fnv;
use scylla::verif::{VerifHandlerLookup, VerifHandlerMap};
use serde_json::json;
use std::collections::BTreeMap;

const SPACE: usize = 32768;

#[derive(Clone, Copy, PartialEq, Eq, Debug)]
enum Slot {
    Free,
    Live(u64),
    Orphaned,
}

struct Model {
    slot: Vec<Slot>,
    /// Reserved stream ids, for O(1) seeded picks.
    reserved: Vec<i16>,
    pos: Vec<i32>,
    /// Live request -> stream.
    live: BTreeMap<u64, i16>,
    live_list: Vec<u64>,
    live_pos: BTreeMap<u64, usize>,
    /// Requests whose response was already looked up (candidates for a late
    /// orphan notification), with the stream they used.
    answered: Vec<(u64, i16)>,
    /// A late orphan notification named a request that held this stream
    /// before its current reservation.
    late_orphan_since_alloc: Vec<bool>,
    next_request: u64,
}

impl Model {
    fn new() -> Self {
        Model {
            slot: vec![Slot::Free; SPACE],
            reserved: Vec::new(),
            pos: vec![-1; SPACE],
            live: BTreeMap::new(),
            live_list: Vec::new(),
            live_pos: BTreeMap::new(),
            answered: Vec::new(),
            late_orphan_since_alloc: vec![false; SPACE],
            next_request: 1,
        }
    }

    fn reserve(&mut self, s: i16, req: u64) {
        let i = s as usize;
        self.slot[i] = Slot::Live(req);
        self.pos[i] = self.reserved.len() as i32;
        self.reserved.push(s);
        self.live.insert(req, s);
        self.live_pos.insert(req, self.live_list.len());
        self.live_list.push(req);
        self.late_orphan_since_alloc[i] = false;
    }

    fn unlive(&mut self, req: u64) {
        self.live.remove(&req);
        if let Some(p) = self.live_pos.remove(&req) {
            let last = self.live_list.pop().unwrap();
            if p < self.live_list.len() {
                self.live_list[p] = last;
                self.live_pos.insert(last, p);
            }
        }
    }

    fn release(&mut self, s: i16) {
        let i = s as usize;
        self.slot[i] = Slot::Free;
        let p = self.pos[i];
        if p >= 0 {
            let last = self.reserved.pop().unwrap();
            if (p as usize) < self.reserved.len() {
                self.reserved[p as usize] = last;
                self.pos[last as usize] = p;
            }
            self.pos[i] = -1;
        }
    }
}

struct Drv<'a> {
    ctx: &'a mut Ctx,
    real: VerifHandlerMap,
    m: Model,
    hash: Fnv,
    ops: u64,
    desc: Vec<String>,
}

impl Drv<'_> {
    fn noting(&self) -> bool {
        self.ctx.trace_on || (self.ctx.want_desc && self.desc.len() < 12)
    }

    fn note(&mut self, s: String) {
        if self.ctx.trace_on {
            self.ctx.out.trace.push(format!("op {}: {}", self.ops, s));
        }
        if self.ctx.want_desc && self.desc.len() < 12 {
            self.desc.push(s);
        }
    }

    fn allocate(&mut self) -> Result<(), Stop> {
        self.ops += 1;
        let req = self.m.next_request;
        self.m.next_request += 1;
        let full = self.m.reserved.len() == SPACE;
        let got = self.real.allocate(req);
        if self.noting() {
            let s = format!("allocate(request {req}) -> {got:?}");
            self.note(s);
        }
        match got {
            None => {
                if !full {
                    return self.ctx.fail(
                        "c02.exhaustion",
                        format!(
                            "allocate(request {req}) returned None although only {} of 32768 stream ids are reserved",
                            self.m.reserved.len()
                        ),
                    );
                }
                self.ctx.fault("exhaustion_reached");
            }
            Some(s) => {
                if s < 0 {
                    return self.ctx.fail(
                        "c02.range",
                        format!("allocate(request {req}) returned stream id {s} outside 0..=32767"),
                    );
                }
                match self.m.slot[s as usize] {
                    Slot::Free => {}
                    Slot::Live(other) => {
                        return self.ctx.fail(
                            "c02.stream_id_reuse",
                            format!(
                                "allocate(request {req}) returned stream id {s} which is still reserved by unanswered live request {other}"
                            ),
                        );
                    }
                    Slot::Orphaned => {
                        return self.ctx.fail(
                            "c02.stream_id_reuse",
                            format!(
                                "allocate(request {req}) returned stream id {s} which is still reserved by an orphaned (abandoned, unanswered) request"
                            ),
                        );
                    }
                }
                if full {
                    return self.ctx.fail(
                        "c02.exhaustion",
                        format!("allocate(request {req}) returned {s} although all 32768 ids are reserved"),
                    );
                }
                self.m.reserve(s, req);
            }
        }
        Ok(())
    }

    fn orphan_live(&mut self, req: u64) {
        self.ops += 1;
        let s = self.m.live[&req];
        self.real.orphan(req);
        self.m.unlive(req);
        self.m.slot[s as usize] = Slot::Orphaned;
        self.ctx.fault("orphan");
        if self.noting() {
            let s = format!("orphan(live request {req} on stream {s})");
            self.note(s);
        }
    }

    fn orphan_late(&mut self, idx: usize) {
        self.ops += 1;
        let (req, s) = self.m.answered[idx];
        self.real.orphan(req);
        if self.m.slot[s as usize] != Slot::Free {
            self.m.late_orphan_since_alloc[s as usize] = true;
            self.ctx.fault("late_orphan_stream_reused");
        }
        self.ctx.fault("late_orphan");
        if self.noting() {
            let s = format!(
                "orphan(request {req}: already answered, used stream {s}, stream now {:?})",
                self.m.slot[s as usize]
            );
            self.note(s);
        }
    }

    fn lookup(&mut self, s: i16) -> Result<(), Stop> {
        self.ops += 1;
        let got = self.real.lookup(s);
        let slot = self.m.slot[s as usize];
        if self.noting() {
            let s = format!("lookup(stream {s}) -> {got:?} (model {slot:?})");
            self.note(s);
        }
        let expected = match slot {
            Slot::Free => VerifHandlerLookup::Missing,
            Slot::Live(r) => VerifHandlerLookup::Handler(r),
            Slot::Orphaned => VerifHandlerLookup::Orphaned,
        };
        if got != expected {
            let late = self.m.late_orphan_since_alloc[s as usize];
            let oracle = if late && matches!(slot, Slot::Live(_)) {
                "c02.late_orphan"
            } else {
                "c02.lookup"
            };
            return self.ctx.fail(
                oracle,
                format!(
                    "lookup(stream {s}) returned {got:?}, expected {expected:?}{}",
                    if late {
                        " (a late orphan notification for an earlier, already answered holder of this stream id arrived since it was re-allocated)"
                    } else {
                        ""
                    }
                ),
            );
        }
        match slot {
            Slot::Free => {
                self.ctx.fault("unsolicited");
            }
            Slot::Live(r) => {
                self.m.unlive(r);
                self.m.release(s);
                if self.m.answered.len() < 64 {
                    self.m.answered.push((r, s));
                } else {
                    let k = (self.ops as usize) % 64;
                    self.m.answered[k] = (r, s);
                }
            }
            Slot::Orphaned => {
                self.m.release(s);
                self.ctx.probe("orphan_answered");
            }
        }
        Ok(())
    }

    fn unreserved_stream(&mut self) -> Option<i16> {
        if self.m.reserved.len() == SPACE {
            return None;
        }
        // Prefer ids near the reserved ones (lowest ids are re-used first).
        let hi = (self.m.reserved.len() as u64 + 8).min(SPACE as u64);
        let mut s = if self.ctx.choose("c02.unsolicited_far", 8) == 7 {
            self.ctx.choose("c02.unsolicited_id", SPACE as u64) as usize
        } else {
            self.ctx.choose("c02.unsolicited_near", hi) as usize
        };
        for _ in 0..SPACE {
            if self.m.slot[s] == Slot::Free {
                return Some(s as i16);
            }
            s = (s + 1) % SPACE;
        }
        None
    }
}

pub fn run(ctx: &mut Ctx) -> Result<(), Stop> {
    // Scenario 0: short mixed history. 1: medium history with bursts across
    // the 64-id block boundary. 2: fill the whole id space. 3: a burst of hundreds to a few
    // thousand requests in flight, a few of them abandoned, then the connection drains -
    // whole 64-id blocks at a time, or everything that is still awaited - and a second
    // burst follows: the abandoned requests' ids stay reserved through all of it.
    let scenario = match ctx.tier {
        Tier::Quick => ctx.weighted("c02.scenario", &[60, 12, 1, 3]),
        Tier::Thorough => ctx.weighted("c02.scenario", &[40, 12, 2, 4]),
    };
    let mut d = Drv {
        ctx,
        real: VerifHandlerMap::new(),
        m: Model::new(),
        hash: Fnv::default(),
        ops: 0,
        desc: Vec::new(),
    };
    d.hash.u64(scenario as u64);
    let steps = match scenario {
        0 => 4 + d.ctx.choose("c02.steps", 28),
        1 => 8 + d.ctx.choose("c02.steps_medium", 56),
        _ => 8 + d.ctx.choose("c02.steps_full", 40),
    };
    d.hash.u64(steps);
    if scenario == 2 {
        // Fill the id space, leaving a seeded number (usually 0) free.
        let leave = d.ctx.weighted("c02.fill_leave", &[4, 1, 1]) as usize;
        d.hash.u64(leave as u64);
        for _ in 0..(SPACE - leave) {
            d.allocate()?;
        }
        d.ctx.probe("filled_id_space");
        // Orphan a few so that the full space contains orphaned ids too.
        let n_orph = d.ctx.choose("c02.fill_orphans", 4);
        for _ in 0..n_orph {
            if !d.m.live_list.is_empty() {
                let i = d.ctx.choose("c02.pick_live", d.m.live_list.len() as u64) as usize;
                let r = d.m.live_list[i];
                d.hash.u64(r);
                d.orphan_live(r);
            }
        }
    }
    if scenario == 3 {
        let burst = [100usize, 577, 600, 700, 1025, 1100, 2100][d.ctx.choose("c02.burst", 7) as usize];
        d.hash.u64(burst as u64);
        for _ in 0..burst {
            d.allocate()?;
        }
        d.ctx.probe("burst_in_flight");
        // Abandon 1..3 requests, preferably among the highest ids.
        for _ in 0..1 + d.ctx.choose("c02.burst_orphans", 3) {
            if d.m.live_list.is_empty() {
                break;
            }
            let n = d.m.live_list.len();
            let i = if d.ctx.choose("c02.burst_orphan_high", 3) > 0 { n - 1 - d.ctx.choose("c02.burst_orphan_top", 64.min(n as u64)) as usize } else { d.ctx.choose("c02.pick_live", n as u64) as usize };
            let r = d.m.live_list[i];
            d.hash.u64(r);
            d.orphan_live(r);
        }
        // Drain: everything still awaited, or whole blocks (all awaited ids of a 64-id block).
        let whole = d.ctx.choose("c02.drain_all", 2) == 0;
        d.hash.u64(whole as u64);
        if whole {
            let mut ids: Vec<i16> = d.m.live.values().copied().collect();
            ids.sort();
            if d.ctx.choose("c02.drain_order", 2) == 1 {
                ids.reverse();
            }
            for s in ids {
                d.lookup(s)?;
            }
            d.ctx.probe("connection_drained_but_for_abandoned_requests");
        } else {
            let blocks = burst.div_ceil(64);
            for _ in 0..1 + d.ctx.choose("c02.drain_blocks", 4) {
                let b = d.ctx.choose("c02.drain_block", blocks as u64) as usize;
                d.hash.u64(b as u64);
                for s in (b * 64)..((b + 1) * 64) {
                    if matches!(d.m.slot[s], Slot::Live(_)) {
                        d.lookup(s as i16)?;
                    }
                }
            }
            d.ctx.probe("whole_blocks_drained");
        }
        // Second burst: climbs back over every id that is free.
        for _ in 0..burst + 64 {
            d.allocate()?;
        }
    }
    const BOUNDARY: [i16; 8] = [63, 64, 65, 32767, 0, 127, 128, 32704];
    for _ in 0..steps {
        if d.ctx.tape.exhausted() {
            break;
        }
        let op = d
            .ctx
            .weighted("c02.op", &[10, 6, 8, 3, 2, 1, 3, 1]);
        d.hash.u64(op as u64);
        match op {
            0 => d.allocate()?,
            1 => {
                // orphan a live request
                if d.m.live_list.is_empty() {
                    d.allocate()?;
                } else {
                    let i = d.ctx.choose("c02.pick_live", d.m.live_list.len() as u64) as usize;
                    let r = d.m.live_list[i];
                    d.hash.u64(r);
                    d.orphan_live(r);
                }
            }
            2 => {
                // the server answers a reserved stream (live or orphaned)
                if d.m.reserved.is_empty() {
                    d.allocate()?;
                } else {
                    let s = if scenario == 2 && d.ctx.choose("c02.boundary_pick", 2) == 1 {
                        let b = BOUNDARY[d.ctx.choose("c02.boundary", 8) as usize];
                        if d.m.slot[b as usize] == Slot::Free {
                            d.m.reserved[0]
                        } else {
                            d.ctx.probe("freed_at_block_boundary");
                            b
                        }
                    } else {
                        let i = d.ctx.choose("c02.pick_reserved", d.m.reserved.len() as u64) as usize;
                        d.m.reserved[i]
                    };
                    d.hash.u64(s as u64);
                    d.lookup(s)?;
                }
            }
            3 => {
                // late orphan notification
                if d.m.answered.is_empty() {
                    d.allocate()?;
                } else {
                    // 0 = the most recently answered one (its stream id is the
                    // likeliest to have been re-allocated).
                    let n = d.m.answered.len();
                    let k = d.ctx.choose("c02.pick_answered", n.min(8) as u64) as usize;
                    let idx = n - 1 - k;
                    d.hash.u64(d.m.answered[idx].0);
                    let stream = d.m.answered[idx].1;
                    d.orphan_late(idx);
                    // Often look at that stream right away.
                    if d.m.slot[stream as usize] != Slot::Free
                        && d.ctx.choose("c02.check_after_late", 2) == 1
                    {
                        d.lookup(stream)?;
                    }
                }
            }
            4 => {
                // orphan notification for an id that was never allocated
                d.ops += 1;
                let req = 1_000_000_000 + d.ctx.choose("c02.unknown_req", 1000);
                d.real.orphan(req);
                d.ctx.fault("orphan_unknown_request");
                if d.noting() {
            let s = format!("orphan(unknown request {req})");
            d.note(s);
        }
            }
            5 => {
                // unsolicited response
                if let Some(s) = d.unreserved_stream() {
                    d.hash.u64(s as u64);
                    d.lookup(s)?;
                }
            }
            6 => {
                // burst of allocations
                let n = match d.ctx.weighted("c02.burst", &[4, 3, 2, 1]) {
                    0 => 2,
                    1 => 8,
                    2 => 70,
                    _ => 200,
                };
                d.hash.u64(n);
                let n = if scenario == 0 { n.min(8) } else { n };
                for _ in 0..n {
                    d.allocate()?;
                }
            }
            _ => {
                // burst of answers, in seeded order
                let n = 1 + d.ctx.choose("c02.answer_burst", 16);
                for _ in 0..n {
                    if d.m.reserved.is_empty() {
                        break;
                    }
                    let i = d.ctx.choose("c02.pick_reserved", d.m.reserved.len() as u64) as usize;
                    let s = d.m.reserved[i];
                    d.hash.u64(s as u64);
                    d.lookup(s)?;
                }
            }
        }
        let old = d.real.old_orphans_count();
        let orphaned = d.m.reserved.len() - d.m.live.len();
        if old > orphaned {
            // Not a clause of C02; recorded, never judged.
            d.ctx.probe("old_orphans_count_above_orphans");
        }
    }
    if scenario == 2 {
        // Re-fill: exhaustion must be reached again exactly when full.
        while d.m.reserved.len() < SPACE {
            d.allocate()?;
        }
        d.allocate()?;
    }
    // The handlers that would be failed if the connection broke now are
    // exactly the live requests, each on its own stream.
    let Drv {
        ctx,
        real,
        m,
        hash,
        ops,
        desc,
    } = d;
    let mut handlers = real.into_handlers();
    handlers.sort_unstable();
    let mut expected: Vec<(i16, u64)> = m.live.iter().map(|(r, s)| (*s, *r)).collect();
    expected.sort_unstable();
    if handlers != expected {
        let diff_real: Vec<_> = handlers.iter().filter(|h| !expected.contains(h)).take(4).collect();
        let diff_model: Vec<_> = expected.iter().filter(|h| !handlers.contains(h)).take(4).collect();
        let late = diff_model
            .iter()
            .any(|(s, _)| m.late_orphan_since_alloc[*s as usize]);
        return ctx.fail(
            if late { "c02.late_orphan" } else { "c02.lookup" },
            format!(
                "into_handlers: waiting handlers differ from the live requests: only in real (stream, request) {diff_real:?}, only in model {diff_model:?}{}",
                if late { " (a late orphan notification hit a re-allocated stream id)" } else { "" }
            ),
        );
    }
    ctx.out.hash = hash.finish();
    ctx.out.nontrivial = ops >= 4 && m.next_request > 2;
    ctx.count("ops", ops);
    if ctx.want_desc {
        ctx.out.desc = Some(json!({
            "rule": "non-trivial = at least 4 operations including at least 2 allocations",
            "scenario": (["short mixed", "bursts across block boundaries", "fill all 32768 ids", "burst, drain, second burst"][scenario]),
            "ops": ops, "first_ops": desc,
        }));
    }
    Ok(())
}
