//! C13d - direct driver of the real speculative-execution select loop
//! (`scylla::verif::speculative_execute` = `speculative_execution::execute`)
//! with scripted fibers under Tokio's paused (virtual) clock.
//!
//! `futures::select!` breaks ties between ready branches with a thread-local
//! PRNG that is seeded from a process-global counter. To make a case a pure
//! function of its tape, the engine runs every C13d case in a freshly forked
//! single-threaded child (PRNG state = that of a fresh process) and the tape
//! chooses how many dummy `select!`s to burn first, so both tie orders are
//! reachable and replayable.

use crate::case::{Ctx, Stop};
use crate::rng::Fnv;
use futures::FutureExt;
use scylla::errors::{DbError, RequestAttemptError, RequestError};
use serde_json::json;
use std::cell::RefCell;
use std::rc::Rc;
use std::time::Duration;

#[derive(Clone, Copy, Debug, PartialEq, Eq)]
enum Outcome {
    Success,
    Definitive,
    Ignorable,
    PlanExhausted,
}

#[derive(Clone, Copy, Debug)]
struct Fiber {
    /// in units of d/2
    delay_half: u64,
    outcome: Outcome,
    flavour: u64,
}

impl Fiber {
    fn id(&self, k: usize) -> String {
        match self.outcome {
            Outcome::Success => format!("ok:{k}"),
            Outcome::Definitive => format!("def:f{k}"),
            Outcome::Ignorable => {
                if self.flavour == 1 {
                    "ign:noid".to_string()
                } else {
                    format!("ign:f{k}")
                }
            }
            Outcome::PlanExhausted => "none".to_string(),
        }
    }

    fn value(&self, k: usize) -> Option<Result<u32, RequestError>> {
        match self.outcome {
            Outcome::Success => Some(Ok(k as u32)),
            Outcome::Definitive => {
                let e = if self.flavour == 1 {
                    DbError::SyntaxError
                } else {
                    DbError::Invalid
                };
                Some(Err(RequestError::LastAttemptError(
                    RequestAttemptError::DbError(e, format!("f{k}")),
                )))
            }
            Outcome::Ignorable => Some(Err(RequestError::LastAttemptError(match self.flavour {
                1 => RequestAttemptError::UnableToAllocStreamId,
                2 => RequestAttemptError::DbError(DbError::IsBootstrapping, format!("f{k}")),
                _ => RequestAttemptError::DbError(DbError::Overloaded, format!("f{k}")),
            }))),
            Outcome::PlanExhausted => None,
        }
    }
}

fn result_id(r: &Result<u32, RequestError>) -> String {
    match r {
        Ok(k) => format!("ok:{k}"),
        Err(RequestError::EmptyPlan) => "empty_plan".to_string(),
        Err(RequestError::LastAttemptError(RequestAttemptError::UnableToAllocStreamId)) => {
            "ign:noid".to_string()
        }
        Err(RequestError::LastAttemptError(RequestAttemptError::DbError(e, msg))) => match e {
            DbError::Invalid | DbError::SyntaxError => format!("def:{msg}"),
            DbError::Overloaded | DbError::IsBootstrapping => format!("ign:{msg}"),
            other => format!("other:{other:?}:{msg}"),
        },
        Err(e) => format!("other:{e:?}"),
    }
}

#[derive(Default)]
struct Log {
    /// (virtual ns since call, is_speculative)
    starts: Vec<(u128, bool)>,
    /// (fiber, virtual ns)
    completions: Vec<(usize, u128)>,
}

pub fn run(ctx: &mut Ctx) -> Result<(), Stop> {
    let skew = ctx.choose("c13.select_rng_skew", 8);
    // The last two are the degenerate but legal intervals: zero (every allowed execution
    // may start at once) and Duration::MAX ("never speculate"; u64::MAX stands for it).
    let d_ns: u64 = [10_000_000u64, 2_000_000, 100_000_000, 1_000_000_000, 0, u64::MAX]
        [ctx.weighted("c13.interval", &[4, 4, 4, 4, 3, 2]) as usize];
    let degenerate = d_ns == 0 || d_ns == u64::MAX;
    // Unit of the scripted completion delays: d/2, or 5 ms when d is degenerate.
    let half_ns: u64 = if degenerate { 5_000_000 } else { d_ns / 2 };
    let max = ctx.choose("c13.max_retry_count", 5) as usize;
    let n_scripted = 1 + ctx.choose("c13.n_fibers", 5) as usize;
    let mut script: Vec<Fiber> = Vec::new();
    let mut hash = Fnv::default();
    hash.u64(d_ns);
    hash.u64(max as u64);
    hash.u64(n_scripted as u64);
    for _ in 0..n_scripted {
        let delay_half = ctx.choose("c13.delay", 7);
        let mut outcome = match ctx.choose("c13.outcome", 4) {
            0 => Outcome::Success,
            1 => Outcome::Definitive,
            2 => Outcome::Ignorable,
            _ => Outcome::PlanExhausted,
        };
        // With "never speculate" and executions still allowed, a call whose only running
        // execution fails ignorably waits for a timer that is (practically) never due -
        // by design, not a hang: such scripts are not generated.
        if d_ns == u64::MAX && max > 0 && script.is_empty() && outcome == Outcome::Ignorable {
            outcome = Outcome::Success;
        }
        let flavour = match outcome {
            Outcome::Definitive => ctx.choose("c13.flavour", 2),
            Outcome::Ignorable => ctx.choose("c13.flavour", 3),
            _ => 0,
        };
        hash.u64(delay_half * 64 + outcome as u64 * 8 + flavour);
        script.push(Fiber {
            delay_half,
            outcome,
            flavour,
        });
    }
    let fiber_of = |k: usize| -> Fiber {
        script.get(k).copied().unwrap_or(Fiber {
            delay_half: 0,
            outcome: Outcome::PlanExhausted,
            flavour: 0,
        })
    };
    let script_desc: Vec<String> = script
        .iter()
        .enumerate()
        .map(|(k, f)| format!("fiber{k}: +{}*d/2 -> {}", f.delay_half, f.id(k)))
        .collect();
    ctx.trace(|| {
        format!(
            "config: d={d_ns}ns max_retry_count={max} select_rng_skew={skew} script={script_desc:?} (unscripted fibers: plan exhausted at once)"
        )
    });

    let mut seed_bytes = [0u8; 8];
    seed_bytes.copy_from_slice(&hash.finish().to_le_bytes());
    let rt = tokio::runtime::Builder::new_current_thread()
        .enable_time()
        .start_paused(true)
        .rng_seed(tokio::runtime::RngSeed::from_bytes(&seed_bytes))
        .build()
        .expect("tokio runtime");
    let log: Rc<RefCell<Log>> = Rc::new(RefCell::new(Log::default()));
    let d = if d_ns == u64::MAX { Duration::MAX } else { Duration::from_nanos(d_ns) };
    let half = Duration::from_nanos(half_ns);
    let deadline = Duration::from_nanos(half_ns) * 2000;
    let log2 = Rc::clone(&log);
    let (ret_ns, result) = rt.block_on(async move {
        for _ in 0..skew {
            let mut a = futures::future::ready(()).fuse();
            let mut b = futures::future::ready(()).fuse();
            futures::select! { _ = a => {}, _ = b => {} };
        }
        let t0 = tokio::time::Instant::now();
        let generator = {
            let log = Rc::clone(&log2);
            let mut counter = 0usize;
            move |is_speculative: bool| {
                let k = counter;
                counter += 1;
                let f = fiber_of(k);
                log.borrow_mut()
                    .starts
                    .push((t0.elapsed().as_nanos(), is_speculative));
                let log = Rc::clone(&log);
                async move {
                    if f.delay_half > 0 {
                        tokio::time::sleep(half * f.delay_half as u32).await;
                    }
                    log.borrow_mut()
                        .completions
                        .push((k, t0.elapsed().as_nanos()));
                    f.value(k)
                }
            }
        };
        let r = tokio::time::timeout(
            deadline,
            scylla::verif::speculative_execute(max, d, generator),
        )
        .await;
        (t0.elapsed().as_nanos(), r.ok())
    });
    drop(rt);
    let log = log.borrow();
    let n = log.starts.len();
    let fibers: Vec<Fiber> = (0..n).map(&fiber_of).collect();
    // Scheduled completion instant of every started fiber.
    let c: Vec<u128> = (0..n)
        .map(|k| log.starts[k].0 + (fibers[k].delay_half as u128) * (half_ns as u128))
        .collect();
    if ctx.trace_on {
        for k in 0..n {
            let line = format!(
                "t={}ns start fiber{k} (speculative={}) -> will finish t={}ns with {}",
                log.starts[k].0,
                log.starts[k].1,
                c[k],
                fibers[k].id(k)
            );
            ctx.out.trace.push(line);
        }
        for (k, t) in &log.completions {
            ctx.out
                .trace
                .push(format!("t={t}ns fiber{k} completed ({})", fibers[*k].id(*k)));
        }
        ctx.out.trace.push(match &result {
            Some(r) => format!("t={ret_ns}ns returned {}", result_id(r)),
            None => format!("t={ret_ns}ns virtual deadline reached, no return"),
        });
    }
    ctx.out.hash = hash.finish();
    ctx.out.virt_ns = ret_ns;
    ctx.count("fibers_started", n as u64);
    let cfg = format!(
        "d={d_ns}ns max={max} skew={skew} script=[{}]",
        script_desc.join("; ")
    );
    if ctx.want_desc {
        ctx.out.desc = Some(json!({
            "rule": "non-trivial = at least 2 executions started, or the result is not the plain success of the first execution",
            "interval_ns": d_ns, "max_retry_count": max, "script": script_desc,
            "started": n, "returned": result.as_ref().map(result_id), "returned_at_ns": ret_ns.to_string(),
        }));
    }

    // ---- c13.hang -------------------------------------------------------
    let Some(result) = result else {
        return ctx.fail(
            "c13.hang",
            format!(
                "the call did not return within 1000*d (10 s for a degenerate d) of virtual time ({n} executions started, last scheduled completion t={}ns) [{cfg}]",
                c.iter().max().copied().unwrap_or(0)
            ),
        );
    };
    let rid = result_id(&result);
    let r_ns = ret_ns;
    ctx.out.nontrivial = n >= 2 || rid != "ok:0";
    // ---- probes -----------------------------------------------------------
    for k in 0..n {
        if c[k] <= r_ns {
            match fibers[k].outcome {
                Outcome::Ignorable => ctx.fault("ignorable"),
                Outcome::Definitive => ctx.fault("definitive"),
                Outcome::PlanExhausted => ctx.fault("plan_exhausted"),
                Outcome::Success => {}
            }
            let on_tick = c[k] > 0
                && d_ns > 0
                && c[k] % (d_ns as u128) == 0
                && c[k] / (d_ns as u128) <= max as u128;
            if on_tick {
                ctx.fault("tie_timer_completion");
            }
            if (0..k).any(|j| c[j] == c[k]) {
                ctx.probe("tie_two_completions");
            }
        }
    }
    if n == 1 + max {
        ctx.probe("all_allowed_executions_started");
    }
    if d_ns == 0 {
        ctx.probe("interval_zero");
    }
    if d_ns == u64::MAX {
        ctx.probe("interval_never");
    }
    // ---- c13.too_many / c13.too_early ---------------------------------------
    if n > 1 + max {
        return ctx.fail(
            "c13.too_many",
            format!("{n} executions were started, allowed 1 + max = {} [{cfg}]", 1 + max),
        );
    }
    for k in 1..n {
        if log.starts[k].0 < (k as u128) * (d_ns as u128) {
            return ctx.fail(
                "c13.too_early",
                format!(
                    "execution {k} was started at t={}ns, before {k}*d = {}ns [{cfg}]",
                    log.starts[k].0,
                    (k as u128) * (d_ns as u128)
                ),
            );
        }
    }
    // ---- c13.first_real_answer / c13.last_error --------------------------------
    let is_real = |k: usize| matches!(fibers[k].outcome, Outcome::Success | Outcome::Definitive);
    let tmin = (0..n).filter(|k| is_real(*k)).map(|k| c[k]).min();
    if rid.starts_with("ok:") || rid.starts_with("def:") {
        let producers: Vec<usize> = (0..n)
            .filter(|k| is_real(*k) && fibers[*k].id(*k) == rid)
            .collect();
        if producers.is_empty() {
            return ctx.fail(
                "c13.first_real_answer",
                format!("returned {rid} at t={r_ns}ns, which no started execution produces [{cfg}]"),
            );
        }
        let k = producers[0];
        if c[k] != r_ns || Some(c[k]) != tmin {
            return ctx.fail(
                "c13.first_real_answer",
                format!(
                    "returned {rid} (execution {k}, finishing at t={}ns) at t={r_ns}ns, but the earliest success/definitive error among the started executions is at t={}ns [{cfg}]",
                    c[k],
                    tmin.unwrap_or(0)
                ),
            );
        }
        return Ok(());
    }
    if !(rid.starts_with("ign:") || rid == "empty_plan") {
        return ctx.fail(
            "c13.first_real_answer",
            format!("returned {rid} at t={r_ns}ns, which is not the outcome of any execution [{cfg}]"),
        );
    }
    if let Some(k) = (0..n).find(|k| is_real(*k) && c[*k] <= r_ns) {
        return ctx.fail(
            "c13.first_real_answer",
            format!(
                "returned {rid} at t={r_ns}ns although execution {k} had produced {} at t={}ns [{cfg}]",
                fibers[k].id(k),
                c[k]
            ),
        );
    }
    if let Some(k) = (0..n).find(|k| c[*k] > r_ns) {
        return ctx.fail(
            "c13.last_error",
            format!(
                "returned {rid} at t={r_ns}ns while execution {k} (finishing at t={}ns with {}) was still running [{cfg}]",
                c[k],
                fibers[k].id(k)
            ),
        );
    }
    let exhausted = (0..n).any(|k| fibers[k].outcome == Outcome::PlanExhausted);
    if n < 1 + max && !exhausted {
        return ctx.fail(
            "c13.last_error",
            format!(
                "returned {rid} at t={r_ns}ns although only {n} of {} allowed executions were started and the plan was not exhausted: a further execution may still be started [{cfg}]",
                1 + max
            ),
        );
    }
    let t_all = c.iter().max().copied().unwrap_or(0);
    if r_ns != t_all {
        return ctx.fail(
            "c13.last_error",
            format!(
                "returned {rid} at t={r_ns}ns, but every started execution had finished and none could be started from t={t_all}ns on [{cfg}]"
            ),
        );
    }
    let last_ign = (0..n)
        .filter(|k| fibers[*k].outcome == Outcome::Ignorable)
        .map(|k| c[k])
        .max();
    match last_ign {
        None => {
            if rid != "empty_plan" {
                return ctx.fail(
                    "c13.last_error",
                    format!("returned {rid} although no execution produced an error; expected EmptyPlan [{cfg}]"),
                );
            }
        }
        Some(t_last) => {
            let ok = (0..n).any(|k| {
                fibers[k].outcome == Outcome::Ignorable && c[k] == t_last && fibers[k].id(k) == rid
            });
            if !ok {
                return ctx.fail(
                    "c13.last_error",
                    format!(
                        "returned {rid}, expected the last error to complete (at t={t_last}ns) [{cfg}]"
                    ),
                );
            }
        }
    }
    Ok(())
}
