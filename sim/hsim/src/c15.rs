//! C15d - direct history driver of the real tablet map
//! (`scylla::verif::VerifTablets` = `TabletsInfo`/`TableTablets`/`RawTablet`)
//! against a reference model written from the property text.

use crate::case::{Ctx, Stop, Tier};
use crate::rng::Fnv;
use scylla::cluster::Node;
use scylla::verif::VerifTablets;
use serde_json::json;
use std::collections::{BTreeMap, BTreeSet, HashMap, HashSet};
use std::panic::{AssertUnwindSafe, catch_unwind};
use std::sync::Arc;
use uuid::Uuid;

const DC_NAMES: [&str; 3] = ["dc0", "dc1", "dc2"];
const MIN: i64 = i64::MIN;
const MAX: i64 = i64::MAX;
/// The 16-value boundary universe of the short histories.
const SMALL: [i64; 16] = [
    MIN,
    MIN + 1,
    MIN + 2,
    -3,
    -1,
    0,
    1,
    2,
    3,
    4,
    5,
    6,
    8,
    MAX - 2,
    MAX - 1,
    MAX,
];

struct NodeRec {
    arc: Arc<Node>,
    dc: Option<usize>,
    /// Created by a re-creation that changed the datacenter of the host.
    dc_changed: bool,
}

#[derive(Clone, Debug)]
struct MTablet {
    first: i64,
    last: i64,
    raw: Vec<(usize, u32)>,
    /// (host, shard, node record)
    resolved: Vec<(usize, u32, usize)>,
    unresolved: bool,
}

struct World {
    vt: VerifTablets,
    n_hosts: usize,
    nodes: Vec<NodeRec>,
    by_ptr: BTreeMap<usize, usize>,
    /// host -> node record currently in the cluster state
    known: BTreeMap<usize, usize>,
    known_map: HashMap<Uuid, Arc<Node>>,
    tables: [(String, String); 2],
    model: [Vec<MTablet>; 2],
    long: bool,
}

fn host_uuid(h: usize) -> Uuid {
    Uuid::from_u128(0x5c11_a000_0000_0000_0000_0000_0000_1000u128 + h as u128)
}

fn uuid_host(u: Uuid) -> i64 {
    let v = u.as_u128();
    let base = 0x5c11_a000_0000_0000_0000_0000_0000_1000u128;
    if v >= base && v < base + 64 {
        (v - base) as i64
    } else {
        -1
    }
}

fn tok(t: i64) -> String {
    if t == MIN {
        "MIN".into()
    } else if t == MAX {
        "MAX".into()
    } else if t < MIN + 1000 {
        format!("MIN+{}", t - MIN)
    } else if t > MAX - 1000 {
        format!("MAX-{}", MAX - t)
    } else {
        t.to_string()
    }
}

/// CQL value `tuple<bigint, bigint, list<tuple<uuid, int>>>`.
pub fn encode_payload(first_open: i64, last: i64, replicas: &[(Uuid, i32)]) -> Vec<u8> {
    let mut list = Vec::with_capacity(4 + replicas.len() * 32);
    list.extend_from_slice(&(replicas.len() as i32).to_be_bytes());
    for (u, shard) in replicas {
        list.extend_from_slice(&28i32.to_be_bytes());
        list.extend_from_slice(&16i32.to_be_bytes());
        list.extend_from_slice(u.as_bytes());
        list.extend_from_slice(&4i32.to_be_bytes());
        list.extend_from_slice(&shard.to_be_bytes());
    }
    let mut out = Vec::with_capacity(28 + list.len());
    out.extend_from_slice(&8i32.to_be_bytes());
    out.extend_from_slice(&first_open.to_be_bytes());
    out.extend_from_slice(&8i32.to_be_bytes());
    out.extend_from_slice(&last.to_be_bytes());
    out.extend_from_slice(&(list.len() as i32).to_be_bytes());
    out.extend_from_slice(&list);
    out
}

impl World {
    fn new_node(&mut self, host: usize, dc: Option<usize>, dc_changed: bool) -> usize {
        let arc = VerifTablets::make_node(host_uuid(host), dc.map(|d| DC_NAMES[d].to_string()));
        let ptr = Arc::as_ptr(&arc) as usize;
        let idx = self.nodes.len();
        // Every node object stays alive for the whole case, so addresses are
        // never reused and pointer identity is unambiguous.
        self.nodes.push(NodeRec {
            arc,
            dc,
            dc_changed,
        });
        self.by_ptr.insert(ptr, idx);
        idx
    }

    fn ptr(&self, rec: usize) -> usize {
        Arc::as_ptr(&self.nodes[rec].arc) as usize
    }

    fn rebuild_known_map(&mut self) {
        self.known_map = self
            .known
            .iter()
            .map(|(h, rec)| (host_uuid(*h), Arc::clone(&self.nodes[*rec].arc)))
            .collect();
    }

    fn fmt_reps(&self, reps: &[(usize, u32)]) -> String {
        let v: Vec<String> = reps.iter().map(|(h, s)| format!("h{h}:{s}")).collect();
        format!("[{}]", v.join(","))
    }

    fn fmt_view(&self, v: &Option<Vec<(Uuid, u32, usize)>>) -> String {
        match v {
            None => "nothing".to_string(),
            Some(list) => {
                let items: Vec<String> = list
                    .iter()
                    .map(|(u, s, p)| {
                        let n = match self.by_ptr.get(p) {
                            Some(i) => format!("n{i}"),
                            None => "n?".to_string(),
                        };
                        format!("h{}:{}@{}", uuid_host(*u), s, n)
                    })
                    .collect();
                format!("[{}]", items.join(","))
            }
        }
    }
}

fn model_lookup(tabs: &[MTablet], t: i64) -> Option<&MTablet> {
    let mut found = None;
    for tb in tabs {
        if tb.first <= t && t <= tb.last {
            // The model list is disjoint by construction.
            found = Some(tb);
        }
    }
    found
}

fn gen_point(ctx: &mut Ctx, w: &World, table: usize) -> i64 {
    if !w.long {
        return SMALL[ctx.choose("c15.point_small", 16) as usize];
    }
    match ctx.weighted("c15.point_kind", &[4, 4, 1, 1]) {
        0 => ctx.tape.bits64("c15.point_i64") as i64,
        1 => {
            let tabs = &w.model[table];
            if tabs.is_empty() {
                ctx.tape.bits64("c15.point_i64") as i64
            } else {
                let i = ctx.choose("c15.point_tablet", tabs.len() as u64) as usize;
                let e = if ctx.choose("c15.point_end", 2) == 0 {
                    w.model[table][i].first
                } else {
                    w.model[table][i].last
                };
                let d = ctx.choose("c15.point_delta", 5) as i64 - 2;
                e.saturating_add(d)
            }
        }
        2 => SMALL[ctx.choose("c15.point_small", 16) as usize],
        _ => ctx.choose("c15.point_tiny", 64) as i64 - 32,
    }
}

pub fn run(ctx: &mut Ctx) -> Result<(), Stop> {
    let long = match ctx.tier {
        Tier::Quick => false,
        Tier::Thorough => ctx.choose("c15.long", 2) == 1,
    };
    let n_hosts = 3 + ctx.choose("c15.n_hosts", 3) as usize;
    let n_dcs = 1 + ctx.choose("c15.n_dcs", 3) as usize;
    let t1_same_ks = ctx.choose("c15.t1_same_ks", 2) == 1;
    let steps = if long {
        13 + ctx.choose("c15.steps_long", 188) as usize
    } else {
        1 + ctx.choose("c15.steps", 12) as usize
    };
    let mut w = World {
        vt: VerifTablets::new(),
        n_hosts,
        nodes: Vec::new(),
        by_ptr: BTreeMap::new(),
        known: BTreeMap::new(),
        known_map: HashMap::new(),
        tables: [
            ("ksa".to_string(), "ta".to_string()),
            (
                if t1_same_ks { "ksa" } else { "ksb" }.to_string(),
                "tb".to_string(),
            ),
        ],
        model: [Vec::new(), Vec::new()],
        long,
    };
    let mut hash = Fnv::default();
    hash.u64(long as u64);
    hash.u64(n_hosts as u64);
    hash.u64(n_dcs as u64);
    hash.u64(t1_same_ks as u64);
    let mut host_dc: Vec<Option<usize>> = Vec::new();
    for h in 0..n_hosts {
        let dc = if h == n_hosts - 1 && ctx.chance("c15.host_no_dc", 1, 8) {
            None
        } else {
            Some(h % n_dcs)
        };
        host_dc.push(dc);
        let known = ctx.choose("c15.host_known", 3) != 2;
        hash.u64(dc.map(|d| d as u64 + 1).unwrap_or(0));
        hash.u64(known as u64);
        if known {
            let rec = w.new_node(h, dc, false);
            w.known.insert(h, rec);
        }
    }
    w.rebuild_known_map();
    ctx.trace(|| {
        format!(
            "config: long={long} hosts={n_hosts} dcs={n_dcs} host_dc={:?} known={:?} tables={:?}",
            host_dc,
            w.known.keys().collect::<Vec<_>>(),
            w.tables
        )
    });

    let mut accepted = 0u64;
    let mut removing_rel = false;
    let mut maint_steps = 0u64;
    let mut desc_steps: Vec<String> = Vec::new();

    for step in 0..steps {
        if ctx.tape.exhausted() {
            break;
        }
        let kind = ctx.weighted("c15.op", &[10, 3]);
        hash.u64(kind as u64);
        let mut extra_tokens: Vec<i64> = Vec::new();
        if kind == 0 {
            // ---- insert -------------------------------------------------
            let table = ctx.weighted("c15.table", &[3, 1]);
            let a = gen_point(ctx, &w, table);
            let b = if w.long && ctx.weighted("c15.second_point", &[3, 2]) == 0 {
                let k = ctx.choose("c15.width_bits", 63);
                let width = 1i64 << k;
                let off = if k == 0 {
                    0
                } else {
                    (ctx.tape.bits64("c15.width_off") % (width as u64)) as i64
                };
                a.saturating_add(width.saturating_add(off))
            } else {
                gen_point(ctx, &w, table)
            };
            let (first_open, last) = if a == b {
                (a, b)
            } else {
                let (lo, hi) = if a < b { (a, b) } else { (b, a) };
                if ctx.chance("c15.reversed_range", 1, 10) {
                    (hi, lo)
                } else {
                    (lo, hi)
                }
            };
            let n_rep = ctx.choose("c15.n_replicas", 4) as usize;
            let mut raw: Vec<(usize, u32)> = Vec::new();
            for _ in 0..n_rep {
                let h = ctx.choose("c15.replica_host", w.n_hosts as u64) as usize;
                let s = ctx.choose("c15.replica_shard", 4) as u32;
                raw.push((h, s));
            }
            hash.u64(table as u64);
            hash.i64(first_open);
            hash.i64(last);
            for (h, s) in &raw {
                hash.u64(*h as u64 * 16 + *s as u64);
            }
            let line = format!(
                "step {step}: insert {}.{} ({}, {}] replicas={}",
                w.tables[table].0,
                w.tables[table].1,
                tok(first_open),
                tok(last),
                w.fmt_reps(&raw)
            );
            ctx.trace(|| line.clone());
            if ctx.want_desc && desc_steps.len() < 16 {
                desc_steps.push(line.clone());
            }
            extra_tokens.extend_from_slice(&[first_open, last]);
            let payload = encode_payload(
                first_open,
                last,
                &raw.iter()
                    .map(|(h, s)| (host_uuid(*h), *s as i32))
                    .collect::<Vec<_>>(),
            );
            let (ks, tb) = w.tables[table].clone();
            let accepted_real = w.vt.add_from_payload(&ks, &tb, payload, &w.known_map);
            ctx.count("inserts", 1);
            if last <= first_open {
                ctx.fault("rejected_payload");
                if accepted_real {
                    return ctx.fail(
                        "c15.rejected_payload",
                        format!(
                            "payload with empty/reversed range ({}, {}] was accepted ({line})",
                            tok(first_open),
                            tok(last)
                        ),
                    );
                }
            } else {
                if !accepted_real {
                    return ctx.fail(
                        "c15.rejected_payload",
                        format!("well-formed payload was rejected ({line})"),
                    );
                }
                accepted += 1;
                let first = first_open + 1;
                if first_open == MIN {
                    ctx.probe("starts_at_min");
                }
                if last == MAX {
                    ctx.probe("ends_at_max");
                }
                // Relation of the new range to every existing tablet.
                let mut rels: BTreeSet<&'static str> = BTreeSet::new();
                for t in &w.model[table] {
                    let rel = if last < t.first {
                        if last + 1 == t.first {
                            "rel_touching"
                        } else {
                            "rel_before"
                        }
                    } else if first > t.last {
                        if t.last + 1 == first {
                            "rel_touching"
                        } else {
                            "rel_after"
                        }
                    } else if first == t.first && last == t.last {
                        "rel_equal"
                    } else if first <= t.first && last >= t.last {
                        "rel_containing"
                    } else if first >= t.first && last <= t.last {
                        "rel_contained"
                    } else if first < t.first {
                        "rel_overlap_left"
                    } else {
                        "rel_overlap_right"
                    };
                    rels.insert(rel);
                }
                for r in rels {
                    if !matches!(r, "rel_before" | "rel_after" | "rel_touching") {
                        removing_rel = true;
                    }
                    ctx.probe(r);
                }
                // Model: delete every overlapping tablet, then add.
                w.model[table].retain(|t| t.last < first || t.first > last);
                let mut resolved = Vec::new();
                let mut unresolved = false;
                for (h, s) in &raw {
                    match w.known.get(h) {
                        Some(rec) => resolved.push((*h, *s, *rec)),
                        None => unresolved = true,
                    }
                }
                if unresolved {
                    ctx.fault("unknown_replica_inserted");
                }
                w.model[table].push(MTablet {
                    first,
                    last,
                    raw,
                    resolved,
                    unresolved,
                });
                w.model[table].sort_by_key(|t| t.first);
            }
        } else {
            // ---- maintenance ---------------------------------------------
            maint_steps += 1;
            let mut removed: BTreeSet<usize> = BTreeSet::new();
            let mut recreated: BTreeMap<usize, usize> = BTreeMap::new();
            let mut new_known: BTreeMap<usize, usize> = BTreeMap::new();
            let mut joined: Vec<usize> = Vec::new();
            for h in 0..w.n_hosts {
                match w.known.get(&h).copied() {
                    Some(rec) => {
                        let d = ctx.weighted("c15.maint_known_host", &[12, 2, 2, 1]);
                        hash.u64(d as u64);
                        match d {
                            0 => {
                                new_known.insert(h, rec);
                            }
                            1 => {
                                removed.insert(h);
                            }
                            2 => {
                                let dc = w.nodes[rec].dc;
                                let n = w.new_node(h, dc, false);
                                recreated.insert(h, n);
                                new_known.insert(h, n);
                            }
                            _ => {
                                // Re-created in another datacenter (or none).
                                let old = w.nodes[rec].dc;
                                let pick = ctx.choose("c15.new_dc", 3) as usize;
                                hash.u64(pick as u64);
                                let cands: Vec<Option<usize>> =
                                    [Some(0), Some(1), Some(2), None]
                                        .into_iter()
                                        .filter(|c| *c != old)
                                        .collect();
                                let dc = cands[pick % cands.len()];
                                let n = w.new_node(h, dc, true);
                                recreated.insert(h, n);
                                new_known.insert(h, n);
                            }
                        }
                    }
                    None => {
                        let d = ctx.weighted("c15.maint_unknown_host", &[3, 2]);
                        hash.u64(d as u64);
                        if d == 1 {
                            let n = w.new_node(h, host_dc[h], false);
                            new_known.insert(h, n);
                            joined.push(h);
                        }
                    }
                }
            }
            let mut table_present = [true, true];
            for (t, present) in table_present.iter_mut().enumerate() {
                let _ = t;
                *present = ctx.weighted("c15.table_present", &[10, 1]) == 0;
                hash.u64(*present as u64);
            }
            let mut ks_tablet_based: BTreeMap<String, bool> = BTreeMap::new();
            for (ks, _) in w.tables.iter() {
                if !ks_tablet_based.contains_key(ks) {
                    let tb = ctx.weighted("c15.ks_tablet_based", &[12, 1]) == 0;
                    hash.u64(tb as u64);
                    ks_tablet_based.insert(ks.clone(), tb);
                }
            }
            // The fetched schema: always contains an unrelated table so that a
            // keyspace stays known when our table is dropped from it.
            let mut schema: Vec<(String, String, bool)> = Vec::new();
            for (ks, tb) in ks_tablet_based.iter() {
                schema.push((ks.clone(), "other".to_string(), *tb));
            }
            for t in 0..2 {
                if table_present[t] {
                    let (ks, tb) = w.tables[t].clone();
                    let based = ks_tablet_based[&ks];
                    schema.push((ks, tb, based));
                }
            }
            let line = format!(
                "step {step}: maintenance removed={:?} recreated={:?} joined={:?} tables_present={:?} tablet_based={:?}",
                removed,
                recreated
                    .iter()
                    .map(|(h, n)| format!(
                        "h{h}->n{n}{}",
                        if w.nodes[*n].dc_changed {
                            format!("(dc {:?})", w.nodes[*n].dc.map(|d| DC_NAMES[d]))
                        } else {
                            String::new()
                        }
                    ))
                    .collect::<Vec<_>>(),
                joined,
                table_present,
                ks_tablet_based
            );
            ctx.trace(|| line.clone());
            if ctx.want_desc && desc_steps.len() < 16 {
                desc_steps.push(line.clone());
            }
            if !removed.is_empty() {
                ctx.fault("node_removed");
            }
            if recreated.values().any(|n| !w.nodes[*n].dc_changed) {
                ctx.fault("node_recreated");
            }
            if recreated.values().any(|n| w.nodes[*n].dc_changed) {
                ctx.fault("node_recreated_dc_change");
            }
            if !joined.is_empty() {
                ctx.fault("node_joined");
            }
            // ---- model -----------------------------------------------------
            let mut predicted_assert = false;
            let mut any_unresolved = false;
            for t in 0..2 {
                let based = ks_tablet_based[&w.tables[t].0];
                if !table_present[t] || !based {
                    if !w.model[t].is_empty() {
                        if !table_present[t] {
                            ctx.fault("table_dropped");
                        } else {
                            ctx.fault("ks_not_tablet_based");
                        }
                    }
                    w.model[t].clear();
                    continue;
                }
                let mut kept = Vec::new();
                for mut tb in std::mem::take(&mut w.model[t]) {
                    if tb.unresolved {
                        any_unresolved = true;
                        if tb.raw.iter().all(|(h, _)| new_known.contains_key(h)) {
                            tb.resolved = tb
                                .raw
                                .iter()
                                .map(|(h, s)| (*h, *s, new_known[h]))
                                .collect();
                            tb.unresolved = false;
                            ctx.fault("unknown_resolved");
                            if tb.raw.iter().any(|(h, _)| recreated.contains_key(h)) {
                                predicted_assert = true;
                            }
                        } else {
                            ctx.fault("unknown_dropped");
                            continue;
                        }
                    }
                    if tb.resolved.iter().any(|(h, _, _)| removed.contains(h)) {
                        ctx.probe("tablet_dropped_removed_node");
                        continue;
                    }
                    for r in tb.resolved.iter_mut() {
                        if let Some(n) = recreated.get(&r.0) {
                            r.2 = *n;
                            ctx.probe("replica_repointed");
                        }
                    }
                    kept.push(tb);
                }
                w.model[t] = kept;
            }
            if any_unresolved && removed.is_empty() && recreated.is_empty() {
                ctx.probe("maintenance_flag_only_walk");
            }
            // ---- real ------------------------------------------------------
            w.known = new_known;
            w.rebuild_known_map();
            let removed_set: HashSet<Uuid> = removed.iter().map(|h| host_uuid(*h)).collect();
            let recreated_map: HashMap<Uuid, Arc<Node>> = recreated
                .iter()
                .map(|(h, n)| (host_uuid(*h), Arc::clone(&w.nodes[*n].arc)))
                .collect();
            if predicted_assert {
                ctx.probe("reresolved_tablet_has_recreated_replica");
            }
            let known_map = w.known_map.clone();
            let vt = &mut w.vt;
            let r = catch_unwind(AssertUnwindSafe(|| {
                vt.perform_maintenance(&schema, &removed_set, &known_map, &recreated_map)
            }));
            if let Err(p) = r {
                let pm = crate::panic_message(&p);
                ctx.out.status = "crash".to_string();
                if predicted_assert {
                    ctx.out.oracle = "c15.panic_reresolve_recreated".to_string();
                    ctx.out.msg = format!(
                        "perform_maintenance panicked when a tablet with an unknown replica became resolvable in the same refresh in which another of its replicas' Node object was re-created: {pm} ({line})"
                    );
                } else {
                    ctx.out.oracle = "c15.panic".to_string();
                    ctx.out.msg = format!("perform_maintenance panicked: {pm} ({line})");
                }
                let m = format!("!! {} {}", ctx.out.oracle, ctx.out.msg);
                ctx.trace(|| m);
                return Err(Stop);
            }
        }
        check_all(ctx, &w, step, &extra_tokens)?;
    }

    ctx.out.hash = hash.finish();
    ctx.out.nontrivial = accepted >= 2 && (removing_rel || maint_steps > 0);
    ctx.count("steps", steps as u64);
    ctx.count("maintenance_steps", maint_steps);
    if ctx.want_desc {
        ctx.out.desc = Some(json!({
            "rule": "non-trivial = at least 2 accepted inserts and (an insert that overlapped an existing tablet or a maintenance step)",
            "mode": if long { "long/i64" } else { "short/16-token universe" },
            "hosts": n_hosts, "dcs": n_dcs, "steps": steps, "first_steps": desc_steps,
        }));
    }
    Ok(())
}

fn check_all(ctx: &mut Ctx, w: &World, step: usize, extra: &[i64]) -> Result<(), Stop> {
    let mut lookups = 0u64;
    for t in 0..2 {
        let (ks, tb) = (&w.tables[t].0, &w.tables[t].1);
        let name = format!("{ks}.{tb}");
        let list = w.vt.tablet_list(ks, tb).unwrap_or_default();
        // ---- sorted, disjoint, non-empty ranges --------------------------
        for (i, x) in list.iter().enumerate() {
            if x.first_token > x.last_token {
                return ctx.fail(
                    "c15.sorted_disjoint",
                    format!(
                        "after step {step}: {name} holds an empty range [{}, {}]",
                        tok(x.first_token),
                        tok(x.last_token)
                    ),
                );
            }
            if i > 0 && list[i - 1].last_token >= x.first_token {
                return ctx.fail(
                    "c15.sorted_disjoint",
                    format!(
                        "after step {step}: {name} tablets [{}, {}] and [{}, {}] are not sorted/disjoint",
                        tok(list[i - 1].first_token),
                        tok(list[i - 1].last_token),
                        tok(x.first_token),
                        tok(x.last_token)
                    ),
                );
            }
        }
        // ---- replica objects are the current node objects ----------------
        for x in &list {
            for (u, _s, p) in &x.replicas {
                let h = uuid_host(*u);
                let cur = if h >= 0 {
                    w.known.get(&(h as usize)).map(|r| w.ptr(*r))
                } else {
                    None
                };
                if cur != Some(*p) {
                    return ctx.fail(
                        "c15.stale_node",
                        format!(
                            "after step {step}: {name} tablet [{}, {}] replica h{h} points to node object {} but the current object of that host is {}",
                            tok(x.first_token),
                            tok(x.last_token),
                            w.by_ptr.get(p).map(|i| format!("n{i}")).unwrap_or("unknown".into()),
                            match h >= 0 {
                                true => w.known.get(&(h as usize)).map(|r| format!("n{r}")).unwrap_or("absent (host not in cluster state)".into()),
                                false => "absent".into(),
                            }
                        ),
                    );
                }
            }
        }
        // ---- token universe ----------------------------------------------
        let mut toks: Vec<i64> = vec![MIN, MIN + 1, MAX];
        let mut add = |e: i64| {
            toks.push(e.saturating_sub(1));
            toks.push(e);
            toks.push(e.saturating_add(1));
        };
        for m in &w.model[t] {
            add(m.first);
            add(m.last);
        }
        for x in &list {
            add(x.first_token);
            add(x.last_token);
        }
        for e in extra {
            add(*e);
        }
        if !w.long {
            for e in SMALL {
                toks.push(e);
            }
        }
        toks.sort_unstable();
        toks.dedup();
        for &token in &toks {
            lookups += 1;
            let real = w.vt.replicas_for_token(ks, tb, token);
            // `Token::new` normalises i64::MIN (not a token of the ring) to
            // i64::MAX, so asking for MIN is asking for MAX.
            let m = model_lookup(&w.model[t], if token == MIN { MAX } else { token });
            let expected: Option<Vec<(Uuid, u32, usize)>> = m.map(|m| {
                m.resolved
                    .iter()
                    .map(|(h, s, rec)| (host_uuid(*h), *s, w.ptr(*rec)))
                    .collect()
            });
            if real != expected {
                let same_but_ptr = match (&real, &expected) {
                    (Some(a), Some(b)) => {
                        a.len() == b.len()
                            && a.iter().zip(b.iter()).all(|(x, y)| x.0 == y.0 && x.1 == y.1)
                    }
                    _ => false,
                };
                let oracle = if same_but_ptr {
                    "c15.stale_node"
                } else {
                    "c15.lookup"
                };
                let what = match (&real, &expected) {
                    (Some(_), None) => "answered although the model knows no covering tablet (stale or too wide)",
                    (None, Some(_)) => "answered by nothing although the model has a covering tablet",
                    _ if same_but_ptr => "answered with a stale node object",
                    _ => "answered with other replicas than the most recently learnt covering tablet",
                };
                return ctx.fail(
                    oracle,
                    format!(
                        "after step {step}: {name} token {} {what}: real={} model={} (model tablet {})",
                        tok(token),
                        w.fmt_view(&real),
                        w.fmt_view(&expected),
                        match m {
                            Some(m) => format!("[{}, {}] raw={} unresolved={}", tok(m.first), tok(m.last), w.fmt_reps(&m.raw), m.unresolved),
                            None => "none".to_string(),
                        }
                    ),
                );
            }
            // ---- per-DC lists are the restriction of the full list --------
            for dc in 0..4usize {
                let dc_name = if dc < 3 { DC_NAMES[dc] } else { "nodc" };
                let real_dc = w.vt.dc_replicas_for_token(ks, tb, token, dc_name);
                let mut touches_dc_changed = false;
                let expected_dc: Option<Vec<(Uuid, u32, usize)>> = real.as_ref().map(|all| {
                    all.iter()
                        .filter(|(_, _, p)| match w.by_ptr.get(p) {
                            Some(i) => {
                                if w.nodes[*i].dc_changed {
                                    touches_dc_changed = true;
                                }
                                dc < 3 && w.nodes[*i].dc == Some(dc)
                            }
                            None => false,
                        })
                        .cloned()
                        .collect()
                });
                if real_dc != expected_dc {
                    let oracle = if touches_dc_changed {
                        "c15.dc_restriction_dc_change"
                    } else {
                        "c15.dc_restriction"
                    };
                    return ctx.fail(
                        oracle,
                        format!(
                            "after step {step}: {name} token {} replicas restricted to {dc_name} = {} but the restriction of the full list {} to nodes of {dc_name} is {}{}",
                            tok(token),
                            w.fmt_view(&real_dc),
                            w.fmt_view(&real),
                            w.fmt_view(&expected_dc),
                            if touches_dc_changed { " (a replica's Node object was re-created with a different datacenter)" } else { "" }
                        ),
                    );
                }
            }
        }
        // ---- unresolved bookkeeping visible through the list --------------
        if list.len() != w.model[t].len() {
            return ctx.fail(
                "c15.lookup",
                format!(
                    "after step {step}: {name} holds {} tablets, model {}",
                    list.len(),
                    w.model[t].len()
                ),
            );
        }
    }
    ctx.count("lookups", lookups);
    Ok(())
}
