//! C19p - poll-granularity driver of the real merge channel
//! (`scylla::verif::{verif_merge_channel, VerifMergeSender, VerifMergeReceiver}`).
//!
//! Single thread, no scheduler library: the harness owns the only waker (a
//! counting waker) and creates / polls / drops the `recv()` future by hand.
//! Producer steps normally run between polls; in addition, through the
//! `scylla::verif::set_sched_point` callback, a poll may run producer steps
//! *inside* `recv` at one of its scheduling points (between enable / take /
//! flag load), which is where the races described in the module live.

use crate::case::{Ctx, Stop};
use crate::rng::Fnv;
use scylla::verif::{VerifMergeReceiver, VerifMergeSender, verif_merge_channel};
use serde_json::json;
use std::cell::RefCell;
use std::future::Future;
use std::pin::Pin;
use std::sync::Arc;
use std::sync::atomic::{AtomicUsize, Ordering};
use std::task::{Context, Poll, Wake, Waker};

struct CountWaker(AtomicUsize);

impl Wake for CountWaker {
    fn wake(self: Arc<Self>) {
        self.0.fetch_add(1, Ordering::SeqCst);
    }
    fn wake_by_ref(self: &Arc<Self>) {
        self.0.fetch_add(1, Ordering::SeqCst);
    }
}

#[derive(Clone, Copy, Debug, PartialEq, Eq)]
enum ProdOp {
    Push,
    Noop,
    Retract,
    DropSender,
}

/// The producer half plus the reference model; lives in a thread-local so that
/// the scheduling-point callback can run producer steps in the middle of a
/// `recv` poll.
#[derive(Default)]
struct Prod {
    tx: Option<VerifMergeSender<Vec<u32>>>,
    /// Model: the one pending vector.
    pending: Option<Vec<u32>>,
    /// Model: the value `recv` removed from the slot during the poll in
    /// progress (the take is the linearisation point of a receive; the harness
    /// sees the scheduling point right after it). The poll must return it.
    in_flight: Option<Vec<u32>>,
    sender_gone: bool,
    receiver_gone: bool,
    next_id: u32,
    pushed: u64,
    /// First oracle failure raised from producer-side checks.
    failure: Option<(&'static str, String)>,
    log: Vec<String>,
    log_on: bool,
    faults: Vec<&'static str>,
    /// Armed injection: (countdown over recv-side scheduling points, ops).
    inject: Option<(u32, Vec<ProdOp>)>,
    in_callback: bool,
}

thread_local! {
    static PROD: RefCell<Prod> = RefCell::new(Prod::default());
}

impl Prod {
    fn fail(&mut self, oracle: &'static str, msg: String) {
        if self.failure.is_none() {
            self.failure = Some((oracle, msg));
        }
    }

    fn op(&mut self, op: ProdOp, whence: &str) {
        match op {
            ProdOp::DropSender => {
                if self.tx.take().is_some() {
                    if self.pending.is_some() {
                        self.faults.push("sender_drop_with_pending");
                    }
                    self.faults.push("sender_drop");
                    self.sender_gone = true;
                    if self.log_on {
                        self.log.push(format!("{whence}producer: drop sender"));
                    }
                }
            }
            _ => {
                let Some(tx) = self.tx.as_mut() else { return };
                let id = self.next_id;
                let model_before = self.pending.clone();
                let mut seen: Option<Option<Vec<u32>>> = None;
                let r = tx.modify(|slot| {
                    seen = Some(slot.clone());
                    match op {
                        ProdOp::Push => slot.get_or_insert_with(Vec::new).push(id),
                        ProdOp::Noop => {}
                        ProdOp::Retract => *slot = None,
                        ProdOp::DropSender => unreachable!(),
                    }
                });
                if self.log_on {
                    self.log.push(format!(
                        "{whence}producer: modify({}) -> {} (slot seen {:?})",
                        match op {
                            ProdOp::Push => format!("push {id}"),
                            ProdOp::Noop => "no-op".to_string(),
                            _ => "retract".to_string(),
                        },
                        if r.is_ok() { "Ok" } else { "Err" },
                        seen
                    ));
                }
                match r {
                    Err(()) => {
                        if !self.receiver_gone {
                            self.fail(
                                "c19.send_error",
                                format!("modify returned Err although the receiver is alive ({op:?})"),
                            );
                        } else if seen.is_some() {
                            self.fail(
                                "c19.send_error",
                                "modify returned Err but applied the closure".to_string(),
                            );
                        }
                        self.faults.push("modify_after_receiver_drop");
                    }
                    Ok(()) => {
                        if self.receiver_gone {
                            self.fail(
                                "c19.send_error",
                                format!("modify({op:?}) returned Ok although the receiver was dropped"),
                            );
                            return;
                        }
                        if seen.as_ref() != Some(&model_before) {
                            self.fail(
                                "c19.lost_or_dup",
                                format!(
                                    "modify saw the pending value {:?}, model says {:?}",
                                    seen, model_before
                                ),
                            );
                        }
                        match op {
                            ProdOp::Push => {
                                self.next_id += 1;
                                self.pushed += 1;
                                self.pending.get_or_insert_with(Vec::new).push(id);
                            }
                            ProdOp::Noop => {}
                            ProdOp::Retract => {
                                if self.pending.is_some() {
                                    self.faults.push("retract");
                                }
                                self.pending = None;
                            }
                            ProdOp::DropSender => {}
                        }
                    }
                }
            }
        }
    }
}

/// Installed once per process with `scylla::verif::set_sched_point`.
pub fn sched_point_callback(site: &'static str) {
    if !site.starts_with("mc:recv:") {
        return;
    }
    PROD.with(|p| {
        let Ok(mut p) = p.try_borrow_mut() else { return };
        if p.in_callback {
            return;
        }
        if site == "mc:recv:after_take" && p.in_flight.is_none() {
            p.in_flight = p.pending.take();
        }
        let fire = match p.inject.as_mut() {
            Some((countdown, _)) => {
                if *countdown == 0 {
                    true
                } else {
                    *countdown -= 1;
                    false
                }
            }
            None => false,
        };
        if fire {
            let (_, ops) = p.inject.take().unwrap();
            p.in_callback = true;
            p.faults.push("producer_step_inside_poll");
            let whence = format!("  [inside poll at {site}] ");
            for op in ops {
                p.op(op, &whence);
            }
            p.in_callback = false;
        }
    });
}

fn gen_prod_op(ctx: &mut Ctx) -> ProdOp {
    match ctx.weighted("c19.prod_op", &[8, 2, 2, 1]) {
        0 => ProdOp::Push,
        1 => ProdOp::Noop,
        2 => ProdOp::Retract,
        _ => ProdOp::DropSender,
    }
}

struct Drv<'a> {
    ctx: &'a mut Ctx,
    hash: Fnv,
    steps_left: u64,
    wakes: Arc<CountWaker>,
    waker: Waker,
    received: u64,
    recv_attempts: u64,
}

impl Drv<'_> {
    /// Moves the producer-side log lines and fault marks into the case output.
    fn flush_log(&mut self) {
        let (log, faults) = PROD.with(|p| {
            let mut p = p.borrow_mut();
            (std::mem::take(&mut p.log), std::mem::take(&mut p.faults))
        });
        for l in log {
            self.ctx.out.trace.push(l);
        }
        for f in faults {
            self.ctx.fault(f);
        }
    }

    fn flush(&mut self) -> Result<(), Stop> {
        self.flush_log();
        let failure = PROD.with(|p| p.borrow_mut().failure.take());
        if let Some((oracle, msg)) = failure {
            return self.ctx.fail(oracle, msg);
        }
        Ok(())
    }

    fn producer_step(&mut self) -> Result<(), Stop> {
        let op = gen_prod_op(self.ctx);
        self.hash.u64(1 + op as u64);
        PROD.with(|p| p.borrow_mut().op(op, ""));
        self.flush()
    }

    /// Checks a value handed to the consumer against the model.
    fn took(&mut self, how: &str, got: &Option<Vec<u32>>, is_recv: bool) -> Result<(), Stop> {
        let (pending, sender_gone) = PROD.with(|p| {
            let mut p = p.borrow_mut();
            let v = match p.in_flight.take() {
                Some(v) => Some(v),
                None => p.pending.take(),
            };
            (v, p.sender_gone)
        });
        match got {
            Some(v) => {
                self.received += 1;
                if Some(v) != pending.as_ref() {
                    return self.ctx.fail(
                        "c19.lost_or_dup",
                        format!("{how} yielded {v:?} but the merged, not yet received updates are {pending:?}"),
                    );
                }
            }
            None => {
                if let Some(p) = pending {
                    return self.ctx.fail(
                        if is_recv { "c19.none_early" } else { "c19.lost_or_dup" },
                        format!("{how} yielded None although the merged updates {p:?} are pending{}",
                            if is_recv { " (the last update is lost)" } else { "" }),
                    );
                }
                if is_recv && !sender_gone {
                    return self.ctx.fail(
                        "c19.none_early",
                        format!("{how} yielded None although the sender is alive"),
                    );
                }
            }
        }
        Ok(())
    }

    /// One receive attempt: the future borrows the receiver for its lifetime.
    /// Returns `true` if the receiver is to be dropped right after.
    fn recv_attempt(&mut self, rx: &mut VerifMergeReceiver<Vec<u32>>) -> Result<bool, Stop> {
        self.recv_attempts += 1;
        self.ctx.trace(|| "consumer: start recv".to_string());
        let mut fut: Pin<Box<dyn Future<Output = Option<Vec<u32>>> + '_>> = Box::pin(rx.recv());
        // `None`: never polled. `Some(w)`: last poll returned Pending and the
        // wake counter was `w` when that poll started.
        let mut parked: Option<usize> = None;
        let mut polls = 0u32;
        let mut after_sender_drop_counted = false;
        loop {
            if self.steps_left == 0 || self.ctx.tape.exhausted() {
                self.ctx.trace(|| "consumer: (end of history) drop recv".to_string());
                return Ok(false);
            }
            self.steps_left -= 1;
            let a = self.ctx.weighted("c19.in_recv", &[20, 12, 4, 1]);
            self.hash.u64(10 + a as u64);
            match a {
                0 => {
                    // poll, possibly with producer steps injected inside
                    let inj = self.ctx.weighted("c19.inject", &[5, 2]);
                    if inj == 1 {
                        let site = self.ctx.choose("c19.inject_site", 7) as u32;
                        let n_ops = 1 + self.ctx.choose("c19.inject_ops", 2);
                        let mut ops = Vec::new();
                        for _ in 0..n_ops {
                            ops.push(gen_prod_op(self.ctx));
                        }
                        self.hash.u64(100 + site as u64);
                        for o in &ops {
                            self.hash.u64(*o as u64);
                        }
                        PROD.with(|p| p.borrow_mut().inject = Some((site, ops)));
                    }
                    let w0 = self.wakes.0.load(Ordering::SeqCst);
                    let gone_before = PROD.with(|p| p.borrow().sender_gone);
                    if gone_before && !after_sender_drop_counted {
                        after_sender_drop_counted = true;
                        self.ctx.fault("recv_after_sender_drop");
                    }
                    let mut cx = Context::from_waker(&self.waker);
                    let r = fut.as_mut().poll(&mut cx);
                    polls += 1;
                    PROD.with(|p| p.borrow_mut().inject = None);
                    self.ctx.count("polls", 1);
                    self.flush_log();
                    self.ctx.trace(|| format!("consumer: poll #{polls} -> {r:?}"));
                    self.flush()?;
                    match r {
                        Poll::Ready(v) => {
                            drop(fut);
                            self.took("recv", &v, true)?;
                            return Ok(false);
                        }
                        Poll::Pending => {
                            let stolen = PROD.with(|p| p.borrow_mut().in_flight.take());
                            if let Some(v) = stolen {
                                return self.ctx.fail(
                                    "c19.lost_or_dup",
                                    format!("recv removed {v:?} from the slot during poll #{polls} but returned Pending: the value is lost if the future is dropped now"),
                                );
                            }
                            parked = Some(w0);
                            self.ctx.probe("recv_parked");
                        }
                    }
                }
                1 => self.producer_step()?,
                2 => {
                    if parked.is_some() {
                        self.ctx.fault("cancel");
                    } else {
                        self.ctx.probe("cancel_before_first_poll");
                    }
                    self.ctx.trace(|| "consumer: drop recv future (cancel)".to_string());
                    return Ok(false);
                }
                _ => {
                    self.ctx
                        .trace(|| "consumer: drop recv future and receiver".to_string());
                    return Ok(true);
                }
            }
            // ---- c19.lost_wakeup --------------------------------------------
            if let Some(w_at_poll) = parked {
                let (pending, gone) =
                    PROD.with(|p| (p.borrow().pending.clone(), p.borrow().sender_gone));
                if (pending.is_some() || gone)
                    && self.wakes.0.load(Ordering::SeqCst) == w_at_poll
                {
                    return self.ctx.fail(
                        "c19.lost_wakeup",
                        format!(
                            "recv future parked (last poll, #{polls}, returned Pending) and {} but the waker has not been invoked since that poll began",
                            match pending {
                                Some(p) => format!("the value {p:?} is pending"),
                                None => "the sender is gone".to_string(),
                            }
                        ),
                    );
                }
            }
        }
    }
}

pub fn run(ctx: &mut Ctx) -> Result<(), Stop> {
    let (tx, rx) = verif_merge_channel::<Vec<u32>>();
    if ctx.want_desc {
        ctx.trace_on = true;
    }
    let log_on = ctx.trace_on;
    PROD.with(|p| {
        *p.borrow_mut() = Prod {
            tx: Some(tx),
            next_id: 1,
            log_on,
            ..Default::default()
        }
    });
    let steps = 1 + ctx.choose("c19.steps", 24);
    let wakes = Arc::new(CountWaker(AtomicUsize::new(0)));
    let waker = Waker::from(Arc::clone(&wakes));
    let mut d = Drv {
        ctx,
        hash: Fnv::default(),
        steps_left: steps,
        wakes,
        waker,
        received: 0,
        recv_attempts: 0,
    };
    let mut rx: Option<VerifMergeReceiver<Vec<u32>>> = Some(rx);
    let r = drive(&mut d, &mut rx);
    // Drop the endpoints inside the case (and clear the thread-local).
    drop(rx);
    let pushed = PROD.with(|p| {
        let mut p = p.borrow_mut();
        let pushed = p.pushed;
        *p = Prod::default();
        pushed
    });
    r?;
    let Drv {
        ctx,
        hash,
        received,
        recv_attempts,
        ..
    } = d;
    ctx.out.hash = hash.finish();
    ctx.out.nontrivial = pushed >= 1 && (recv_attempts >= 1 || received >= 1);
    ctx.count("steps", steps);
    ctx.count("values_received", received);
    ctx.count("ids_pushed", pushed);
    if ctx.want_desc {
        ctx.out.desc = Some(json!({
            "rule": "non-trivial = at least one id merged in and at least one receive attempt (recv or a try_recv that yielded a value)",
            "steps": steps, "ids_pushed": pushed, "values_received": received, "recv_attempts": recv_attempts,
            "first_steps": ctx.out.trace.iter().take(14).cloned().collect::<Vec<_>>(),
        }));
    }
    Ok(())
}

fn drive(d: &mut Drv<'_>, rx: &mut Option<VerifMergeReceiver<Vec<u32>>>) -> Result<(), Stop> {
    while d.steps_left > 0 && !d.ctx.tape.exhausted() {
        d.steps_left -= 1;
        let a = d.ctx.weighted("c19.step", &[12, 12, 4, 1]);
        d.hash.u64(20 + a as u64);
        match a {
            0 => d.producer_step()?,
            1 => {
                if let Some(r) = rx.as_mut() {
                    let drop_rx = d.recv_attempt(r)?;
                    if drop_rx {
                        drop_receiver(d, rx);
                    }
                }
            }
            2 => {
                if let Some(r) = rx.as_mut() {
                    let v = r.try_recv();
                    d.ctx.trace(|| format!("consumer: try_recv -> {v:?}"));
                    d.ctx.probe("try_recv");
                    d.flush()?;
                    d.took("try_recv", &v, false)?;
                }
            }
            _ => drop_receiver(d, rx),
        }
    }
    // End of history: whatever is still pending must be deliverable.
    if let Some(r) = rx.as_mut() {
        let v = r.try_recv();
        d.ctx.trace(|| format!("consumer: (end of history) try_recv -> {v:?}"));
        d.flush()?;
        d.took("final try_recv", &v, false)?;
    }
    Ok(())
}

fn drop_receiver(d: &mut Drv<'_>, rx: &mut Option<VerifMergeReceiver<Vec<u32>>>) {
    if rx.take().is_some() {
        d.ctx.trace(|| "consumer: drop receiver".to_string());
        d.ctx.fault("receiver_drop");
        PROD.with(|p| {
            let mut p = p.borrow_mut();
            p.receiver_gone = true;
            // Nothing can be observed any more.
            p.pending = None;
        });
    }
}
