//! C19u - what travels through the hand-off: the merge constructors of the real
//! `MetadataUpdate` (full fetch results with refresh responders, partial topology
//! fetches, UP/DOWN hints) driven directly through a thin wrapper, against a
//! reference model of "everything merged in since the last take".
//!
//! Property clause: every update the producer merged in is observed by the
//! consumer in exactly one received value - at payload level: the value taken
//! carries the latest full fetch (if any since the last take), with the latest
//! peer list fetched after it (or the latest partial peer list if no full fetch
//! is pending), every refresh responder merged since the last take exactly
//! once, and for every address the latest hint. Client routes: a full fetch carries
//! the whole snapshot (if the feature is configured), a partial client-routes fetch a
//! set of per-(host, connection) entries "route is now X" / "route is gone"; the value
//! taken carries the snapshot of the latest full fetch with every later entry applied,
//! or - without a pending full fetch - for every (host, connection) the latest entry.

use crate::case::{Ctx, Stop};
use crate::rng::Fnv;
use scylla::verif::{VerifChanges, VerifRefreshReceiver, VerifRoutes, VerifUpdateSlot};
use serde_json::json;
use std::collections::BTreeMap;
use std::net::SocketAddr;

#[derive(Default, Clone, Debug, PartialEq)]
enum ModelChanges {
    #[default]
    None,
    Full {
        metadata_id: u64,
        peers_id: u64,
    },
    Partial {
        peers_id: Option<u64>,
    },
}

#[derive(Default, Clone, Debug, PartialEq)]
enum ModelRoutes {
    #[default]
    None,
    Full(BTreeMap<(u8, u8), u16>),
    Partial(BTreeMap<(u8, u8), Option<u16>>),
}

#[derive(Default)]
struct Model {
    changes: ModelChanges,
    routes: ModelRoutes,
    hints: BTreeMap<SocketAddr, bool>,
    /// Receivers of the responders merged since the last take (request number).
    responders: Vec<(u64, VerifRefreshReceiver)>,
    touched: bool,
}

fn addr(k: u64) -> SocketAddr {
    format!("10.0.0.{}:9042", 1 + k).parse().unwrap()
}

pub fn run(ctx: &mut Ctx) -> Result<(), Stop> {
    let mut slot = VerifUpdateSlot::new();
    let mut model = Model::default();
    let mut hash = Fnv::default();
    let steps = 1 + ctx.choose("c19u.steps", 24);
    let mut next_meta = 1u64;
    let mut next_peers = 1000u64;
    let mut next_req = 1u64;
    let mut next_route = 0u16;
    let mut merges = 0u64;
    let mut takes = 0u64;
    let mut merged_into_pending = 0u64;
    for _ in 0..steps {
        if ctx.tape.exhausted() {
            break;
        }
        let op = ctx.weighted("c19u.op", &[5, 4, 4, 5, 4]);
        hash.u64(op as u64);
        match op {
            0 => {
                // A full fetch result, possibly answering an explicit refresh request.
                let with_responder = ctx.chance("c19u.responder", 1, 2);
                let (m, p) = (next_meta, next_peers);
                next_meta += 1;
                next_peers += 1;
                ctx.trace(|| format!("producer: merge full metadata M{m} (peers P{p}) responder={with_responder}"));
                if model.touched {
                    merged_into_pending += 1;
                    ctx.fault("merged_into_pending_update");
                }
                // 2 in 3 fetch results carry a client-routes snapshot (feature configured).
                let snapshot: Option<Vec<(u8, u8, u16)>> = if ctx.chance("c19u.routes_configured", 2, 3) {
                    let n = ctx.choose("c19u.snapshot_len", 5);
                    let mut v: BTreeMap<(u8, u8), u16> = BTreeMap::new();
                    for _ in 0..n {
                        let k = (ctx.choose("c19u.route_host", 3) as u8, ctx.choose("c19u.route_conn", 2) as u8);
                        next_route += 1;
                        v.insert(k, next_route);
                    }
                    Some(v.into_iter().map(|((h, c), t)| (h, c, t)).collect())
                } else {
                    None
                };
                hash.u64(snapshot.as_ref().map(|s| s.len() as u64 + 1).unwrap_or(0));
                ctx.trace(|| format!("          client routes in it: {snapshot:?}"));
                let rx = slot.merge_full_with_routes(m, p, with_responder, snapshot.as_deref());
                // A full fetch subsumes every partial result pending so far.
                model.routes = match snapshot {
                    Some(s) => ModelRoutes::Full(s.into_iter().map(|(h, c, t)| ((h, c), t)).collect()),
                    None => ModelRoutes::None,
                };
                if let Some(rx) = rx {
                    model.responders.push((next_req, rx));
                    next_req += 1;
                }
                model.changes = ModelChanges::Full { metadata_id: m, peers_id: p };
                model.touched = true;
                merges += 1;
            }
            1 => {
                let p = next_peers;
                next_peers += 1;
                ctx.trace(|| format!("producer: merge partial topology P{p}"));
                if model.touched {
                    merged_into_pending += 1;
                    ctx.fault("merged_into_pending_update");
                }
                slot.merge_topology(p);
                model.changes = match model.changes.clone() {
                    ModelChanges::Full { metadata_id, .. } => {
                        ctx.probe("topology_merged_into_pending_full");
                        ModelChanges::Full { metadata_id, peers_id: p }
                    }
                    _ => ModelChanges::Partial { peers_id: Some(p) },
                };
                model.touched = true;
                merges += 1;
            }
            2 => {
                let a = addr(ctx.choose("c19u.addr", 3));
                let up = ctx.chance("c19u.up", 1, 2);
                hash.u64(up as u64);
                ctx.trace(|| format!("producer: merge {} hint for {a}", if up { "UP" } else { "DOWN" }));
                if model.touched {
                    merged_into_pending += 1;
                    ctx.fault("merged_into_pending_update");
                }
                if model.hints.contains_key(&a) {
                    ctx.probe("hint_overwritten");
                }
                if matches!(model.changes, ModelChanges::Full { .. }) {
                    ctx.probe("hint_merged_next_to_pending_full");
                }
                slot.hint(a, up);
                model.hints.insert(a, up);
                model.touched = true;
                merges += 1;
            }
            4 => {
                // A partial client-routes fetch result: 1..3 entries.
                let n = 1 + ctx.choose("c19u.entries", 3);
                let mut entries: BTreeMap<(u8, u8), Option<u16>> = BTreeMap::new();
                for _ in 0..n {
                    let k = (ctx.choose("c19u.route_host", 3) as u8, ctx.choose("c19u.route_conn", 2) as u8);
                    let v = if ctx.chance("c19u.route_removed", 1, 3) {
                        None
                    } else {
                        next_route += 1;
                        Some(next_route)
                    };
                    entries.insert(k, v);
                }
                let entries: Vec<(u8, u8, Option<u16>)> = entries.into_iter().map(|((h, c), t)| (h, c, t)).collect();
                hash.u64(entries.len() as u64);
                ctx.trace(|| format!("producer: merge partial client routes {entries:?}"));
                if model.touched {
                    merged_into_pending += 1;
                    ctx.fault("merged_into_pending_update");
                }
                slot.merge_client_routes(&entries);
                match (&model.changes, &mut model.routes) {
                    (ModelChanges::Full { .. }, ModelRoutes::Full(all)) => {
                        ctx.probe("client_routes_merged_into_pending_full");
                        for (h, c, t) in &entries {
                            match t {
                                Some(t) => {
                                    all.insert((*h, *c), *t);
                                }
                                None => {
                                    all.remove(&(*h, *c));
                                }
                            }
                        }
                    }
                    // Client routes are not configured (the full fetch carried none): the
                    // update is meaningless and dropped.
                    (ModelChanges::Full { .. }, _) => {}
                    (_, ModelRoutes::Partial(pending)) => {
                        ctx.probe("client_routes_merged_into_pending_partial");
                        for (h, c, t) in &entries {
                            pending.insert((*h, *c), *t);
                        }
                    }
                    (_, r) => {
                        *r = ModelRoutes::Partial(entries.iter().map(|(h, c, t)| ((*h, *c), *t)).collect());
                        if model.changes == ModelChanges::None {
                            model.changes = ModelChanges::Partial { peers_id: None };
                        }
                    }
                }
                model.touched = true;
                merges += 1;
            }
            _ => {
                takes += 1;
                check_take(ctx, &mut slot, &mut model)?;
            }
        }
    }
    // End of history: whatever is pending must come out.
    check_take(ctx, &mut slot, &mut model)?;
    ctx.out.hash = hash.finish();
    ctx.out.nontrivial = merges >= 2 && merged_into_pending >= 1;
    ctx.count("merges", merges);
    ctx.count("takes", takes + 1);
    if ctx.want_desc {
        ctx.out.desc = Some(json!({
            "rule": "non-trivial = at least 2 merges, at least one of them into a value still pending",
            "steps": steps, "merges": merges, "takes": takes + 1,
            "first_steps": ctx.out.trace.iter().take(14).cloned().collect::<Vec<_>>(),
        }));
    }
    Ok(())
}

fn check_take(ctx: &mut Ctx, slot: &mut VerifUpdateSlot, model: &mut Model) -> Result<(), Stop> {
    let taken = slot.take();
    let m = std::mem::take(model);
    match taken {
        None => {
            ctx.trace(|| "consumer: take -> nothing".to_string());
            if m.touched {
                return ctx.fail(
                    "c19.payload_lost",
                    format!("the slot is empty although {:?}, hints {:?} and {} responders were merged in", m.changes, m.hints, m.responders.len()),
                );
            }
        }
        Some(t) => {
            let (got, responders) = match t.changes {
                VerifChanges::None => (ModelChanges::None, Vec::new()),
                VerifChanges::Full { metadata_id, peers_id, responders } => (ModelChanges::Full { metadata_id, peers_id }, responders),
                VerifChanges::Partial { peers_id } => (ModelChanges::Partial { peers_id }, Vec::new()),
            };
            ctx.trace(|| format!("consumer: take -> {got:?}, hints {:?}, {} responders", t.hints, responders.len()));
            if !m.touched {
                return ctx.fail("c19.payload_dup", format!("a value ({got:?}) was taken although nothing was merged in since the last take"));
            }
            // A pending partial update without peers is equivalent to none.
            let norm = |c: ModelChanges| if c == (ModelChanges::Partial { peers_id: None }) { ModelChanges::None } else { c };
            if norm(got.clone()) != norm(m.changes.clone()) {
                return ctx.fail(
                    "c19.payload_lost",
                    format!("the consumer received {got:?} but the fetch results merged in since the last take amount to {:?}", m.changes),
                );
            }
            let got_routes = match t.routes {
                VerifRoutes::None => ModelRoutes::None,
                VerifRoutes::Full(v) => ModelRoutes::Full(v.into_iter().map(|(h, c, t)| ((h, c), t)).collect()),
                VerifRoutes::Partial(v) => ModelRoutes::Partial(v.into_iter().map(|(h, c, t)| ((h, c), t)).collect()),
            };
            if got_routes != m.routes {
                return ctx.fail(
                    "c19.payload_lost",
                    format!("the consumer received the client routes {got_routes:?} but the fetch results merged in since the last take amount to {:?}", m.routes),
                );
            }
            let want_hints: Vec<(SocketAddr, bool)> = m.hints.iter().map(|(a, u)| (*a, *u)).collect();
            if t.hints != want_hints {
                return ctx.fail(
                    "c19.payload_lost",
                    format!("the consumer received the hints {:?} but {:?} were merged in since the last take", t.hints, want_hints),
                );
            }
            // Every responder merged in is handed over exactly once: answering all the
            // received ones must reach every waiting requester.
            let n_got = responders.len();
            for r in responders {
                let _ = r.send(Ok(()));
            }
            let mut unanswered = Vec::new();
            for (req, mut rx) in m.responders {
                match rx.try_recv() {
                    Ok(_) => {}
                    Err(_) => unanswered.push(req),
                }
            }
            if !unanswered.is_empty() {
                return ctx.fail(
                    "c19.refresh_responder_lost",
                    format!("refresh requests {unanswered:?} were merged in with their response channels but the value taken carried only {n_got} of them"),
                );
            }
            ctx.probe("take_checked");
        }
    }
    Ok(())
}
