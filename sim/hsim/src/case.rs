//! What one seeded history (a "case") reports, and the context handed to the
//! part drivers.

use crate::tape::Tape;
use serde_json::{Value, json};
use std::collections::BTreeMap;

#[derive(Clone, Copy, Debug, PartialEq, Eq)]
pub enum Tier {
    Quick,
    Thorough,
}

impl Tier {
    pub fn as_str(&self) -> &'static str {
        match self {
            Tier::Quick => "quick",
            Tier::Thorough => "thorough",
        }
    }
    pub fn parse(s: &str) -> Option<Tier> {
        match s {
            "quick" => Some(Tier::Quick),
            "thorough" => Some(Tier::Thorough),
            _ => None,
        }
    }
}

pub type Counts = BTreeMap<String, u64>;

#[derive(Clone, Debug, Default)]
pub struct CaseOut {
    /// ok | violation | crash | timeout | inconclusive
    pub status: String,
    pub oracle: String,
    pub msg: String,
    pub hash: u64,
    pub nontrivial: bool,
    pub fault_free: bool,
    pub virt_ns: u128,
    pub faults: Counts,
    pub probes: Counts,
    pub counters: Counts,
    pub desc: Option<Value>,
    pub trace: Vec<String>,
    pub tape: Vec<u64>,
}

impl CaseOut {
    pub fn class(&self) -> String {
        if self.status == "ok" {
            "ok".to_string()
        } else {
            format!("{}:{}", self.status, self.oracle)
        }
    }

    pub fn to_json(&self) -> Value {
        json!({
            "status": self.status, "oracle": self.oracle, "msg": self.msg,
            "hash": self.hash.to_string(), "nontrivial": self.nontrivial,
            "fault_free": self.fault_free, "virt_ns": self.virt_ns.to_string(),
            "faults": self.faults, "probes": self.probes, "counters": self.counters,
            "desc": self.desc, "trace": self.trace, "tape": self.tape,
        })
    }

    pub fn from_json(v: &Value) -> Option<CaseOut> {
        fn counts(v: &Value) -> Counts {
            v.as_object()
                .map(|o| {
                    o.iter()
                        .map(|(k, x)| (k.clone(), x.as_u64().unwrap_or(0)))
                        .collect()
                })
                .unwrap_or_default()
        }
        Some(CaseOut {
            status: v.get("status")?.as_str()?.to_string(),
            oracle: v.get("oracle")?.as_str()?.to_string(),
            msg: v.get("msg")?.as_str()?.to_string(),
            hash: v.get("hash")?.as_str()?.parse().ok()?,
            nontrivial: v.get("nontrivial")?.as_bool()?,
            fault_free: v.get("fault_free")?.as_bool()?,
            virt_ns: v.get("virt_ns")?.as_str()?.parse().ok()?,
            faults: counts(v.get("faults")?),
            probes: counts(v.get("probes")?),
            counters: counts(v.get("counters")?),
            desc: v.get("desc").cloned().filter(|d| !d.is_null()),
            trace: v
                .get("trace")?
                .as_array()?
                .iter()
                .map(|x| x.as_str().unwrap_or("").to_string())
                .collect(),
            tape: v
                .get("tape")?
                .as_array()?
                .iter()
                .map(|x| x.as_u64().unwrap_or(0))
                .collect(),
        })
    }
}

/// Returned by a driver when it stops early (first violation ends the case).
pub struct Stop;

pub struct Ctx {
    pub tape: Tape,
    pub tier: Tier,
    pub trace_on: bool,
    pub want_desc: bool,
    pub out: CaseOut,
}

impl Ctx {
    pub fn new(tape: Tape, tier: Tier, trace_on: bool, want_desc: bool) -> Self {
        Ctx {
            tape,
            tier,
            trace_on,
            want_desc,
            out: CaseOut {
                status: "ok".to_string(),
                fault_free: true,
                ..Default::default()
            },
        }
    }

    #[inline]
    pub fn choose(&mut self, site: &'static str, n: u64) -> u64 {
        self.tape.choose(site, n)
    }

    #[inline]
    pub fn weighted(&mut self, site: &'static str, w: &[u64]) -> usize {
        self.tape.weighted(site, w)
    }

    #[inline]
    pub fn chance(&mut self, site: &'static str, num: u64, den: u64) -> bool {
        self.tape.chance(site, num, den)
    }

    /// A fault kind that actually fired.
    pub fn fault(&mut self, name: &str) {
        *self.out.faults.entry(name.to_string()).or_insert(0) += 1;
        self.out.fault_free = false;
    }

    pub fn probe(&mut self, name: &str) {
        *self.out.probes.entry(name.to_string()).or_insert(0) += 1;
    }

    pub fn count(&mut self, name: &str, n: u64) {
        *self.out.counters.entry(name.to_string()).or_insert(0) += n;
    }

    #[inline]
    pub fn trace(&mut self, f: impl FnOnce() -> String) {
        if self.trace_on {
            let s = f();
            self.out.trace.push(s);
        }
    }

    /// Records a violation (the first one wins) and stops the case.
    pub fn fail<T>(&mut self, oracle: &str, msg: String) -> Result<T, Stop> {
        if self.out.status == "ok" {
            self.out.status = "violation".to_string();
            self.out.oracle = oracle.to_string();
            self.out.msg = msg;
        }
        if self.trace_on {
            let line = format!("!! {} {}", self.out.oracle, self.out.msg);
            self.out.trace.push(line);
        }
        Err(Stop)
    }

    pub fn finish(mut self) -> CaseOut {
        self.out.tape = std::mem::take(&mut self.tape.recorded);
        self.out
    }
}
