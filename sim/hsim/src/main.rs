//! hsim - seeded direct history drivers: real driver code (through
//! `scylla::verif::*`, compiled with `--cfg scylla_verif`) against small
//! executable reference models. Implements /verif/sim/ENGINE_CONTRACT.md.
//!
//!   hsim run --property C15d|C13d|C02d|C19p|C19u --tier quick|thorough --seed N --jobs N --out FILE
//!   hsim replay FILE [--trace]
//!
//! Environment: `VERIF_DIR` (default /verif) - replay files go to
//! `$VERIF_DIR/replays/`; `HSIM_RUNS` overrides the number of cases of a batch
//! (for sensitivity experiments).
//!
//! Process model: the single-threaded parent forks `--jobs` single-threaded
//! workers; worker k runs case indices k, k+jobs, ... Every case is a pure
//! function of (part, tier, case seed) - the case seed is derived from
//! (--seed, part, case index), never from the worker - so a batch gives the
//! same counts for any `--jobs`. C13d cases additionally run in a forked
//! child each (see c13.rs for why).

mod c02;
mod c13;
mod c15;
mod c19;
mod c19u;
mod case;
mod rng;
mod tape;

use case::{CaseOut, Counts, Ctx, Tier};
use serde_json::{Value, json};
use std::any::Any;
use std::cell::RefCell;
use std::collections::BTreeMap;
use std::io::{Read, Write};
use std::os::fd::{FromRawFd, RawFd};
use std::panic::{AssertUnwindSafe, catch_unwind};
use std::time::{Duration, Instant};
use tape::Tape;

#[derive(Clone, Copy, Debug, PartialEq, Eq)]
enum Part {
    C15d,
    C13d,
    C02d,
    C19p,
    C19u,
}

impl Part {
    fn parse(s: &str) -> Option<Part> {
        match s {
            "C15d" => Some(Part::C15d),
            "C13d" => Some(Part::C13d),
            "C02d" => Some(Part::C02d),
            "C19p" => Some(Part::C19p),
            "C19u" => Some(Part::C19u),
            _ => None,
        }
    }
    fn name(&self) -> &'static str {
        match self {
            Part::C15d => "C15d",
            Part::C13d => "C13d",
            Part::C02d => "C02d",
            Part::C19p => "C19p",
            Part::C19u => "C19u",
        }
    }
    fn property(&self) -> &'static str {
        match self {
            Part::C15d => "C15",
            Part::C13d => "C13",
            Part::C02d => "C02",
            Part::C19p => "C19",
            Part::C19u => "C19",
        }
    }
    fn prefix(&self) -> &'static str {
        match self {
            Part::C15d => "c15",
            Part::C13d => "c13",
            Part::C02d => "c02",
            Part::C19p => "c19",
            Part::C19u => "c19",
        }
    }
    fn forked_cases(&self) -> bool {
        matches!(self, Part::C13d)
    }
    fn rule(&self) -> &'static str {
        match self {
            Part::C15d => {
                "distinct = distinct hashes of (configuration, every insert with range and replicas, every maintenance decision); non-trivial = at least 2 accepted inserts and (an insert that overlapped an existing tablet or a maintenance step)"
            }
            Part::C13d => {
                "distinct = distinct hashes of (interval, max count, script of (delay, outcome) per execution); non-trivial = at least 2 executions started, or the result is not the plain success of the first execution"
            }
            Part::C02d => {
                "distinct = distinct hashes of the operation sequence with its seeded picks; non-trivial = at least 4 operations including at least 2 allocations"
            }
            Part::C19p => {
                "distinct = distinct hashes of the step sequence (producer steps, consumer steps, injection sites); non-trivial = at least one id merged in and at least one receive attempt"
            }
            Part::C19u => {
                "distinct = distinct hashes of the operation sequence (full fetch / partial topology / hint / take); non-trivial = at least 2 merges, at least one of them into a value still pending"
            }
        }
    }
    /// (requested cases, wall budget of the batch)
    fn budget(&self, tier: Tier) -> (u64, Duration) {
        let (q, t) = match self {
            // Sized on a 16-core machine that other builds were loading at
            // the same time: quick 7..25 s, thorough 1..6 min per part.
            Part::C15d => (2_500_000, 4_000_000),
            Part::C13d => (400_000, 5_000_000),
            Part::C02d => (400_000, 3_500_000),
            Part::C19p => (24_000_000, 150_000_000),
            Part::C19u => (4_000_000, 40_000_000),
        };
        match tier {
            Tier::Quick => (q, Duration::from_secs(40)),
            Tier::Thorough => (t, Duration::from_secs(540)),
        }
    }
}

/// Cap on the number of history hashes kept for `distinct_nontrivial`.
const DISTINCT_CAP: usize = 48_000_000;

thread_local! {
    static LAST_PANIC_AT: RefCell<String> = const { RefCell::new(String::new()) };
}

pub fn panic_message(p: &Box<dyn Any + Send>) -> String {
    let s = if let Some(s) = p.downcast_ref::<&'static str>() {
        s.to_string()
    } else if let Some(s) = p.downcast_ref::<String>() {
        s.clone()
    } else {
        "panic with a non-string payload".to_string()
    };
    let at = LAST_PANIC_AT.with(|c| c.borrow().clone());
    if at.is_empty() { s } else { format!("{s} at {at}") }
}

fn install_panic_hook() {
    std::panic::set_hook(Box::new(|info| {
        let at = info
            .location()
            .map(|l| {
                let f = l.file();
                let short = f.rsplit("/scylla/src/").next().unwrap_or(f);
                format!("{}:{}", short, l.line())
            })
            .unwrap_or_default();
        LAST_PANIC_AT.with(|c| *c.borrow_mut() = at);
    }));
}

enum TapeSrc {
    Seed(u64),
    Replay(Vec<u64>),
}

impl TapeSrc {
    fn make(&self) -> Tape {
        match self {
            TapeSrc::Seed(s) => Tape::generate(*s),
            TapeSrc::Replay(v) => Tape::replay(v.clone()),
        }
    }
}

fn run_case_inproc(part: Part, src: &TapeSrc, tier: Tier, trace: bool, want_desc: bool) -> CaseOut {
    let mut ctx = Ctx::new(src.make(), tier, trace, want_desc);
    let r = catch_unwind(AssertUnwindSafe(|| match part {
        Part::C15d => c15::run(&mut ctx),
        Part::C13d => c13::run(&mut ctx),
        Part::C02d => c02::run(&mut ctx),
        Part::C19p => c19::run(&mut ctx),
        Part::C19u => c19u::run(&mut ctx),
    }));
    if let Err(p) = r {
        if ctx.out.status == "ok" {
            ctx.out.status = "crash".to_string();
            ctx.out.oracle = format!("{}.panic", part.prefix());
            ctx.out.msg = format!("the code under test panicked: {}", panic_message(&p));
            if trace {
                let l = format!("!! {} {}", ctx.out.oracle, ctx.out.msg);
                ctx.out.trace.push(l);
            }
        }
    }
    ctx.finish()
}

struct HarnessError(String);

fn read_all(fd: RawFd) -> Vec<u8> {
    let mut f = unsafe { std::fs::File::from_raw_fd(fd) };
    let mut buf = Vec::new();
    let _ = f.read_to_end(&mut buf);
    buf
}

fn write_all_fd(fd: RawFd, data: &[u8]) {
    let mut f = unsafe { std::fs::File::from_raw_fd(fd) };
    let _ = f.write_all(data);
    let _ = f.flush();
    // closed on drop
}

fn run_case_forked(
    part: Part,
    src: &TapeSrc,
    tier: Tier,
    trace: bool,
    want_desc: bool,
) -> Result<CaseOut, HarnessError> {
    let mut fds = [0 as libc::c_int; 2];
    if unsafe { libc::pipe(fds.as_mut_ptr()) } != 0 {
        return Err(HarnessError("pipe failed".into()));
    }
    let pid = unsafe { libc::fork() };
    if pid < 0 {
        return Err(HarnessError("fork failed".into()));
    }
    if pid == 0 {
        unsafe {
            libc::close(fds[0]);
            libc::alarm(30);
        }
        let out = run_case_inproc(part, src, tier, trace, want_desc);
        let s = out.to_json().to_string();
        write_all_fd(fds[1], s.as_bytes());
        unsafe { libc::_exit(0) };
    }
    unsafe { libc::close(fds[1]) };
    let data = read_all(fds[0]);
    let mut status: libc::c_int = 0;
    unsafe { libc::waitpid(pid, &mut status, 0) };
    if libc::WIFEXITED(status) && libc::WEXITSTATUS(status) == 0 {
        let v: Value = serde_json::from_slice(&data)
            .map_err(|e| HarnessError(format!("case child wrote unparsable output: {e}")))?;
        return CaseOut::from_json(&v)
            .ok_or_else(|| HarnessError("case child wrote an incomplete result".into()));
    }
    let mut out = CaseOut {
        fault_free: true,
        ..Default::default()
    };
    if libc::WIFSIGNALED(status) && libc::WTERMSIG(status) == libc::SIGALRM {
        out.status = "timeout".to_string();
        out.oracle = format!("{}.wall_timeout", part.prefix());
        out.msg = "the case did not finish within 30 s of wall time (busy loop?)".to_string();
    } else {
        out.status = "crash".to_string();
        out.oracle = format!("{}.abort", part.prefix());
        out.msg = format!("the case process died, wait status {status:#x}");
    }
    if let TapeSrc::Replay(v) = src {
        out.tape = v.clone();
    }
    Ok(out)
}

fn exec_case(
    part: Part,
    src: &TapeSrc,
    tier: Tier,
    trace: bool,
    want_desc: bool,
) -> Result<CaseOut, HarnessError> {
    if part.forked_cases() {
        let mut out = run_case_forked(part, src, tier, trace, want_desc)?;
        if out.tape.is_empty() {
            // A dead child could not report its tape: regenerate it is not
            // possible either, so keep the seed's tape empty (replay uses it).
            if let TapeSrc::Seed(_) = src {
                out.tape = Vec::new();
            }
        }
        Ok(out)
    } else {
        Ok(run_case_inproc(part, src, tier, trace, want_desc))
    }
}

fn case_seed(base_seed: u64, part: Part, idx: u64) -> u64 {
    rng::mix(&[base_seed, rng::tag(part.name()), idx])
}

// ---------------------------------------------------------------------------
// Aggregation
// ---------------------------------------------------------------------------

#[derive(Default)]
struct ClassAgg {
    count: u64,
    /// The lowest-index example: (run_index, status, oracle, msg, tape).
    first: Option<(u64, String, String, String, Vec<u64>)>,
}

#[derive(Default)]
struct Agg {
    runs: u64,
    by_status: Counts,
    virt_ns: u128,
    faults: Counts,
    probes: Counts,
    counters: Counts,
    nontrivial: u64,
    fault_free_runs: u64,
    samples: Vec<(u64, Value)>,
    budget_exhausted: bool,
    hashes: Vec<u64>,
    hash_cap: usize,
    classes: BTreeMap<String, ClassAgg>,
    harness_errors: Vec<String>,
}

fn add_counts(dst: &mut Counts, src: &Counts) {
    for (k, v) in src {
        *dst.entry(k.clone()).or_insert(0) += *v;
    }
}

impl Agg {
    fn add_case(&mut self, idx: u64, out: CaseOut) {
        self.runs += 1;
        *self.by_status.entry(out.status.clone()).or_insert(0) += 1;
        self.virt_ns += out.virt_ns;
        add_counts(&mut self.faults, &out.faults);
        add_counts(&mut self.probes, &out.probes);
        add_counts(&mut self.counters, &out.counters);
        if out.nontrivial {
            self.nontrivial += 1;
            if self.hashes.len() < self.hash_cap {
                self.hashes.push(out.hash);
            }
        }
        if out.fault_free {
            self.fault_free_runs += 1;
        }
        if let Some(d) = out.desc.clone() {
            self.samples.push((idx, d));
        }
        if out.status != "ok" {
            let c = self.classes.entry(out.class()).or_default();
            c.count += 1;
            let replace = match &c.first {
                None => true,
                Some((i, ..)) => idx < *i,
            };
            if replace {
                c.first = Some((idx, out.status, out.oracle, out.msg, out.tape));
            }
        }
    }

    fn to_json(&self) -> Value {
        let classes: BTreeMap<String, Value> = self
            .classes
            .iter()
            .map(|(k, c)| {
                let f = c.first.as_ref().unwrap();
                (
                    k.clone(),
                    json!({"count": c.count, "run_index": f.0, "status": f.1, "oracle": f.2, "msg": f.3, "tape": f.4}),
                )
            })
            .collect();
        json!({
            "runs": self.runs, "by_status": self.by_status, "virt_ns": self.virt_ns.to_string(),
            "faults": self.faults, "probes": self.probes, "counters": self.counters,
            "nontrivial": self.nontrivial, "fault_free_runs": self.fault_free_runs,
            "samples": self.samples.iter().map(|(i, d)| json!({"run_index": i, "case": d})).collect::<Vec<_>>(),
            "budget_exhausted": self.budget_exhausted,
            "classes": classes, "harness_errors": self.harness_errors,
        })
    }

    fn merge_json(&mut self, v: &Value) -> Option<()> {
        fn counts(v: &Value) -> Counts {
            v.as_object()
                .map(|o| {
                    o.iter()
                        .map(|(k, x)| (k.clone(), x.as_u64().unwrap_or(0)))
                        .collect()
                })
                .unwrap_or_default()
        }
        self.runs += v.get("runs")?.as_u64()?;
        add_counts(&mut self.by_status, &counts(v.get("by_status")?));
        self.virt_ns += v.get("virt_ns")?.as_str()?.parse::<u128>().ok()?;
        add_counts(&mut self.faults, &counts(v.get("faults")?));
        add_counts(&mut self.probes, &counts(v.get("probes")?));
        add_counts(&mut self.counters, &counts(v.get("counters")?));
        self.nontrivial += v.get("nontrivial")?.as_u64()?;
        self.fault_free_runs += v.get("fault_free_runs")?.as_u64()?;
        for s in v.get("samples")?.as_array()? {
            self.samples
                .push((s.get("run_index")?.as_u64()?, s.get("case")?.clone()));
        }
        self.budget_exhausted |= v.get("budget_exhausted")?.as_bool()?;
        for (k, c) in v.get("classes")?.as_object()? {
            let e = self.classes.entry(k.clone()).or_default();
            e.count += c.get("count")?.as_u64()?;
            let idx = c.get("run_index")?.as_u64()?;
            let replace = match &e.first {
                None => true,
                Some((i, ..)) => idx < *i,
            };
            if replace {
                e.first = Some((
                    idx,
                    c.get("status")?.as_str()?.to_string(),
                    c.get("oracle")?.as_str()?.to_string(),
                    c.get("msg")?.as_str()?.to_string(),
                    c.get("tape")?
                        .as_array()?
                        .iter()
                        .map(|x| x.as_u64().unwrap_or(0))
                        .collect(),
                ));
            }
        }
        for h in v.get("harness_errors")?.as_array()? {
            self.harness_errors.push(h.as_str()?.to_string());
        }
        Some(())
    }
}

fn worker(part: Part, tier: Tier, base_seed: u64, runs: u64, jobs: u64, k: u64, budget: Duration) -> Agg {
    let started = Instant::now();
    let mut agg = Agg {
        hash_cap: DISTINCT_CAP / jobs as usize,
        ..Default::default()
    };
    let mut idx = k;
    let mut since_check = 0u32;
    while idx < runs {
        since_check += 1;
        if since_check >= 64 {
            since_check = 0;
            if started.elapsed() > budget {
                agg.budget_exhausted = true;
                break;
            }
        }
        let src = TapeSrc::Seed(case_seed(base_seed, part, idx));
        match exec_case(part, &src, tier, false, idx < 3) {
            Ok(out) => agg.add_case(idx, out),
            Err(HarnessError(e)) => {
                if agg.harness_errors.len() < 8 {
                    agg.harness_errors.push(format!("case {idx}: {e}"));
                }
            }
        }
        idx += jobs;
    }
    agg
}

fn verif_dir() -> String {
    std::env::var("VERIF_DIR").unwrap_or_else(|_| "/verif".to_string())
}

fn cmd_run(args: &[String]) -> i32 {
    let mut part = None;
    let mut tier = Tier::Quick;
    let mut seed = 1u64;
    let mut jobs = 16u64;
    let mut out_path = None;
    let mut i = 0;
    while i < args.len() {
        let val = args.get(i + 1).cloned();
        match args[i].as_str() {
            "--property" => part = val.as_deref().and_then(Part::parse),
            "--tier" => match val.as_deref().and_then(Tier::parse) {
                Some(t) => tier = t,
                None => {
                    eprintln!("hsim: bad --tier");
                    return 2;
                }
            },
            "--seed" => match val.as_deref().and_then(|s| s.parse().ok()) {
                Some(s) => seed = s,
                None => {
                    eprintln!("hsim: bad --seed");
                    return 2;
                }
            },
            "--jobs" => match val.as_deref().and_then(|s| s.parse().ok()) {
                Some(j) if j >= 1 => jobs = j,
                _ => {
                    eprintln!("hsim: bad --jobs");
                    return 2;
                }
            },
            "--out" => out_path = val,
            other => {
                eprintln!("hsim: unknown argument {other}");
                return 2;
            }
        }
        i += 2;
    }
    let (Some(part), Some(out_path)) = (part, out_path) else {
        eprintln!("hsim: --property C15d|C13d|C02d|C19p|C19u and --out are required");
        return 2;
    };
    let t0 = Instant::now();
    let (mut runs, budget) = part.budget(tier);
    if let Some(r) = std::env::var("HSIM_RUNS").ok().and_then(|s| s.parse().ok()) {
        runs = r;
    }
    jobs = jobs.min(runs.max(1));

    // ---- fan out ----------------------------------------------------------
    let mut children: Vec<(libc::pid_t, RawFd)> = Vec::new();
    for k in 0..jobs {
        let mut fds = [0 as libc::c_int; 2];
        if unsafe { libc::pipe(fds.as_mut_ptr()) } != 0 {
            eprintln!("hsim: pipe failed");
            return 2;
        }
        let pid = unsafe { libc::fork() };
        if pid < 0 {
            eprintln!("hsim: fork failed");
            return 2;
        }
        if pid == 0 {
            unsafe { libc::close(fds[0]) };
            for (_, fd) in &children {
                unsafe { libc::close(*fd) };
            }
            let mut agg = worker(part, tier, seed, runs, jobs, k, budget);
            let js = agg.to_json().to_string();
            let mut data = Vec::with_capacity(js.len() + 16 + agg.hashes.len() * 8);
            data.extend_from_slice(&(js.len() as u64).to_le_bytes());
            data.extend_from_slice(js.as_bytes());
            agg.hashes.sort_unstable();
            agg.hashes.dedup();
            data.extend_from_slice(&(agg.hashes.len() as u64).to_le_bytes());
            for h in &agg.hashes {
                data.extend_from_slice(&h.to_le_bytes());
            }
            write_all_fd(fds[1], &data);
            unsafe { libc::_exit(0) };
        }
        unsafe { libc::close(fds[1]) };
        children.push((pid, fds[0]));
    }
    let mut agg = Agg::default();
    let mut harness_errors = 0u64;
    for (k, (pid, fd)) in children.into_iter().enumerate() {
        let data = read_all(fd);
        let mut status: libc::c_int = 0;
        unsafe { libc::waitpid(pid, &mut status, 0) };
        let parsed = (|| -> Option<()> {
            if data.len() < 8 {
                return None;
            }
            let n = u64::from_le_bytes(data[0..8].try_into().ok()?) as usize;
            let js = data.get(8..8 + n)?;
            let v: Value = serde_json::from_slice(js).ok()?;
            agg.merge_json(&v)?;
            let rest = data.get(8 + n..)?;
            let nh = u64::from_le_bytes(rest.get(0..8)?.try_into().ok()?) as usize;
            let hs = rest.get(8..8 + nh * 8)?;
            for c in hs.chunks_exact(8) {
                agg.hashes.push(u64::from_le_bytes(c.try_into().ok()?));
            }
            Some(())
        })();
        if parsed.is_none() || !(libc::WIFEXITED(status) && libc::WEXITSTATUS(status) == 0) {
            eprintln!("hsim: HARNESS-ERROR worker {k} died or wrote unusable output (wait status {status:#x})");
            harness_errors += 1;
        }
    }
    harness_errors += agg.harness_errors.len() as u64;
    for e in &agg.harness_errors {
        eprintln!("hsim: HARNESS-ERROR {e}");
    }
    agg.hashes.sort_unstable();
    agg.hashes.dedup();
    let distinct = agg.hashes.len();
    agg.samples.sort_by_key(|(i, _)| *i);
    agg.samples.truncate(3);
    let batch_wall = t0.elapsed().as_secs_f64();

    // ---- violations: minimise, write replay files, verify in a fresh process
    let replay_dir = format!("{}/replays", verif_dir());
    let _ = std::fs::create_dir_all(&replay_dir);
    let mut violations = Vec::new();
    let mut bad_runs = 0u64;
    for (class, c) in &agg.classes {
        bad_runs += c.count;
        let (run_index, status, oracle, first_msg, tape) = c.first.clone().unwrap();
        let min_started = Instant::now();
        let mut errors = 0u64;
        // A case child that died could not report its tape: replay from the seed.
        let from_seed = tape.is_empty() && part.forked_cases() && status != "violation";
        let (best, tries, reproduced_inproc) = if from_seed {
            (Vec::new(), 0, true)
        } else {
            tape::minimise(tape.clone(), 3000, |cand| {
            if min_started.elapsed() > Duration::from_secs(20) {
                return None;
            }
            match exec_case(part, &TapeSrc::Replay(cand.to_vec()), tier, false, false) {
                Ok(out) if out.class() == *class => Some(out.tape),
                Ok(_) => None,
                Err(_) => {
                    errors += 1;
                    None
                }
            }
            })
        };
        harness_errors += errors;
        // Final traced run of the minimised tape.
        let fin_src = if from_seed {
            TapeSrc::Seed(case_seed(seed, part, run_index))
        } else {
            TapeSrc::Replay(best.clone())
        };
        let fin = exec_case(part, &fin_src, tier, true, true);
        let (msg, history, desc) = match &fin {
            Ok(o) if o.class() == *class => {
                // Keep the replay file readable: `hsim replay --trace` prints
                // the full step log.
                let mut h = o.trace.clone();
                if h.len() > 200 {
                    let tail = h.split_off(h.len() - 100);
                    h.truncate(60);
                    h.push(format!("... ({} lines omitted) ...", o.trace.len() - 160));
                    h.extend(tail);
                }
                (o.msg.clone(), h, o.desc.clone())
            }
            _ => (first_msg.clone(), Vec::new(), None),
        };
        let path = format!(
            "{}/{}-{}-{}-{}.json",
            replay_dir,
            part.property(),
            part.name(),
            seed,
            run_index
        );
        let replay = json!({
            "engine": "hsim", "property": part.property(), "part": part.name(),
            "tier": tier.as_str(), "base_seed": seed, "run_index": run_index,
            "case_seed": case_seed(seed, part, run_index).to_string(),
            "expected": {"status": status, "oracle": oracle, "msg": msg},
            "tape": best, "tape_from_seed": from_seed, "original_tape_len": tape.len(), "minimise_tries": tries,
            "history": history, "case": desc,
        });
        let mut reproduced = false;
        match std::fs::write(&path, serde_json::to_string_pretty(&replay).unwrap()) {
            Ok(()) => {
                if let Ok(exe) = std::env::current_exe() {
                    if let Ok(st) = std::process::Command::new(exe)
                        .arg("replay")
                        .arg(&path)
                        .stdout(std::process::Stdio::null())
                        .status()
                    {
                        reproduced = st.code() == Some(1);
                    }
                }
            }
            Err(e) => {
                eprintln!("hsim: HARNESS-ERROR cannot write {path}: {e}");
                harness_errors += 1;
            }
        }
        violations.push(json!({
            "class": class, "oracle": oracle, "status": status,
            "msg": msg, "first_msg": first_msg, "run_index": run_index,
            "replay": path, "reproduced_on_replay": reproduced && reproduced_inproc,
            "runs_in_class": c.count,
        }));
    }

    let result = json!({
        "property": part.name(), "tier": tier.as_str(), "seed": seed, "jobs": jobs,
        "runs_requested": runs,
        "agg": {
            "runs": agg.runs, "by_status": agg.by_status, "virt_ns": agg.virt_ns.to_string(),
            "faults": agg.faults, "probes": agg.probes, "counters": agg.counters,
            "nontrivial": agg.nontrivial, "fault_free_runs": agg.fault_free_runs,
            "samples": agg.samples.iter().map(|(i, d)| json!({"run_index": i, "case": d})).collect::<Vec<_>>(),
            "budget_exhausted": agg.budget_exhausted,
        },
        "distinct_nontrivial": distinct,
        "rule": format!("{} (the hash set is capped at {} entries, split evenly over the workers)", part.rule(), DISTINCT_CAP),
        "violations": violations,
        "bad_runs": bad_runs, "harness_errors": harness_errors,
        "batch_wall_s": (batch_wall * 100.0).round() / 100.0,
        "wall_s": (t0.elapsed().as_secs_f64() * 100.0).round() / 100.0,
    });
    if let Err(e) = std::fs::write(&out_path, serde_json::to_string_pretty(&result).unwrap()) {
        eprintln!("hsim: HARNESS-ERROR cannot write {out_path}: {e}");
        return 2;
    }
    eprintln!(
        "hsim {} {}: {} cases, {} non-trivial ({} distinct), {} bad, {:.1}s{}",
        part.name(),
        tier.as_str(),
        agg.runs,
        agg.nontrivial,
        distinct,
        bad_runs,
        t0.elapsed().as_secs_f64(),
        if agg.budget_exhausted { " (budget exhausted)" } else { "" }
    );
    if harness_errors > 0 {
        2
    } else if bad_runs > 0 {
        1
    } else {
        0
    }
}

fn cmd_replay(args: &[String]) -> i32 {
    let Some(path) = args.first() else {
        eprintln!("hsim: replay <file> [--trace]");
        return 2;
    };
    let trace = args.iter().any(|a| a == "--trace");
    let v: Value = match std::fs::read(path).ok().and_then(|b| serde_json::from_slice(&b).ok()) {
        Some(v) => v,
        None => {
            eprintln!("hsim: HARNESS-ERROR cannot read replay file {path}");
            return 2;
        }
    };
    let parsed = (|| {
        let part = Part::parse(v.get("part")?.as_str()?)?;
        let tier = Tier::parse(v.get("tier")?.as_str()?)?;
        let tape: Vec<u64> = v
            .get("tape")?
            .as_array()?
            .iter()
            .map(|x| x.as_u64().unwrap_or(0))
            .collect();
        let exp = v.get("expected")?;
        let src = if v.get("tape_from_seed").and_then(|x| x.as_bool()) == Some(true) {
            TapeSrc::Seed(v.get("case_seed")?.as_str()?.parse().ok()?)
        } else {
            TapeSrc::Replay(tape)
        };
        Some((
            part,
            tier,
            src,
            exp.get("status")?.as_str()?.to_string(),
            exp.get("oracle")?.as_str()?.to_string(),
        ))
    })();
    let Some((part, tier, src, exp_status, exp_oracle)) = parsed else {
        eprintln!("hsim: HARNESS-ERROR {path} is not an hsim replay file");
        return 2;
    };
    let out = match exec_case(part, &src, tier, true, true) {
        Ok(o) => o,
        Err(HarnessError(e)) => {
            eprintln!("hsim: HARNESS-ERROR {e}");
            return 2;
        }
    };
    if trace {
        for l in &out.trace {
            println!("{l}");
        }
    }
    if out.status == exp_status && out.oracle == exp_oracle {
        println!("  oracle={} msg={}", out.oracle, out.msg);
        println!("VIOLATION property={} replay={}", part.property(), path);
        1
    } else if out.status == "ok" {
        println!(
            "replay of {path}: the recorded {exp_status} ({exp_oracle}) did not reproduce; the case ran clean"
        );
        0
    } else {
        println!(
            "replay of {path}: the recorded {exp_status} ({exp_oracle}) did not reproduce; instead: {} {} {}",
            out.status, out.oracle, out.msg
        );
        0
    }
}

fn main() {
    install_panic_hook();
    scylla::verif::set_sched_point(Some(c19::sched_point_callback));
    let args: Vec<String> = std::env::args().skip(1).collect();
    let code = match args.first().map(|s| s.as_str()) {
        Some("run") => cmd_run(&args[1..]),
        Some("replay") => cmd_replay(&args[1..]),
        _ => {
            eprintln!(
                "usage: hsim run --property C15d|C13d|C02d|C19p|C19u --tier quick|thorough --seed N --jobs N --out FILE\n       hsim replay FILE [--trace]"
            );
            2
        }
    };
    std::process::exit(code);
}
