fn main() {}
