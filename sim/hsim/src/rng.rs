//! Seeded PRNGs and hashes. No dependency on `rand`, no OS entropy.

#[derive(Clone, Debug)]
pub struct SplitMix64(pub u64);

impl SplitMix64 {
    pub fn next(&mut self) -> u64 {
        self.0 = self.0.wrapping_add(0x9E37_79B9_7F4A_7C15);
        let mut z = self.0;
        z = (z ^ (z >> 30)).wrapping_mul(0xBF58_476D_1CE4_E5B9);
        z = (z ^ (z >> 27)).wrapping_mul(0x94D0_49BB_1331_11EB);
        z ^ (z >> 31)
    }
}

/// xoshiro256** seeded through SplitMix64.
#[derive(Clone, Debug)]
pub struct Rng {
    s: [u64; 4],
}

impl Rng {
    pub fn new(seed: u64) -> Self {
        let mut sm = SplitMix64(seed);
        Rng {
            s: [sm.next(), sm.next(), sm.next(), sm.next()],
        }
    }

    pub fn next_u64(&mut self) -> u64 {
        let result = self.s[1].wrapping_mul(5).rotate_left(7).wrapping_mul(9);
        let t = self.s[1] << 17;
        self.s[2] ^= self.s[0];
        self.s[3] ^= self.s[1];
        self.s[1] ^= self.s[2];
        self.s[0] ^= self.s[3];
        self.s[2] ^= t;
        self.s[3] = self.s[3].rotate_left(45);
        result
    }

    /// Uniform in `0..n` (n > 0; n == 0 means the full 64-bit range).
    pub fn below(&mut self, n: u64) -> u64 {
        if n == 0 {
            return self.next_u64();
        }
        ((self.next_u64() as u128 * n as u128) >> 64) as u64
    }
}

/// Mixes several integers into one seed (order-sensitive).
pub fn mix(parts: &[u64]) -> u64 {
    let mut h: u64 = 0x243F_6A88_85A3_08D3;
    for p in parts {
        h ^= *p;
        h = SplitMix64(h).next();
    }
    h
}

/// FNV-1a folding used for history hashes.
#[derive(Clone, Copy, Debug)]
pub struct Fnv(pub u64);

impl Default for Fnv {
    fn default() -> Self {
        Fnv(0xcbf2_9ce4_8422_2325)
    }
}

impl Fnv {
    pub fn bytes(&mut self, b: &[u8]) {
        for x in b {
            self.0 ^= *x as u64;
            self.0 = self.0.wrapping_mul(0x0000_0100_0000_01B3);
        }
    }
    pub fn u64(&mut self, v: u64) {
        self.bytes(&v.to_le_bytes());
    }
    pub fn i64(&mut self, v: i64) {
        self.bytes(&v.to_le_bytes());
    }
    pub fn str(&mut self, s: &str) {
        self.bytes(s.as_bytes());
        self.bytes(&[0xff]);
    }
    /// Final avalanche so that the low bits are usable.
    pub fn finish(&self) -> u64 {
        SplitMix64(self.0).next()
    }
}

pub fn tag(s: &str) -> u64 {
    let mut f = Fnv::default();
    f.str(s);
    f.finish()
}
