//! The choice tape: every decision of a history driver goes through `choose`.
//!
//! Generation mode: values come from a PRNG seeded by the case seed and are
//! recorded. Replay mode: values are read back (clamped to the site's range)
//! and the tape is zero-extended when exhausted (a history ends at the first
//! step boundary after that). Choice sites are designed so
//! that 0 is the boring choice, which is what makes delete/zero/halve
//! shrinking converge on short, plain histories.

use crate::rng::Rng;

pub struct Tape {
    rng: Option<Rng>,
    replay: Vec<u64>,
    pub recorded: Vec<u64>,
    pos: usize,
    /// Number of choices taken past the end of a replay tape.
    pub overrun: usize,
}

impl Tape {
    pub fn generate(seed: u64) -> Self {
        Tape {
            rng: Some(Rng::new(seed)),
            replay: Vec::new(),
            recorded: Vec::new(),
            pos: 0,
            overrun: 0,
        }
    }

    pub fn replay(values: Vec<u64>) -> Self {
        Tape {
            rng: None,
            replay: values,
            recorded: Vec::new(),
            pos: 0,
            overrun: 0,
        }
    }

    /// Replay mode only: every recorded choice has been consumed. The step
    /// loops of the drivers end the history here, so that the shrinker can
    /// drop a whole step by deleting its block of choices (the chosen step
    /// count is only an upper bound on replay).
    pub fn exhausted(&self) -> bool {
        self.rng.is_none() && self.pos >= self.replay.len()
    }

    /// A value in `0..n`. `_site` documents the decision; it is not recorded.
    pub fn choose(&mut self, _site: &'static str, n: u64) -> u64 {
        if n <= 1 {
            return 0;
        }
        let v = if let Some(rng) = self.rng.as_mut() {
            rng.below(n)
        } else if self.pos < self.replay.len() {
            let raw = self.replay[self.pos];
            if raw >= n { n - 1 } else { raw }
        } else {
            self.overrun += 1;
            0
        };
        self.pos += 1;
        self.recorded.push(v);
        v
    }

    /// A full 64-bit value (boring outcome 0).
    pub fn bits64(&mut self, _site: &'static str) -> u64 {
        let v = if let Some(rng) = self.rng.as_mut() {
            rng.next_u64()
        } else if self.pos < self.replay.len() {
            self.replay[self.pos]
        } else {
            self.overrun += 1;
            0
        };
        self.pos += 1;
        self.recorded.push(v);
        v
    }

    /// True with probability `num/den`; the boring (0) outcome is `false`.
    pub fn chance(&mut self, site: &'static str, num: u64, den: u64) -> bool {
        if num == 0 {
            return false;
        }
        let v = self.choose(site, den);
        v >= den - num.min(den)
    }

    /// Picks an index with the given weights; index 0 is the boring outcome
    /// and owns tape value 0.
    pub fn weighted(&mut self, site: &'static str, weights: &[u64]) -> usize {
        let total: u64 = weights.iter().sum();
        if total == 0 {
            return 0;
        }
        let mut v = self.choose(site, total);
        for (i, w) in weights.iter().enumerate() {
            if v < *w {
                return i;
            }
            v -= *w;
        }
        weights.len() - 1
    }
}

/// Shrinks `start` while `try_tape` keeps reproducing (returns `Some(consumed
/// tape)`): halving truncation, zeroing blocks, deleting blocks, halving
/// single values (same passes as dsim's `minimise`). Returns the best tape and
/// the number of attempts used.
pub fn minimise(
    start: Vec<u64>,
    budget: usize,
    mut try_tape: impl FnMut(&[u64]) -> Option<Vec<u64>>,
) -> (Vec<u64>, usize, bool) {
    let mut used = 0usize;
    let mut best = start;
    used += 1;
    match try_tape(&best) {
        Some(consumed) => {
            if consumed.len() <= best.len() {
                best = consumed;
            }
        }
        None => return (best, used, false),
    }
    let mut progress = true;
    while progress && used < budget {
        progress = false;
        // Pass 1: truncate the tail (halving).
        let mut keep = best.len() / 2;
        while keep < best.len() && used < budget {
            let cand: Vec<u64> = best[..keep].to_vec();
            used += 1;
            if try_tape(&cand).is_some() {
                best = cand;
                progress = true;
                keep = best.len() / 2;
            } else {
                keep += (best.len() - keep).div_ceil(2);
                if keep >= best.len() {
                    break;
                }
            }
        }
        // Pass 2: zero blocks, then delete blocks, with shrinking block size.
        let mut block = (best.len() / 4).max(1);
        while block >= 1 && used < budget {
            let mut i = 0;
            while i < best.len() && used < budget {
                let end = (i + block).min(best.len());
                if best[i..end].iter().any(|v| *v != 0) {
                    let mut cand = best.clone();
                    for v in &mut cand[i..end] {
                        *v = 0;
                    }
                    used += 1;
                    if try_tape(&cand).is_some() {
                        best = cand;
                        progress = true;
                    }
                }
                i = end;
            }
            let mut i = 0;
            while i < best.len() && used < budget && block < best.len() {
                let end = (i + block).min(best.len());
                let mut cand = best[..i].to_vec();
                cand.extend_from_slice(&best[end..]);
                used += 1;
                if try_tape(&cand).is_some() {
                    best = cand;
                    progress = true;
                } else {
                    i = end;
                }
            }
            if block == 1 {
                break;
            }
            block /= 2;
        }
        // Pass 2b: delete short blocks at every offset (a step of a history
        // is a handful of consecutive choices at an arbitrary offset).
        for size in (2..=8usize).rev() {
            let mut i = 0;
            while i + size <= best.len() && used < budget {
                let mut cand = best[..i].to_vec();
                cand.extend_from_slice(&best[i + size..]);
                used += 1;
                if try_tape(&cand).is_some() {
                    best = cand;
                    progress = true;
                } else {
                    i += 1;
                }
            }
        }
        // Pass 3: lower individual values.
        let mut i = 0;
        while i < best.len() && used < budget {
            if best[i] > 0 {
                let mut cand = best.clone();
                cand[i] = if best[i] > 1 { best[i] / 2 } else { 0 };
                used += 1;
                if try_tape(&cand).is_some() {
                    best = cand;
                    progress = true;
                    continue;
                }
                if best[i] > 2 {
                    let mut cand = best.clone();
                    cand[i] -= 1;
                    used += 1;
                    if try_tape(&cand).is_some() {
                        best = cand;
                        progress = true;
                        continue;
                    }
                }
            }
            i += 1;
        }
    }
    (best, used, true)
}
