//! C18: `MonotonicTimestampGenerator` (real code) under thread schedules and
//! a misbehaving wall clock.
//!
//! Workload (all choices from `shuttle::rand`, so the schedule determines the
//! whole execution): 2..=4 shuttle threads x 2..=6 calls of `next_timestamp`
//! on ONE generator. `compute_next` reads `scylla::verif::SimSystemTime`,
//! i.e. `clock()` below, which is a scheduling point sitting between the
//! `load` and the `compare_exchange` of the retry loop.
//!
//! Oracles (property statement: "pairwise distinct and, along every thread's
//! own sequence of calls, strictly increasing - also when the system clock
//! stalls, repeats a microsecond or steps backwards"):
//!   c18.duplicate     two handed-out values are equal
//!   c18.thread_order  a thread's own sequence is not strictly increasing

use crate::sched::{log, report, rnd, switch_point, with_rec};
use crate::stats::{CaseOut, case_done};
use scylla::policies::timestamp_generator::{MonotonicTimestampGenerator, TimestampGenerator};
use serde_json::json;
use std::cell::RefCell;
use std::sync::Arc;
use std::time::{Duration, SystemTime, UNIX_EPOCH};

#[derive(Default)]
struct Clock {
    /// first reading of the walk; events are logged relative to it so that the
    /// history hash does not depend on the (irrelevant) absolute start
    base: i64,
    /// current reading of the walk, microseconds since the epoch
    cur: i64,
    /// previous distinct reading (target of "repeat a microsecond")
    prev: i64,
    reads: u64,
    /// well-behaved clock (every reading 1..=3 us after the previous one)
    sane: bool,
    stall: u64,
    repeat: u64,
    step_back: u64,
    step_forward: u64,
    jump_forward: u64,
    pre_epoch: u64,
}

thread_local! {
    static CLOCK: RefCell<Clock> = RefCell::new(Clock::default());
}

/// The simulated wall clock. Equal readings are the common case (that is where
/// the CAS loop decides uniqueness).
fn clock() -> SystemTime {
    if !with_rec(|r| r.active) || std::thread::panicking() {
        return UNIX_EPOCH + Duration::from_secs(1_700_000_000);
    }
    // Between `last.load()` and `compare_exchange`: let any other thread run.
    switch_point();
    let sane = CLOCK.with(|c| c.borrow().sane);
    let r = if sane { 700 } else { rnd(1000) };
    let back = if (600..660).contains(&r) { 1 + rnd(3_000_000) as i64 } else { 0 };
    let fwd = if (660..960).contains(&r) {
        1 + rnd(3) as i64
    } else if (960..995).contains(&r) {
        1_000 + rnd(5_000_000) as i64
    } else {
        0
    };
    let (value, rel, kind) = CLOCK.with(|c| {
        let mut c = c.borrow_mut();
        c.reads += 1;
        let kind;
        if r < 520 {
            // stall: the same microsecond again
            c.stall += 1;
            kind = "clock:stall";
        } else if r < 600 {
            // repeat: the clock re-issues the microsecond it showed before the
            // current one (one tick back)
            let p = c.prev;
            c.prev = c.cur;
            c.cur = p;
            c.repeat += 1;
            kind = "clock:repeat";
        } else if r < 660 {
            c.prev = c.cur;
            c.cur -= back;
            c.step_back += 1;
            kind = "clock:step_back";
        } else if r < 960 {
            c.prev = c.cur;
            c.cur += fwd;
            c.step_forward += 1;
            kind = "clock:step_forward";
        } else if r < 995 {
            c.prev = c.cur;
            c.cur += fwd;
            c.jump_forward += 1;
            kind = "clock:jump_forward";
        } else {
            // a reading before the UNIX epoch; the walk itself is unchanged
            c.pre_epoch += 1;
            return (-1_000_000, 0, "clock:pre_epoch");
        }
        (c.cur, c.cur - c.base, kind)
    });
    log(kind, rel, 0);
    if value >= 0 {
        UNIX_EPOCH + Duration::from_micros(value as u64)
    } else {
        UNIX_EPOCH - Duration::from_micros((-value) as u64)
    }
}

pub fn install() {
    scylla::verif::set_wall_clock(Some(clock));
}

/// One execution. Runs as shuttle task 0.
pub fn case(want_sample: bool) {
    with_rec(|r| r.active = true);
    let nthreads = 2 + rnd(3) as usize;
    let calls: Vec<usize> = (0..nthreads).map(|_| 2 + rnd(5) as usize).collect();
    // 0: no warnings; 1: default warning configuration (1 s skew, at most one warning per
    // second of REAL time - the rate limiter never opens within a run); 2: warnings with
    // a seeded skew threshold and no rate limit, so that the warning branch itself runs
    // whenever the clock is far enough behind.
    let warn_mode = [0u64, 0, 0, 1, 2, 2][rnd(6) as usize];
    let with_warnings = warn_mode != 0;
    let warn_threshold_us = [0u64, 1, 1000, 1_000_000][rnd(4) as usize];
    // 1 run in 10 has a well-behaved clock (the fault-free baseline)
    let sane = rnd(10) == 0;
    let base = 1_700_000_000_000_000i64 + rnd(1_000_000) as i64;
    CLOCK.with(|c| {
        *c.borrow_mut() = Clock {
            base,
            sane,
            cur: base,
            prev: base - 1,
            ..Clock::default()
        }
    });
    // 1 case in 3: the generator is used (1..3 timestamps taken by this thread) BEFORE its
    // warning configuration is set through the builder-style methods - it stays the same
    // generator, so everything handed out afterwards lies above what it handed out before.
    let generator = MonotonicTimestampGenerator::new();
    let mut early: Vec<i64> = Vec::new();
    if warn_mode != 1 && rnd(3) == 0 {
        for i in 0..1 + rnd(3) as usize {
            log("c18:early_call", -1, i as i64);
            early.push(generator.next_timestamp());
        }
    }
    let generator = if warn_mode == 2 {
        generator.with_warning_times(std::time::Duration::from_micros(warn_threshold_us), std::time::Duration::ZERO)
    } else if with_warnings {
        // default thresholds: 1 s skew, at most one warning per second
        generator
    } else {
        generator.without_warnings()
    };
    let generator = Arc::new(generator);
    log("c18:config", nthreads as i64, with_warnings as i64 + 2 * sane as i64);

    let mut handles = Vec::new();
    for (t, n) in calls.iter().copied().enumerate() {
        let g = Arc::clone(&generator);
        handles.push(shuttle::thread::spawn(move || {
            let mut mine: Vec<i64> = Vec::with_capacity(n);
            for i in 0..n {
                log("c18:call_start", t as i64, i as i64);
                let v = g.next_timestamp();
                log("c18:call_end", t as i64, v - base);
                mine.push(v);
                // yield between calls
                switch_point();
            }
            mine
        }));
    }
    let mut per_thread: Vec<Vec<i64>> = Vec::new();
    let mut harness_ok = true;
    for h in handles {
        match h.join() {
            Ok(v) => per_thread.push(v),
            Err(_) => {
                harness_ok = false;
                per_thread.push(Vec::new());
            }
        }
    }
    with_rec(|r| r.active = false);
    if !harness_ok {
        report(
            "crash",
            "c18.panic",
            "a thread calling MonotonicTimestampGenerator::next_timestamp panicked".into(),
            String::new(),
        );
    }

    // ---- oracles ----
    // The calls made before the threads were started precede every thread's calls.
    if !early.is_empty() {
        for seq in per_thread.iter_mut() {
            let mut v = early.clone();
            v.append(seq);
            *seq = v;
        }
    }
    for (t, seq) in per_thread.iter().enumerate() {
        if let Some(i) = seq.windows(2).position(|w| w[0] >= w[1]) {
            report(
                "violation",
                "c18.thread_order",
                "MonotonicTimestampGenerator::next_timestamp: a thread's own sequence of timestamps is not strictly increasing".into(),
                format!(
                    "thread {t}: call {} returned {} and call {} returned {} (with_warnings={with_warnings}, {nthreads} threads)",
                    i,
                    seq[i],
                    i + 1,
                    seq[i + 1]
                ),
            );
            break;
        }
    }
    let mut all: Vec<(i64, usize, usize)> = Vec::new();
    for (t, seq) in per_thread.iter().enumerate() {
        // (the early calls are part of every thread's sequence: count them once)
        for (i, v) in seq.iter().enumerate().skip(if t == 0 { 0 } else { early.len() }) {
            all.push((*v, t, i));
        }
    }
    all.sort();
    if let Some(w) = all.windows(2).find(|w| w[0].0 == w[1].0) {
        let same_thread = w[0].1 == w[1].1;
        report(
            "violation",
            "c18.duplicate",
            "MonotonicTimestampGenerator::next_timestamp handed out the same timestamp twice from one generator".into(),
            format!(
                "value {} returned to thread {} call {} and to thread {} call {} ({}; with_warnings={with_warnings}, {nthreads} threads)",
                w[0].0,
                w[0].1,
                w[0].2,
                w[1].1,
                w[1].2,
                if same_thread { "same thread" } else { "different threads" }
            ),
        );
    }

    // ---- statistics of this case ----
    let total_calls: u64 = calls.iter().map(|c| *c as u64).sum();
    let mut out = CaseOut::default();
    CLOCK.with(|c| {
        let c = c.borrow();
        out.faults.push(("ClockStall", c.stall));
        out.faults.push(("ClockRepeatMicrosecond", c.repeat));
        out.faults.push(("ClockStepBack", c.step_back));
        out.faults.push(("ClockStepForward", c.step_forward));
        out.faults.push(("ClockJumpForward", c.jump_forward));
        out.faults.push(("ClockBeforeEpoch", c.pre_epoch));
        out.fault_fired = c.stall + c.repeat + c.step_back + c.pre_epoch > 0;
        // a clock that only ever advances by a few microseconds
        out.fault_free = !out.fault_fired && c.jump_forward == 0;
        out.probes.push(("cas_retry", c.reads.saturating_sub(total_calls)));
        out.probes.push(("run_with_cas_retry", (c.reads > total_calls) as u64));
        out.counters.push(("clock_reads", c.reads));
    });
    out.counters.push(("calls", total_calls));
    out.counters.push(("threads", nthreads as u64));
    out.counters.push(("runs_with_warnings_cfg", with_warnings as u64));
    // overlap: some thread produced an event while another one was inside
    // next_timestamp (between its call_start and call_end)
    let overlap = with_rec(|r| crate::sched::overlap(&r.events));
    out.counters.push(("runs_with_overlapping_calls", overlap as u64));
    out.interleaved = overlap;
    if want_sample {
        out.sample = Some(json!({
            "threads": nthreads, "calls_per_thread": calls, "with_warnings": with_warnings, "well_behaved_clock": sane,
            "clock_base_us": base,
            "values_minus_base": per_thread.iter().map(|s| s.iter().map(|v| v - base).collect::<Vec<_>>()).collect::<Vec<_>>(),
        }));
    }
    case_done(out);
}
