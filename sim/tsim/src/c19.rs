//! C19: the merge channel (real code, through `scylla::verif::verif_merge_channel`)
//! with the producer on shuttle task 0 and the consumer on shuttle task 1.
//!
//! Scheduling points: every `crate::verif::sched_point("mc:...")` inside the
//! channel (between the individual flag / slot / notify operations) plus one
//! between any two harness-level steps.
//!
//! Reference model (owned by the harness, updated inside the `modify` closure,
//! i.e. under the channel's own slot lock, so it is exact):
//!   live      ids merged in and not retracted, in order
//!   received  concatenation of all values the consumer got
//!
//! Oracles, each stated so that it cannot fire on a legal race:
//!   c19.lost_or_dup  `received` is always a prefix of `live` (exactly once, in
//!                    order; a retraction only ever removes ids that were still
//!                    in the slot); the slot seen by a merge closure is a
//!                    suffix of `live` disjoint from `received`; and if the
//!                    consumer received until `None`, `received == live`.
//!   c19.none_early   `recv` returned `None` although the harness had not even
//!                    begun dropping the sender, or while a value was still in
//!                    the slot (checked with `try_recv` right after the `None`;
//!                    the sender is gone by then, so the slot cannot change).
//!   c19.lost_wakeup  shuttle reports a deadlock. The harness never blocks on
//!                    anything that a correct channel does not eventually
//!                    signal: a blocking `recv` is only issued in runs in which
//!                    the producer drops the sender unconditionally.
//!   c19.send_error   `modify` returned `Ok` although the receiver's drop had
//!                    completed before `modify` was called, or `Err` although
//!                    the drop had not even begun when `modify` returned.
//!                    Anything in between is a legal race and not judged.

use crate::sched::{log, report, rnd, switch_point, with_rec};
use crate::stats::{CaseOut, case_done};
use scylla::verif::{VerifMergeReceiver, VerifMergeSender, verif_merge_channel};
use serde_json::json;
use std::cell::RefCell;

#[derive(Default)]
struct World {
    next_id: u32,
    live: Vec<u32>,
    received: Vec<u32>,
    values_received: u64,
    tx_drop_started: bool,
    tx_drop_done: bool,
    rx_drop_started: bool,
    rx_drop_done: bool,
    got_none: bool,
    /// ack mode: id of the last push; the consumer stops once it has it
    sentinel: Option<u32>,
    consumer_op: &'static str,
    // per-recv-op observations made by the sched-point callback
    op_enables: u32,
    op_recheck: bool,
    // faults that fired
    cancels: u64,
    retracts: u64,
    retracts_empty: u64,
    rx_dropped_early: u64,
    tx_dropped_rx_alive: u64,
    tx_dropped_consumer_parked: u64,
    tx_outlived_rx: u64,
    // probes
    woken_after_park: u64,
    recheck_reached: u64,
    recheck_found_value: u64,
    modify_err: u64,
    modify_race_unjudged: u64,
    try_recv_some: u64,
    cancel_poll_ready: u64,
    merged_into_pending: u64,
    // sample
    psteps: Vec<&'static str>,
    csteps: Vec<&'static str>,
}

thread_local! {
    static W: RefCell<World> = RefCell::new(World::default());
}

fn w<R>(f: impl FnOnce(&mut World) -> R) -> R {
    W.with(|x| f(&mut x.borrow_mut()))
}

/// H4 callback: a scheduling point at every "mc:" site.
fn sched_point(site: &'static str) {
    if !site.starts_with("mc:") || std::thread::panicking() || !with_rec(|r| r.active) {
        return;
    }
    log(site, 0, 0);
    match site {
        "mc:recv:after_enable" => w(|x| x.op_enables += 1),
        "mc:recv:after_sender_dropped_load" => w(|x| x.op_recheck = true),
        _ => {}
    }
    switch_point();
}

pub fn install() {
    scylla::verif::set_sched_point(Some(sched_point));
}

const LOST_OR_DUP: &str = "c19.lost_or_dup";

#[derive(Clone, Copy, PartialEq)]
enum PStep {
    Push,
    Noop,
    Retract,
}

fn do_modify(tx: &mut VerifMergeSender<Vec<u32>>, step: PStep) {
    let done_before = w(|x| x.rx_drop_done);
    let code = match step {
        PStep::Push => 0,
        PStep::Noop => 1,
        PStep::Retract => 2,
    };
    log("p:modify_start", code, done_before as i64);
    let res = tx.modify(|slot| {
        // Runs under the channel's slot lock: no scheduling point in here.
        let view: Vec<u32> = slot.clone().unwrap_or_default();
        let bad_view = w(|x| {
            let n = x.live.len();
            let suffix_ok = view.len() <= n && x.live[n - view.len()..] == view[..];
            let disjoint_ok = view.len() + x.received.len() <= n;
            if suffix_ok && disjoint_ok {
                None
            } else {
                Some(format!(
                    "merge closure saw slot {:?}; merged-and-not-retracted ids {:?}; received so far {:?}",
                    slot, x.live, x.received
                ))
            }
        });
        if let Some(d) = bad_view {
            report(
                "violation",
                LOST_OR_DUP,
                "merge_channel Sender::modify: the pending value handed to the merge closure is not the not-yet-received tail of what was merged in".into(),
                d,
            );
        }
        match step {
            PStep::Push => {
                let id = w(|x| {
                    x.next_id += 1;
                    let id = x.next_id;
                    x.live.push(id);
                    if !view.is_empty() {
                        x.merged_into_pending += 1;
                    }
                    id
                });
                slot.get_or_insert_default().push(id);
            }
            PStep::Noop => {}
            PStep::Retract => {
                let taken = slot.take();
                w(|x| match &taken {
                    Some(v) if !v.is_empty() => {
                        let keep = x.live.len().saturating_sub(v.len());
                        x.live.truncate(keep);
                        x.retracts += 1;
                    }
                    _ => x.retracts_empty += 1,
                });
            }
        }
    });
    let started_after = w(|x| x.rx_drop_started);
    log("p:modify_end", res.is_ok() as i64, started_after as i64);
    match res {
        Ok(()) if done_before => report(
            "violation",
            "c19.send_error",
            "merge_channel Sender::modify returned Ok although the Receiver had been dropped before the call".into(),
            format!("step {code}: receiver drop completed before modify was called, modify returned Ok"),
        ),
        Err(()) if !started_after => report(
            "violation",
            "c19.send_error",
            "merge_channel Sender::modify returned Err although the Receiver is still alive".into(),
            format!("step {code}: receiver not dropped when modify returned Err"),
        ),
        Ok(()) => {
            if started_after {
                w(|x| x.modify_race_unjudged += 1);
            }
        }
        Err(()) => w(|x| {
            x.modify_err += 1;
            if !done_before {
                x.modify_race_unjudged += 1;
            }
        }),
    }
}

fn drop_sender(tx: VerifMergeSender<Vec<u32>>) {
    w(|x| {
        x.tx_drop_started = true;
        if !x.rx_drop_started {
            x.tx_dropped_rx_alive += 1;
        } else {
            x.tx_outlived_rx += 1;
        }
        if x.consumer_op == "recv" {
            x.tx_dropped_consumer_parked += 1;
        }
    });
    log("p:drop_start", 0, 0);
    drop(tx);
    w(|x| x.tx_drop_done = true);
    log("p:drop_end", 0, 0);
}

/// What `recv` (completed, or a cancelled attempt that turned out ready) gave.
/// Returns true if the consumer has to stop (got `None`).
fn on_recv_result(rx: &mut VerifMergeReceiver<Vec<u32>>, v: Option<Vec<u32>>) -> bool {
    match v {
        Some(ids) => {
            w(|x| {
                x.received.extend_from_slice(&ids);
                x.values_received += 1;
                if x.op_recheck {
                    x.recheck_found_value += 1;
                }
            });
            false
        }
        None => {
            let tx_drop_started = w(|x| {
                x.got_none = true;
                x.tx_drop_started
            });
            if !tx_drop_started {
                report(
                    "violation",
                    "c19.none_early",
                    "merge_channel Receiver::recv returned None although the Sender has not been dropped".into(),
                    w(|x| format!("merged ids {:?}, received {:?}", x.live, x.received)),
                );
            } else if let Some(left) = rx.try_recv() {
                // The sender is gone, nothing can enter the slot any more: this
                // value was pending when `recv` said "None".
                report(
                    "violation",
                    "c19.none_early",
                    "merge_channel Receiver::recv returned None while the last update was still pending in the slot".into(),
                    w(|x| format!("pending {:?} after None; merged ids {:?}, received before {:?}", left, x.live, x.received)),
                );
                w(|x| x.received.extend_from_slice(&left));
            }
            true
        }
    }
}

fn begin_recv_op(name: &'static str, what: &'static str) {
    w(|x| {
        x.consumer_op = name;
        x.op_enables = 0;
        x.op_recheck = false;
    });
    log(what, 0, 0);
}

fn end_recv_op(what: &'static str, a: i64) {
    w(|x| {
        x.consumer_op = "";
        if x.op_enables >= 2 {
            x.woken_after_park += 1;
        }
        if x.op_recheck {
            x.recheck_reached += 1;
        }
    });
    log(what, a, 0);
}

fn res_code(v: &Option<Vec<u32>>) -> i64 {
    match v {
        Some(ids) => ids.len() as i64,
        None => -1,
    }
}

#[derive(Clone, Copy, PartialEq)]
enum Mode {
    /// the producer drops the sender unconditionally after its steps; the
    /// consumer may block in `recv` and may drain until `None`
    SenderDrops,
    /// the sender outlives the receiver; the consumer never blocks
    Outlive,
    /// the producer's last push is a sentinel; the consumer may block, stops as
    /// soon as it has received the sentinel, and only then is the sender
    /// dropped: a pending value must wake the consumer without any help from
    /// `Drop for Sender`
    Ack,
}

fn sentinel_seen() -> bool {
    w(|x| x.sentinel.is_some_and(|s| x.received.contains(&s)))
}

fn consumer(rx: VerifMergeReceiver<Vec<u32>>, mode: Mode) {
    let mut rx = rx;
    let outlive_mode = mode == Mode::Outlive;
    let nsteps = 1 + rnd(7);
    let mut stop = false;
    for _ in 0..nsteps {
        if mode == Mode::Ack && sentinel_seen() {
            stop = true;
            break;
        }
        let r = rnd(100);
        let kind = if outlive_mode {
            if r < 55 { 1 } else { 2 }
        } else if r < 45 {
            0
        } else if r < 75 {
            1
        } else {
            2
        };
        match kind {
            0 => {
                w(|x| x.csteps.push("recv"));
                begin_recv_op("recv", "c:recv_start");
                let v = shuttle::future::block_on(rx.recv());
                end_recv_op("c:recv_end", res_code(&v));
                stop = on_recv_result(&mut rx, v);
            }
            1 => {
                // cancelled wait: poll once or twice, then drop the future
                let polls = 1 + rnd(2);
                w(|x| x.csteps.push("recv_cancel"));
                begin_recv_op("recv_cancel", "c:cancel_start");
                let got = shuttle::future::block_on(async {
                    let mut fut = std::pin::pin!(rx.recv());
                    for _ in 0..polls {
                        match futures::poll!(fut.as_mut()) {
                            std::task::Poll::Ready(v) => return Some(v),
                            std::task::Poll::Pending => {
                                log("c:cancel_pending", 0, 0);
                                switch_point();
                            }
                        }
                    }
                    None
                });
                match got {
                    Some(v) => {
                        w(|x| x.cancel_poll_ready += 1);
                        end_recv_op("c:cancel_end_ready", res_code(&v));
                        stop = on_recv_result(&mut rx, v);
                    }
                    None => {
                        w(|x| x.cancels += 1);
                        end_recv_op("c:cancel_end_dropped", 0);
                    }
                }
            }
            _ => {
                w(|x| x.csteps.push("try_recv"));
                begin_recv_op("try_recv", "c:try_start");
                let v = rx.try_recv();
                end_recv_op("c:try_end", res_code(&v));
                if let Some(ids) = v {
                    w(|x| {
                        x.received.extend_from_slice(&ids);
                        x.values_received += 1;
                        x.try_recv_some += 1;
                    });
                }
            }
        }
        if stop {
            break;
        }
        switch_point();
    }
    let drain = match mode {
        Mode::SenderDrops => !stop && rnd(100) < 60,
        Mode::Outlive => false,
        Mode::Ack => !stop,
    };
    if drain {
        w(|x| x.csteps.push(if mode == Mode::Ack { "recv_until_sentinel" } else { "drain_until_none" }));
        loop {
            if mode == Mode::Ack && sentinel_seen() {
                break;
            }
            begin_recv_op("recv", "c:recv_start");
            let v = shuttle::future::block_on(rx.recv());
            end_recv_op("c:recv_end", res_code(&v));
            if on_recv_result(&mut rx, v) {
                break;
            }
            switch_point();
        }
    }
    w(|x| {
        x.rx_drop_started = true;
        if !x.tx_drop_started {
            x.rx_dropped_early += 1;
        }
        x.csteps.push("drop");
    });
    log("c:drop_start", 0, 0);
    drop(rx);
    w(|x| x.rx_drop_done = true);
    log("c:drop_end", 0, 0);
}

/// Extra detail for a deadlock report (called from the panic path).
pub fn deadlock_detail() -> String {
    w(|x| {
        let pending: Vec<u32> = x.live.iter().skip(x.received.len()).copied().collect();
        format!(
            "consumer blocked in '{}' forever; sender drop started={} completed={}; ids merged and not yet received {:?}; received {:?}",
            x.consumer_op, x.tx_drop_started, x.tx_drop_done, pending, x.received
        )
    })
}

/// One execution. Runs as shuttle task 0 (the producer).
pub fn case(want_sample: bool) {
    with_rec(|r| r.active = true);
    W.with(|x| *x.borrow_mut() = World::default());
    let (tx, rx) = verif_merge_channel::<Vec<u32>>();
    let mut tx = tx;
    let mode = match rnd(4) {
        0 => Mode::Outlive,
        1 => Mode::Ack,
        _ => Mode::SenderDrops,
    };
    let outlive_mode = mode != Mode::SenderDrops;
    let nsteps = rnd(8);
    log("c19:config", mode as i64, nsteps as i64);
    let handle = shuttle::thread::spawn(move || consumer(rx, mode));
    // A decision point with both threads runnable in every execution (PCT
    // calibrates its step bound on the first, oldest-task-first execution).
    switch_point();
    for _ in 0..nsteps {
        let r = rnd(100);
        let step = if r < 64 {
            PStep::Push
        } else if r < 80 {
            PStep::Noop
        } else {
            PStep::Retract
        };
        w(|x| {
            x.psteps.push(match step {
                PStep::Push => "push",
                PStep::Noop => "noop",
                PStep::Retract => "retract",
            })
        });
        do_modify(&mut tx, step);
        switch_point();
    }
    let joined;
    if outlive_mode {
        if mode == Mode::Ack {
            w(|x| {
                x.sentinel = Some(x.next_id + 1);
                x.psteps.push("push_sentinel");
            });
            do_modify(&mut tx, PStep::Push);
        }
        joined = handle.join().is_ok();
        // the receiver is certainly gone now
        let extra = 1 + rnd(2);
        for _ in 0..extra {
            w(|x| x.psteps.push("push_after_consumer_gone"));
            do_modify(&mut tx, PStep::Push);
        }
        w(|x| x.psteps.push("drop"));
        drop_sender(tx);
    } else {
        w(|x| x.psteps.push("drop"));
        drop_sender(tx);
        joined = handle.join().is_ok();
    }
    with_rec(|r| r.active = false);
    if !joined {
        report(
            "crash",
            "c19.panic",
            "the consumer thread of the merge channel panicked".into(),
            String::new(),
        );
    }

    // ---- end-of-run history oracle ----
    let verdict = w(|x| {
        let n = x.received.len().min(x.live.len());
        if x.received.len() > x.live.len() || x.received[..n] != x.live[..n] {
            Some((
                "merge_channel: the values received are not, in order and exactly once, the updates that were merged in and not retracted",
                format!("received {:?} but merged-and-not-retracted ids are {:?}", x.received, x.live),
            ))
        } else if x.got_none && x.received.len() < x.live.len() {
            Some((
                "merge_channel: the consumer received until None but merged updates were never delivered",
                format!(
                    "received {:?}, never delivered {:?} (slot empty after None)",
                    x.received,
                    &x.live[x.received.len()..]
                ),
            ))
        } else {
            None
        }
    });
    if let Some((msg, detail)) = verdict {
        report("violation", LOST_OR_DUP, msg.into(), detail);
    }

    // ---- statistics ----
    let mut out = CaseOut::default();
    w(|x| {
        out.faults.push(("RecvCancelled", x.cancels));
        out.faults.push(("RetractPending", x.retracts));
        out.faults.push(("ReceiverDroppedBeforeSender", x.rx_dropped_early));
        out.faults.push(("SenderDroppedWhileConsumerInRecv", x.tx_dropped_consumer_parked));
        out.counters.push(("sender_dropped_while_receiver_alive", x.tx_dropped_rx_alive));
        out.counters.push(("sender_outlived_receiver", x.tx_outlived_rx));
        out.fault_fired = x.cancels + x.retracts + x.rx_dropped_early > 0;
        out.fault_free = !out.fault_fired && x.tx_dropped_consumer_parked == 0;
        out.probes.push(("recv_woken_after_park", x.woken_after_park));
        out.probes.push(("recv_recheck_after_sender_dropped", x.recheck_reached));
        out.probes.push(("recv_recheck_found_last_value", x.recheck_found_value));
        out.probes.push(("modify_err", x.modify_err));
        out.probes.push(("modify_raced_with_receiver_drop_unjudged", x.modify_race_unjudged));
        out.probes.push(("try_recv_some", x.try_recv_some));
        out.probes.push(("cancel_poll_was_ready", x.cancel_poll_ready));
        out.probes.push(("merged_into_pending_value", x.merged_into_pending));
        out.probes.push(("retract_on_empty_slot", x.retracts_empty));
        out.probes.push(("consumer_got_none", x.got_none as u64));
        out.counters.push(("ids_merged", x.next_id as u64));
        out.counters.push(("ids_received", x.received.len() as u64));
        out.counters.push(("values_received", x.values_received));
        out.counters.push(("complete_histories", (x.got_none) as u64));
        out.counters.push(("mode_sender_outlives_nonblocking_consumer_runs", (mode == Mode::Outlive) as u64));
        out.counters.push(("mode_ack_runs", (mode == Mode::Ack) as u64));
    });
    let overlap = with_rec(|r| crate::sched::overlap(&r.events));
    out.counters.push(("runs_with_overlapping_ops", overlap as u64));
    out.interleaved = overlap;
    if want_sample {
        out.sample = Some(w(|x| {
            json!({"producer": x.psteps, "consumer": x.csteps, "mode": match mode { Mode::SenderDrops => "sender_drops", Mode::Outlive => "sender_outlives_nonblocking_consumer", Mode::Ack => "ack_then_drop" },
                   "merged_not_retracted": x.live, "received": x.received, "got_none": x.got_none})
        }));
    }
    case_done(out);
}
