//! tsim - engine B: thread-schedule simulation of lock-free driver code with
//! the `shuttle` scheduler (seeded random + PCT), see ENGINE_CONTRACT.md.
//!
//!   tsim run --property C18|C19 --tier quick|thorough --seed N --jobs N --out FILE
//!            [--runs N] [--chunk N] [--budget-s N]
//!   tsim replay FILE [--trace]
//!
//! A "case" is one shuttle execution. The workload of a case is drawn from
//! `shuttle::rand`, so (schedule seed, schedule steps) determines it entirely;
//! that pair is what a replay file stores.
//!
//! Cases are grouped in chunks; chunk `c` is one shuttle `Runner` whose
//! scheduler (kind and seed) is a function of (--seed, part, c) only, so the
//! batch does not depend on --jobs. Worker `k` (a forked, single-threaded
//! process) runs the chunks `c % jobs == k`.

mod c18;
mod c19;
mod sched;
mod stats;

use sched::{Finding, Fnv, Recording, mix, with_rec};
use serde_json::{Value, json};
use shuttle::scheduler::{PctScheduler, RandomScheduler, ReplayScheduler, Scheduler};
use shuttle::{Config, FailurePersistence, MaxSteps, Runner};
use stats::{Agg, with_agg};
use std::collections::BTreeMap;
use std::io::{Read, Write};
use std::os::fd::FromRawFd;
use std::panic::{AssertUnwindSafe, catch_unwind};
use std::path::PathBuf;
use std::time::{Duration, Instant};

#[derive(Clone, Copy)]
struct Part {
    name: &'static str,
    property: &'static str,
    case: fn(bool),
    install: fn(),
    /// oracle a shuttle deadlock report is converted into (None: harness error)
    deadlock_oracle: Option<&'static str>,
    deadlock_detail: fn() -> String,
    nontrivial_rule: &'static str,
}

fn no_detail() -> String {
    String::new()
}

fn part_for(name: &str) -> Option<Part> {
    match name {
        "C18" => Some(Part {
            name: "C18",
            property: "C18",
            case: c18::case,
            install: c18::install,
            deadlock_oracle: None,
            deadlock_detail: no_detail,
            nontrivial_rule: "two threads were inside next_timestamp at the same time (an event of one thread between call_start and call_end of another), or a clock fault fired (stall, repeated microsecond, step back, pre-epoch reading)",
        }),
        "C19" => Some(Part {
            name: "C19",
            property: "C19",
            case: c19::case,
            install: c19::install,
            deadlock_oracle: Some("c19.lost_wakeup"),
            deadlock_detail: c19::deadlock_detail,
            nontrivial_rule: "a producer operation and a consumer operation overlapped (an event of one thread between op start and op end of the other), or a fault fired (recv cancelled, pending value retracted, receiver dropped before the sender)",
        }),
        _ => None,
    }
}

fn arg(args: &[String], name: &str) -> Option<String> {
    args.iter().position(|a| a == name).and_then(|i| args.get(i + 1).cloned())
}

fn flag(args: &[String], name: &str) -> bool {
    args.iter().any(|a| a == name)
}

fn verif_dir() -> PathBuf {
    std::env::var("VERIF_DIR").map(PathBuf::from).unwrap_or_else(|_| PathBuf::from("/verif"))
}

fn shuttle_config() -> Config {
    let mut c = Config::new();
    c.stack_size = 0x40000;
    c.failure_persistence = FailurePersistence::None;
    c.max_steps = MaxSteps::FailAfter(50_000);
    c.silence_warnings = true;
    c
}

/// Makes shuttle install its (process-global, once-only) panic hook now, then
/// replaces it by ours: we own the schedule recording, so shuttle's
/// persistence is not needed, and we need message + location of a panic to
/// tell the code under test from the harness.
fn init_panic_capture() {
    let r = catch_unwind(|| {
        Runner::new(RandomScheduler::new_from_seed(0, 1), shuttle_config()).run(|| {});
    });
    if r.is_err() {
        eprintln!("tsim: shuttle self-test failed");
        std::process::exit(2);
    }
    let verbose = std::env::var("TSIM_VERBOSE").is_ok();
    std::panic::set_hook(Box::new(move |info| {
        let msg = if let Some(s) = info.payload().downcast_ref::<&str>() {
            s.to_string()
        } else if let Some(s) = info.payload().downcast_ref::<String>() {
            s.clone()
        } else {
            "<non-string panic payload>".to_string()
        };
        let loc = info.location().map(|l| format!("{}:{}", l.file(), l.line())).unwrap_or_default();
        if verbose {
            eprintln!("tsim: panic at {loc}: {msg}");
        }
        // Keep the FIRST panic of an execution: later ones are consequences.
        sched::LAST_PANIC.with(|p| {
            let mut p = p.borrow_mut();
            if p.is_none() {
                *p = Some((msg, loc));
            }
        });
    }));
}

/// Turns a panic that escaped `Runner::run` into a finding.
fn classify_panic(part: &Part, payload: Box<dyn std::any::Any + Send>) -> Finding {
    let (mut msg, loc) = sched::LAST_PANIC.with(|p| p.borrow_mut().take()).unwrap_or_default();
    if msg.is_empty() {
        msg = if let Some(s) = payload.downcast_ref::<&str>() {
            s.to_string()
        } else if let Some(s) = payload.downcast_ref::<String>() {
            s.clone()
        } else {
            String::new()
        };
    }
    let lower = part.name.to_lowercase();
    if msg.starts_with("deadlock!") {
        return match part.deadlock_oracle {
            Some(o) => Finding {
                status: "violation",
                oracle: o.to_string(),
                msg: "merge_channel Receiver::recv: the consumer stays parked forever although a value is pending or the Sender is gone (shuttle deadlock report)".into(),
                detail: format!("{}; shuttle: {}", (part.deadlock_detail)(), msg),
            },
            None => Finding {
                status: "harness_error",
                oracle: format!("{lower}.harness"),
                msg: format!("unexpected deadlock: {msg}"),
                detail: String::new(),
            },
        };
    }
    if msg.starts_with("exceeded max_steps") {
        return Finding {
            status: "timeout",
            oracle: format!("{lower}.step_bound"),
            msg: "an execution did not terminate within the step bound (livelock under the explored schedule)".into(),
            detail: msg,
        };
    }
    let in_code_under_test = loc.contains("/scylla/src/") || loc.contains("/tokio-") || loc.contains("/tokio/");
    if in_code_under_test {
        return Finding {
            status: "crash",
            oracle: format!("{lower}.panic"),
            msg: format!("panic in the code under test at {}", loc.rsplit("/scylla/").next().unwrap_or(&loc)),
            detail: msg,
        };
    }
    Finding {
        status: "harness_error",
        oracle: format!("{lower}.harness"),
        msg: format!("harness panic at {loc}: {msg}"),
        detail: String::new(),
    }
}

/// Accounts for an execution that ended in a panic (no `case_done` happened).
fn record_panicked_case(f: Finding) {
    let (hash, seed, steps) = with_rec(|r| {
        r.active = false;
        r.findings.clear();
        (sched::history_hash(&r.events), r.seed, String::from_utf8_lossy(&r.steps).into_owned())
    });
    with_agg(|a| {
        a.runs += 1;
        a.bad_runs += 1;
        a.status(f.status);
        a.add_finding(f, seed, steps, hash);
        a.cur_iter += 1;
    });
}

fn scheduler_for(tier: &str, chunk: u64) -> (&'static str, usize) {
    if tier == "thorough" {
        match chunk % 4 {
            0 | 1 => ("random", 0),
            2 => ("pct2", 2),
            _ => ("pct3", 3),
        }
    } else {
        match chunk % 10 {
            0..=5 => ("random", 0),
            6 | 7 => ("pct2", 2),
            _ => ("pct3", 3),
        }
    }
}

fn fnv_str(s: &str) -> u64 {
    let mut h = Fnv::default();
    h.bytes(s.as_bytes());
    h.0
}

/// Upper bound on the number of history hashes kept over all workers.
const HASH_CAP_TOTAL: u64 = 16_000_000;

struct Plan {
    part: Part,
    tier: String,
    seed: u64,
    jobs: u64,
    chunks: u64,
    chunk_size: u64,
    budget: Duration,
}

/// Body of one worker process. Returns (json, hashes).
fn worker(plan: &Plan, k: u64, started: Instant) -> (Value, Vec<u64>) {
    (plan.part.install)();
    let hash_cap = (HASH_CAP_TOTAL / plan.jobs.max(1)) as usize;
    with_agg(|a| {
        *a = Agg::default();
        a.hash_cap = hash_cap;
        a.want_samples = if k == 0 { 3 } else { 0 };
    });
    let mut panics = 0u64;
    let mut skipped = 0u64;
    let mut budget_exhausted = false;
    let mut stopped_after_panics = false;
    let mut c = k;
    while c < plan.chunks {
        if started.elapsed() > plan.budget {
            budget_exhausted = true;
            break;
        }
        let (kind, depth) = scheduler_for(&plan.tier, c);
        let sseed = mix(&[plan.seed, fnv_str(plan.part.name), c]);
        let n = plan.chunk_size as usize;
        let inner: Box<dyn Scheduler + Send> = if depth == 0 {
            Box::new(RandomScheduler::new_from_seed(sseed, n))
        } else {
            Box::new(PctScheduler::new_from_seed(sseed, depth, n))
        };
        with_agg(|a| {
            a.cur_chunk = c;
            a.cur_base_index = c * plan.chunk_size;
            a.cur_iter = 0;
            a.cur_scheduler = kind.to_string();
        });
        let case = plan.part.case;
        let inject = c == 3 && std::env::var("TSIM_INJECT_HARNESS_PANIC").is_ok();
        let runner = Runner::new(Recording::new(inner), shuttle_config());
        let res = catch_unwind(AssertUnwindSafe(|| {
            runner.run(move || {
                if inject {
                    panic!("injected harness panic (self-test of the exit-code-2 path)");
                }
                case(stats::want_sample())
            })
        }));
        if let Err(payload) = res {
            panics += 1;
            let f = classify_panic(&plan.part, payload);
            record_panicked_case(f);
            // The Runner is gone with the panic; the rest of this chunk is
            // not re-run (recorded as skipped).
            skipped += plan.chunk_size - with_agg(|a| a.cur_iter);
            if panics >= 6 {
                stopped_after_panics = true;
                break;
            }
        }
        c += plan.jobs;
    }
    let (mut j, hashes) = with_agg(|a| (a.to_json(), a.hashes.iter().copied().collect::<Vec<u64>>()));
    j["panics"] = json!(panics);
    j["skipped_after_panic"] = json!(skipped);
    j["budget_exhausted"] = json!(budget_exhausted);
    j["stopped_after_panics"] = json!(stopped_after_panics);
    (j, hashes)
}

fn write_all_fd(fd: i32, mut data: &[u8]) {
    while !data.is_empty() {
        let n = unsafe { libc::write(fd, data.as_ptr() as *const libc::c_void, data.len()) };
        if n <= 0 {
            break;
        }
        data = &data[n as usize..];
    }
}

fn merge_map(into: &mut BTreeMap<String, u64>, v: &Value) {
    if let Some(o) = v.as_object() {
        for (k, x) in o {
            *into.entry(k.clone()).or_insert(0) += x.as_u64().unwrap_or(0);
        }
    }
}

fn cmd_run(args: &[String]) -> i32 {
    let Some(pname) = arg(args, "--property") else {
        eprintln!("--property required");
        return 2;
    };
    let Some(part) = part_for(&pname) else {
        eprintln!("tsim: unknown part {pname}");
        return 2;
    };
    let tier = arg(args, "--tier").unwrap_or_else(|| "quick".into());
    let seed: u64 = arg(args, "--seed").and_then(|s| s.parse().ok()).unwrap_or(1);
    let jobs: u64 = arg(args, "--jobs").and_then(|s| s.parse().ok()).unwrap_or(16).clamp(1, 256);
    let Some(out_path) = arg(args, "--out") else {
        eprintln!("--out required");
        return 2;
    };
    let (mut runs, default_chunk, mut budget_s): (u64, u64, u64) = if tier == "thorough" {
        (10_000_000, 5_000, 13 * 60)
    } else {
        (200_000, 1_000, 50)
    };
    if let Some(r) = arg(args, "--runs").and_then(|s| s.parse().ok()) {
        runs = r;
    }
    let chunk_size: u64 = arg(args, "--chunk").and_then(|s| s.parse().ok()).unwrap_or(default_chunk).max(2);
    if let Some(b) = arg(args, "--budget-s").and_then(|s| s.parse().ok()) {
        budget_s = b;
    }
    let chunks = runs.div_ceil(chunk_size).max(1);
    let plan = Plan {
        part,
        tier: tier.clone(),
        seed,
        jobs,
        chunks,
        chunk_size,
        budget: Duration::from_secs(budget_s),
    };
    let started = Instant::now();
    let verbose = std::env::var("TSIM_VERBOSE").is_ok();

    // ---- fan out ----
    let mut kids: Vec<(i32, i32)> = Vec::new();
    for k in 0..jobs {
        let mut fds = [0i32; 2];
        if unsafe { libc::pipe(fds.as_mut_ptr()) } != 0 {
            eprintln!("tsim: pipe failed");
            return 2;
        }
        let pid = unsafe { libc::fork() };
        if pid < 0 {
            eprintln!("tsim: fork failed");
            return 2;
        }
        if pid == 0 {
            unsafe { libc::close(fds[0]) };
            for (_, rfd) in &kids {
                unsafe { libc::close(*rfd) };
            }
            if !verbose {
                // shuttle prints on every failing execution; findings travel in
                // the worker's report instead
                let devnull = unsafe { libc::open(c"/dev/null".as_ptr(), libc::O_WRONLY) };
                if devnull >= 0 {
                    unsafe { libc::dup2(devnull, 2) };
                }
            }
            let r = catch_unwind(AssertUnwindSafe(|| worker(&plan, k, started)));
            let (j, hashes) = match r {
                Ok(x) => x,
                Err(_) => (json!({"worker_failed": "panic outside an execution"}), Vec::new()),
            };
            let text = serde_json::to_vec(&j).unwrap_or_else(|_| b"{}".to_vec());
            let mut buf: Vec<u8> = Vec::with_capacity(16 + text.len() + hashes.len() * 8);
            buf.extend_from_slice(&(text.len() as u64).to_le_bytes());
            buf.extend_from_slice(&text);
            buf.extend_from_slice(&(hashes.len() as u64).to_le_bytes());
            for h in &hashes {
                buf.extend_from_slice(&h.to_le_bytes());
            }
            write_all_fd(fds[1], &buf);
            unsafe { libc::_exit(0) };
        }
        unsafe { libc::close(fds[1]) };
        kids.push((pid, fds[0]));
    }

    // ---- collect ----
    let mut harness_errors: u64 = 0;
    let mut harness_msgs: Vec<String> = Vec::new();
    let mut runs_done = 0u64;
    let mut bad_runs = 0u64;
    let mut nontrivial = 0u64;
    let mut fault_free = 0u64;
    let mut by_status: BTreeMap<String, u64> = BTreeMap::new();
    let mut faults: BTreeMap<String, u64> = BTreeMap::new();
    let mut probes: BTreeMap<String, u64> = BTreeMap::new();
    let mut counters: BTreeMap<String, u64> = BTreeMap::new();
    let mut samples: Vec<Value> = Vec::new();
    let mut all_hashes: Vec<u64> = Vec::new();
    let mut cap_hit = false;
    let mut budget_exhausted = false;
    let mut classes: BTreeMap<String, (Value, u64)> = BTreeMap::new();
    for (pid, rfd) in kids {
        let mut data = Vec::new();
        {
            let mut f = unsafe { std::fs::File::from_raw_fd(rfd) };
            let _ = f.read_to_end(&mut data);
        }
        let mut status = 0;
        unsafe { libc::waitpid(pid, &mut status, 0) };
        let clean = libc::WIFEXITED(status) && libc::WEXITSTATUS(status) == 0;
        let parsed = (|| -> Option<(Value, Vec<u64>)> {
            let jl = u64::from_le_bytes(data.get(0..8)?.try_into().ok()?) as usize;
            let j: Value = serde_json::from_slice(data.get(8..8 + jl)?).ok()?;
            let off = 8 + jl;
            let n = u64::from_le_bytes(data.get(off..off + 8)?.try_into().ok()?) as usize;
            let raw = data.get(off + 8..off + 8 + n * 8)?;
            let hs = raw.chunks_exact(8).map(|c| u64::from_le_bytes(c.try_into().unwrap())).collect();
            Some((j, hs))
        })();
        let Some((j, hs)) = parsed.filter(|(j, _)| clean && j.get("worker_failed").is_none()) else {
            harness_errors += 1;
            harness_msgs.push(format!("worker pid {pid} ended with wait status {status} without a usable report"));
            continue;
        };
        runs_done += j["runs"].as_u64().unwrap_or(0);
        bad_runs += j["bad_runs"].as_u64().unwrap_or(0);
        nontrivial += j["nontrivial"].as_u64().unwrap_or(0);
        fault_free += j["fault_free_runs"].as_u64().unwrap_or(0);
        merge_map(&mut by_status, &j["by_status"]);
        merge_map(&mut faults, &j["faults"]);
        merge_map(&mut probes, &j["probes"]);
        merge_map(&mut counters, &j["counters"]);
        *counters.entry("executions_aborted_by_panic".into()).or_insert(0) += j["panics"].as_u64().unwrap_or(0);
        *counters.entry("runs_skipped_after_panic".into()).or_insert(0) += j["skipped_after_panic"].as_u64().unwrap_or(0);
        cap_hit |= j["hash_cap_hit"].as_bool().unwrap_or(false);
        budget_exhausted |= j["budget_exhausted"].as_bool().unwrap_or(false) || j["stopped_after_panics"].as_bool().unwrap_or(false);
        *counters.entry("workers_stopped_after_6_panics".into()).or_insert(0) += j["stopped_after_panics"].as_bool().unwrap_or(false) as u64;
        if let Some(s) = j["samples"].as_array() {
            samples.extend(s.iter().cloned());
        }
        all_hashes.extend(hs);
        if let Some(cl) = j["classes"].as_array() {
            for c in cl {
                let class = c["class"].as_str().unwrap_or("").to_string();
                let n = c["n"].as_u64().unwrap_or(0);
                let first = c["first"].clone();
                match classes.get_mut(&class) {
                    Some(e) => {
                        e.1 += n;
                        if first["run_index"].as_u64() < e.0["run_index"].as_u64() {
                            e.0 = first;
                        }
                    }
                    None => {
                        classes.insert(class, (first, n));
                    }
                }
            }
        }
    }

    // ---- one replay file per violation class, verified in a fresh process ----
    let replay_dir = verif_dir().join("replays");
    let _ = std::fs::create_dir_all(&replay_dir);
    let exe = std::env::current_exe().ok();
    let mut violations: Vec<Value> = Vec::new();
    for (class, (first, n)) in &classes {
        let status = first["status"].as_str().unwrap_or("");
        let oracle = first["oracle"].as_str().unwrap_or("");
        if status == "harness_error" {
            harness_errors += n;
            harness_msgs.push(format!("{} (run {})", first["msg"].as_str().unwrap_or(""), first["run_index"]));
            continue;
        }
        let run_index = first["run_index"].as_u64().unwrap_or(0);
        let what = oracle.rsplit('.').next().unwrap_or("x");
        let path = replay_dir.join(format!("{}-{}-{}-{}.json", part.name, seed, run_index, what));
        let replay = json!({
            "engine": "tsim",
            "property": part.property,
            "part": part.name,
            "tier": tier,
            "base_seed": seed,
            "run_index": run_index,
            "chunk": first["chunk"],
            "scheduler": first["scheduler"],
            "expected": {"status": status, "oracle": oracle, "msg": first["msg"], "detail": first["detail"], "history_hash": first["hash"]},
            "schedule": {"seed": first["sched_seed"], "steps": first["steps"],
                         "format": "one char per shuttle schedule step: base-36 task id = run that task, R = one draw from shuttle::rand"},
            "minimised": false,
        });
        let mut reproduced = false;
        if std::fs::write(&path, serde_json::to_string_pretty(&replay).unwrap()).is_ok() {
            if let Some(exe) = &exe {
                if let Ok(o) = std::process::Command::new(exe).arg("replay").arg(&path).stderr(std::process::Stdio::null()).output() {
                    let text = String::from_utf8_lossy(&o.stdout);
                    reproduced = o.status.code() == Some(1) && text.contains("same_class=true");
                }
            }
        } else {
            harness_errors += 1;
            harness_msgs.push(format!("cannot write {}", path.display()));
        }
        violations.push(json!({
            "class": class, "oracle": oracle, "status": status,
            "msg": first["msg"], "first_msg": format!("{} [{}]", first["msg"].as_str().unwrap_or(""), first["detail"].as_str().unwrap_or("")),
            "run_index": run_index, "scheduler": first["scheduler"],
            "replay": path.to_string_lossy(), "reproduced_on_replay": reproduced, "runs_in_class": n,
            "schedule_steps": first["steps"].as_str().map(|s| s.len()).unwrap_or(0),
        }));
    }
    all_hashes.sort_unstable();
    all_hashes.dedup();
    samples.sort_by_key(|s| s["run_index"].as_u64().unwrap_or(0));
    counters.insert("distinct_hash_set_cap".into(), HASH_CAP_TOTAL);
    counters.insert("distinct_hash_set_cap_hit".into(), cap_hit as u64);
    let wall = started.elapsed().as_secs_f64();
    let result = json!({
        "property": part.name, "tier": tier, "seed": seed, "jobs": jobs,
        "runs_requested": chunks * chunk_size,
        "agg": {
            "runs": runs_done, "by_status": by_status, "virt_ns": "0",
            "faults": faults, "probes": probes, "counters": counters,
            "nontrivial": nontrivial, "fault_free_runs": fault_free,
            "samples": samples, "budget_exhausted": budget_exhausted,
        },
        "distinct_nontrivial": all_hashes.len(),
        "distinct_nontrivial_note": "distinct FNV-1a hashes of the observed history (task, event, values in global order) of non-trivial cases; the set is capped at 16e6/jobs entries per worker (distinct_hash_set_cap_hit tells whether the cap was reached, the number is then a lower bound)",
        "nontrivial_rule": part.nontrivial_rule,
        "schedulers": if tier == "thorough" { "per chunk: 50% seeded RandomScheduler, 25% PctScheduler depth 2, 25% PctScheduler depth 3" } else { "per chunk: 60% seeded RandomScheduler, 20% PctScheduler depth 2, 20% PctScheduler depth 3" },
        "chunks": chunks, "chunk_size": chunk_size,
        "violations": violations, "bad_runs": bad_runs, "harness_errors": harness_errors,
        "harness_error_msgs": harness_msgs,
        "wall_s": wall, "runs_per_s": if wall > 0.0 { runs_done as f64 / wall } else { 0.0 },
    });
    if std::fs::write(&out_path, serde_json::to_string(&result).unwrap()).is_err() {
        eprintln!("tsim: cannot write {out_path}");
        return 2;
    }
    for m in &harness_msgs {
        eprintln!("tsim: harness error: {m}");
    }
    if harness_errors > 0 {
        return 2;
    }
    if violations.is_empty() { 0 } else { 1 }
}

fn cmd_replay(args: &[String]) -> i32 {
    let Some(path) = args.get(2) else {
        eprintln!("usage: tsim replay <file> [--trace]");
        return 2;
    };
    let v: Value = match std::fs::read_to_string(path).ok().and_then(|t| serde_json::from_str(&t).ok()) {
        Some(v) => v,
        None => {
            eprintln!("tsim: cannot read replay file {path}");
            return 2;
        }
    };
    if v["engine"].as_str() != Some("tsim") {
        eprintln!("tsim: not a tsim replay file");
        return 2;
    }
    let pname = v["part"].as_str().or(v["property"].as_str()).unwrap_or("");
    let Some(part) = part_for(pname) else {
        eprintln!("tsim: unknown part {pname}");
        return 2;
    };
    let seed = v["schedule"]["seed"].as_u64().unwrap_or(0);
    let steps = v["schedule"]["steps"].as_str().unwrap_or("").to_string();
    let schedule = match sched::schedule_from(seed, &steps) {
        Ok(s) => s,
        Err(e) => {
            eprintln!("tsim: {e}");
            return 2;
        }
    };
    (part.install)();
    with_agg(|a| {
        *a = Agg::default();
        a.hash_cap = 16;
        a.want_samples = 1;
        a.cur_base_index = v["run_index"].as_u64().unwrap_or(0);
        a.cur_chunk = v["chunk"].as_u64().unwrap_or(0);
        a.cur_scheduler = "replay".into();
    });
    let mut rs = ReplayScheduler::new_from_schedule(schedule);
    // The recorded schedule of a case that did not panic ends where the
    // workload closure finished; tolerate shuttle wanting one more decision.
    rs.set_allow_incomplete();
    let case = part.case;
    let runner = Runner::new(Recording::new(rs), shuttle_config());
    let res = catch_unwind(AssertUnwindSafe(|| runner.run(move || case(true))));
    let mut diverged = false;
    if let Err(payload) = res {
        let in_replay_scheduler = sched::LAST_PANIC.with(|p| p.borrow().as_ref().is_some_and(|(_, loc)| loc.ends_with("/replay.rs") || loc.contains("/replay.rs:")));
        if in_replay_scheduler {
            // ReplayScheduler refuses to continue: the code under test no
            // longer makes the recorded sequence of scheduling/random requests.
            let (m, _) = sched::LAST_PANIC.with(|p| p.borrow_mut().take()).unwrap_or_default();
            println!("schedule diverged: {m}");
            with_rec(|r| r.active = false);
            diverged = true;
        } else {
            record_panicked_case(classify_panic(&part, payload));
        }
    }
    let (events, replayed_steps) = with_rec(|r| (r.events.clone(), String::from_utf8_lossy(&r.steps).into_owned()));
    if flag(args, "--trace") {
        println!("--- history ({} events; schedule {} steps, seed {}) ---", events.len(), steps.len(), seed);
        for l in sched::render(&events) {
            println!("{l}");
        }
        println!("--- schedule steps: {replayed_steps}");
    }
    let (findings, sample, runs) = with_agg(|a| {
        (
            a.classes.values().map(|(b, _)| b.clone()).collect::<Vec<_>>(),
            a.samples.first().cloned(),
            a.runs,
        )
    });
    if let Some(s) = sample {
        println!("case: {}", s["case"]);
    }
    let same_schedule = replayed_steps == steps || steps.starts_with(&replayed_steps) || replayed_steps.starts_with(&steps);
    let exp = &v["expected"];
    let mut same_class = false;
    let mut violation = false;
    if runs == 0 && !diverged && findings.is_empty() {
        // allow_incomplete: the recorded steps ran out while tasks were still
        // running, i.e. this build takes a different path than the recorded one
        println!("recorded schedule exhausted before the case finished: the code under test no longer follows the recorded execution");
    }
    let mut harness = false;
    for b in &findings {
        println!("finding: status={} oracle={} msg={} [{}]", b.finding.status, b.finding.oracle, b.finding.msg, b.finding.detail);
        if b.finding.status == "harness_error" {
            harness = true;
        } else {
            violation = true;
        }
        if exp["status"].as_str() == Some(b.finding.status) && exp["oracle"].as_str() == Some(b.finding.oracle.as_str()) {
            same_class = true;
        }
    }
    let hash = format!("{:016x}", sched::history_hash(&events));
    println!(
        "replay: expected {}:{} got {} same_class={} same_history_hash={} schedule_followed={} ({} of {} recorded steps)",
        exp["status"].as_str().unwrap_or("?"),
        exp["oracle"].as_str().unwrap_or("?"),
        if findings.is_empty() { "ok".to_string() } else { findings.iter().map(|b| format!("{}:{}", b.finding.status, b.finding.oracle)).collect::<Vec<_>>().join(",") },
        same_class,
        exp["history_hash"].as_str() == Some(hash.as_str()),
        same_schedule,
        replayed_steps.len().min(steps.len()),
        steps.len(),
    );
    if harness {
        eprintln!("tsim: harness error during replay");
        return 2;
    }
    if violation {
        println!("VIOLATION property={} replay={}", part.property, path);
        1
    } else {
        println!("no violation on replay");
        0
    }
}

fn main() {
    // The seeded schedulers would silently prefer this variable to our seeds.
    unsafe { std::env::remove_var("SHUTTLE_RANDOM_SEED") };
    let args: Vec<String> = std::env::args().collect();
    let cmd = args.get(1).map(|s| s.as_str()).unwrap_or("");
    if cmd == "run" || cmd == "replay" {
        init_panic_capture();
    }
    let code = match cmd {
        "run" => cmd_run(&args),
        "replay" => cmd_replay(&args),
        _ => {
            eprintln!("usage: tsim run --property C18|C19 --tier quick|thorough --seed N --jobs N --out FILE | tsim replay FILE [--trace]");
            2
        }
    };
    let _ = std::io::stdout().flush();
    std::process::exit(code);
}
