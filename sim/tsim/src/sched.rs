//! Per-OS-thread recording state shared by the scheduler wrapper, the hook
//! callbacks and the workloads.
//!
//! Every shuttle task of one `Runner` runs as a coroutine on the OS thread that
//! called `Runner::run`, so a `std::thread_local!` is "global to the
//! execution". No borrow of these cells is ever held across a scheduling point.

use shuttle::scheduler::{Schedule, Scheduler, Task, TaskId};
use std::cell::RefCell;

/// One observed event of the history of an execution.
#[derive(Clone, Copy, Debug)]
pub struct Ev {
    /// shuttle task id of the thread that produced the event
    pub task: u8,
    /// event kind / site (static, stable text)
    pub what: &'static str,
    pub a: i64,
    pub b: i64,
}

/// A violation found by an oracle (or a panic classified as one).
#[derive(Clone, Debug)]
pub struct Finding {
    /// "violation" | "crash" | "harness_error"
    pub status: &'static str,
    pub oracle: String,
    /// stable text, pins the call site
    pub msg: String,
    /// text with the concrete values of the first occurrence
    pub detail: String,
}

#[derive(Default)]
pub struct Rec {
    /// seed of the shuttle `Schedule` of the current execution
    pub seed: u64,
    /// one char per schedule step: base-36 task id, or 'R' for a random draw
    pub steps: Vec<u8>,
    /// scheduling decisions in which another task than the current one was
    /// chosen although the current one was still runnable
    pub preemptions: u32,
    pub events: Vec<Ev>,
    pub findings: Vec<Finding>,
    /// true while a workload closure is executing (hooks are inert otherwise)
    pub active: bool,
    /// number of executions started
    pub executions: u64,
}

thread_local! {
    pub static REC: RefCell<Rec> = RefCell::new(Rec::default());
    /// (message, location) of the last panic on this OS thread
    pub static LAST_PANIC: RefCell<Option<(String, String)>> = const { RefCell::new(None) };
}

pub fn with_rec<R>(f: impl FnOnce(&mut Rec) -> R) -> R {
    REC.with(|r| f(&mut r.borrow_mut()))
}

pub fn log(what: &'static str, a: i64, b: i64) {
    let task = usize::from(shuttle::current::me()) as u8;
    with_rec(|r| r.events.push(Ev { task, what, a, b }));
}

pub fn report(status: &'static str, oracle: &str, msg: String, detail: String) {
    with_rec(|r| {
        r.findings.push(Finding {
            status,
            oracle: oracle.to_string(),
            msg,
            detail,
        })
    });
}

/// One uniformly drawn value in `0..n` from shuttle's controlled randomness:
/// exactly one `Random` schedule step, never a scheduling point.
pub fn rnd(n: u64) -> u64 {
    use shuttle::rand::RngCore;
    shuttle::rand::thread_rng().next_u64() % n.max(1)
}

/// The scheduling point used by every hook (NOT `yield_now`: a yield hint makes
/// PCT lower the priority of the yielding task every time, which degenerates it
/// into round-robin).
pub fn switch_point() {
    shuttle::thread::sleep(std::time::Duration::ZERO);
}

fn step_char(id: usize) -> u8 {
    std::char::from_digit(id as u32, 36).expect("more than 36 shuttle tasks") as u8
}

/// Wraps any scheduler and records the schedule exactly as shuttle itself does
/// (`next_task` result -> task step, `next_u64` -> random step), so that the
/// harness owns a replayable schedule for every execution without going
/// through shuttle's panic-time persistence.
#[derive(Debug)]
pub struct Recording<S> {
    inner: S,
}

impl<S> Recording<S> {
    pub fn new(inner: S) -> Self {
        Self { inner }
    }
}

impl<S: Scheduler> Scheduler for Recording<S> {
    fn new_execution(&mut self) -> Option<Schedule> {
        let s = self.inner.new_execution()?;
        with_rec(|r| {
            r.seed = s.seed;
            r.steps.clear();
            r.preemptions = 0;
            r.events.clear();
            r.executions += 1;
        });
        Some(s)
    }

    fn next_task(&mut self, runnable: &[&Task], current: Option<TaskId>, is_yielding: bool) -> Option<TaskId> {
        let next = self.inner.next_task(runnable, current, is_yielding);
        if let Some(n) = next {
            let preempt = match current {
                Some(c) => c != n && runnable.iter().any(|t| t.id() == c),
                None => false,
            };
            with_rec(|r| {
                r.steps.push(step_char(usize::from(n)));
                if preempt {
                    r.preemptions += 1;
                }
            });
        }
        next
    }

    fn next_u64(&mut self) -> u64 {
        with_rec(|r| r.steps.push(b'R'));
        self.inner.next_u64()
    }
}

/// Rebuilds a shuttle `Schedule` from the recorded form.
pub fn schedule_from(seed: u64, steps: &str) -> Result<Schedule, String> {
    let mut s = Schedule::new(seed);
    for c in steps.chars() {
        if c == 'R' {
            s.push_random();
        } else if let Some(d) = c.to_digit(36) {
            s.push_task(TaskId::from(d as usize));
        } else {
            return Err(format!("bad schedule step {c:?}"));
        }
    }
    Ok(s)
}

/// FNV-1a, 64 bit: the history hash must not depend on `RandomState`.
#[derive(Clone, Copy)]
pub struct Fnv(pub u64);

impl Default for Fnv {
    fn default() -> Self {
        Fnv(0xcbf2_9ce4_8422_2325)
    }
}

impl Fnv {
    pub fn bytes(&mut self, b: &[u8]) {
        for x in b {
            self.0 ^= *x as u64;
            self.0 = self.0.wrapping_mul(0x0000_0100_0000_01b3);
        }
    }
    pub fn u64(&mut self, v: u64) {
        self.bytes(&v.to_le_bytes());
    }
}

pub fn mix(vals: &[u64]) -> u64 {
    // splitmix64 over the folded inputs
    let mut x: u64 = 0x9e37_79b9_7f4a_7c15;
    for v in vals {
        x ^= *v;
        x = x.wrapping_add(0x9e37_79b9_7f4a_7c15);
        x = (x ^ (x >> 30)).wrapping_mul(0xbf58_476d_1ce4_e5b9);
        x = (x ^ (x >> 27)).wrapping_mul(0x94d0_49bb_1331_11eb);
        x ^= x >> 31;
    }
    x
}

pub fn history_hash(events: &[Ev]) -> u64 {
    let mut h = Fnv::default();
    for e in events {
        h.bytes(&[e.task]);
        h.bytes(e.what.as_bytes());
        h.u64(e.a as u64);
        h.u64(e.b as u64);
    }
    h.0
}

/// True if some task produced an event while another task was inside an
/// operation (between its `*_start` and `*_end*` events): the operations of two
/// threads really overlapped instead of running one after the other.
pub fn overlap(events: &[Ev]) -> bool {
    let mut in_op = [false; 64];
    for e in events {
        let t = e.task as usize & 63;
        if in_op.iter().enumerate().any(|(o, f)| *f && o != t) {
            return true;
        }
        if e.what.ends_with("_start") {
            in_op[t] = true;
        } else if e.what.contains("_end") {
            in_op[t] = false;
        }
    }
    false
}

pub fn render(events: &[Ev]) -> Vec<String> {
    events
        .iter()
        .enumerate()
        .map(|(i, e)| format!("{i:4} task{} {:<40} a={} b={}", e.task, e.what, e.a, e.b))
        .collect()
}
