//! Per-worker aggregation of case statistics and findings.

use crate::sched::{Finding, history_hash, with_rec};
use serde_json::{Value, json};
use std::cell::RefCell;
use std::collections::{BTreeMap, HashSet};

#[derive(Default)]
pub struct CaseOut {
    pub faults: Vec<(&'static str, u64)>,
    pub probes: Vec<(&'static str, u64)>,
    pub counters: Vec<(&'static str, u64)>,
    /// a fault of the part's "counts for non-triviality" list fired
    pub fault_fired: bool,
    /// no injected fault at all in this case (baseline behaviour)
    pub fault_free: bool,
    /// operations of at least two threads actually overlapped
    pub interleaved: bool,
    pub sample: Option<Value>,
}

/// A finding together with everything needed to replay it.
#[derive(Clone, Debug)]
pub struct Bad {
    pub run_index: u64,
    pub chunk: u64,
    pub scheduler: String,
    pub finding: Finding,
    pub sched_seed: u64,
    pub steps: String,
    pub hash: u64,
}

impl Bad {
    pub fn to_json(&self) -> Value {
        json!({
            "run_index": self.run_index, "chunk": self.chunk, "scheduler": self.scheduler,
            "status": self.finding.status, "oracle": self.finding.oracle,
            "msg": self.finding.msg, "detail": self.finding.detail,
            "sched_seed": self.sched_seed, "steps": self.steps, "hash": format!("{:016x}", self.hash),
        })
    }
}

#[derive(Default)]
pub struct Agg {
    pub runs: u64,
    pub ok: u64,
    pub bad_runs: u64,
    pub by_status: BTreeMap<String, u64>,
    pub faults: BTreeMap<&'static str, u64>,
    pub probes: BTreeMap<&'static str, u64>,
    pub counters: BTreeMap<&'static str, u64>,
    pub nontrivial: u64,
    pub fault_free_runs: u64,
    pub samples: Vec<Value>,
    pub hashes: HashSet<u64>,
    pub hash_cap: usize,
    pub hash_cap_hit: bool,
    /// first finding of each class (status:oracle) + number of runs in the class
    pub classes: BTreeMap<String, (Bad, u64)>,
    // --- context of the execution being run, set by the worker ---
    pub cur_chunk: u64,
    pub cur_base_index: u64,
    pub cur_iter: u64,
    pub cur_scheduler: String,
    pub want_samples: usize,
}

thread_local! {
    pub static AGG: RefCell<Agg> = RefCell::new(Agg::default());
}

pub fn with_agg<R>(f: impl FnOnce(&mut Agg) -> R) -> R {
    AGG.with(|a| f(&mut a.borrow_mut()))
}

impl Agg {
    pub fn add_finding(&mut self, f: Finding, sched_seed: u64, steps: String, hash: u64) {
        let class = format!("{}:{}", f.status, f.oracle);
        let bad = Bad {
            run_index: self.cur_base_index + self.cur_iter,
            chunk: self.cur_chunk,
            scheduler: self.cur_scheduler.clone(),
            finding: f,
            sched_seed,
            steps,
            hash,
        };
        self.classes.entry(class).and_modify(|e| e.1 += 1).or_insert((bad, 1));
    }

    pub fn status(&mut self, s: &str) {
        *self.by_status.entry(s.to_string()).or_insert(0) += 1;
    }
}

/// True if the worker wants a sample description from the case about to run.
pub fn want_sample() -> bool {
    with_agg(|a| a.samples.len() < a.want_samples)
}

/// Called by a workload at the end of its closure (after its oracles ran).
pub fn case_done(out: CaseOut) {
    let (hash, seed, steps, findings, preemptions, nsteps) = with_rec(|r| {
        (
            history_hash(&r.events),
            r.seed,
            String::from_utf8_lossy(&r.steps).into_owned(),
            std::mem::take(&mut r.findings),
            r.preemptions,
            r.steps.len(),
        )
    });
    with_agg(|a| {
        a.runs += 1;
        for (k, v) in &out.faults {
            if *v > 0 {
                *a.faults.entry(k).or_insert(0) += v;
            }
        }
        for (k, v) in &out.probes {
            if *v > 0 {
                *a.probes.entry(k).or_insert(0) += v;
            }
        }
        for (k, v) in &out.counters {
            if *v > 0 {
                *a.counters.entry(k).or_insert(0) += v;
            }
        }
        *a.counters.entry("schedule_steps").or_insert(0) += nsteps as u64;
        *a.counters.entry("preemptions").or_insert(0) += preemptions as u64;
        if out.fault_free {
            a.fault_free_runs += 1;
        }
        if out.interleaved || out.fault_fired {
            a.nontrivial += 1;
            if a.hashes.len() < a.hash_cap {
                a.hashes.insert(hash);
            } else if !a.hashes.contains(&hash) {
                a.hash_cap_hit = true;
            }
        }
        if let Some(s) = out.sample {
            let run_index = a.cur_base_index + a.cur_iter;
            let scheduler = a.cur_scheduler.clone();
            a.samples
                .push(json!({"run_index": run_index, "scheduler": scheduler, "case": s}));
        }
        if findings.is_empty() {
            a.ok += 1;
            a.status("ok");
        } else {
            a.bad_runs += 1;
            let worst = if findings.iter().any(|f| f.status == "harness_error") {
                "harness_error"
            } else if findings.iter().any(|f| f.status == "violation") {
                "violation"
            } else {
                "crash"
            };
            a.status(worst);
            // one count per class and run
            let mut seen: Vec<String> = Vec::new();
            for f in findings {
                let class = format!("{}:{}", f.status, f.oracle);
                if !seen.contains(&class) {
                    seen.push(class);
                    a.add_finding(f, seed, steps.clone(), hash);
                }
            }
        }
        a.cur_iter += 1;
    });
}

fn map_json(m: &BTreeMap<&'static str, u64>) -> Value {
    Value::Object(m.iter().map(|(k, v)| (k.to_string(), json!(v))).collect())
}

impl Agg {
    /// Everything except the hash set (sent separately, in binary).
    pub fn to_json(&self) -> Value {
        json!({
            "runs": self.runs, "ok": self.ok, "bad_runs": self.bad_runs,
            "by_status": self.by_status,
            "faults": map_json(&self.faults), "probes": map_json(&self.probes), "counters": map_json(&self.counters),
            "nontrivial": self.nontrivial, "fault_free_runs": self.fault_free_runs,
            "samples": self.samples, "hash_cap_hit": self.hash_cap_hit,
            "classes": self.classes.iter().map(|(k, (b, n))| json!({"class": k, "n": n, "first": b.to_json()})).collect::<Vec<_>>(),
        })
    }
}
