#!/usr/bin/env python3
"""Confirms an independently written breaking change before it is kept under
/verif/seeded/: in a scratch worktree (never /repo) it checks that
  1. the demonstration passes without the change,
  2. the demonstration fails with the change,
  3. the existing offline unit tests have the same pass set with the change,
and then runs our own checks against the change through tools/mutq.py.

usage: confirm_seed.py <prop> <n> <crate> <demo test filter> [--skip-suite]
inputs: /tmp/seed_<prop>_out/change<n>.diff, demo<n>.diff
output: /verif/seeded/<prop>-<n>/{patch.diff, demo.diff, meta.json}
"""
import json
import os
import re
import subprocess
import sys

prop, n, crate, filt = sys.argv[1:5]
skip_suite = "--skip-suite" in sys.argv
WT = "/tmp/confirm_wt"
TGT = "/tmp/confirm_tgt"
OUT = os.environ.get("SEED_OUT", "/tmp/seed_%s_out" % prop)
ID_OFFSET = int(os.environ.get("SEED_ID_OFFSET", "0"))
ENV = dict(os.environ, CARGO_NET_OFFLINE="true", CARGO_TARGET_DIR=TGT)
SEL = os.environ.get("DEMO_SEL", "--lib")


def sh(cmd, **kw):
    return subprocess.run(cmd, shell=True, stdout=subprocess.PIPE, stderr=subprocess.STDOUT, text=True, **kw)


def reset():
    if not os.path.isdir(WT):
        r = sh("git -C /repo worktree add --detach %s HEAD" % WT)
        assert r.returncode == 0, r.stdout
    sh("git -C %s checkout -- . && git -C %s clean -fdq && git -C %s checkout -q --detach $(git -C /repo rev-parse HEAD)" % (WT, WT, WT))


def apply(path):
    r = sh("git -C %s apply %s" % (WT, path))
    assert r.returncode == 0, "apply %s failed: %s" % (path, r.stdout)


def run_tests(args):
    r = sh("cargo test --offline %s 2>&1" % args, cwd=WT, env=ENV)
    res = {}
    for m in re.finditer(r"^test (\S+) \.\.\. (ok|FAILED|ignored)", r.stdout, re.M):
        res[m.group(1)] = m.group(2)
    return r.returncode, res, r.stdout


change = os.path.join(OUT, "change%s.diff" % n)
demo = os.path.join(OUT, "demo%s.diff" % n)
meta = {"property": prop, "change": os.path.basename(change)}

# 1. demo without the change
reset()
apply(demo)
rc, res, log = run_tests("-p %s %s %s" % (crate, SEL, filt))
ran = {k: v for k, v in res.items() if v != "ignored"}
meta["demo_without_change"] = ran
assert ran and all(v == "ok" for v in ran.values()), "demo does not pass without the change: %s\n%s" % (ran, log[-2000:])
# 2. demo with the change
apply(change)
rc, res, log = run_tests("-p %s %s %s" % (crate, SEL, filt))
ran2 = {k: v for k, v in res.items() if v != "ignored"}
meta["demo_with_change"] = ran2
aborted = rc != 0 and ("SIGABRT" in log or "overflowed its stack" in log or "SIGSEGV" in log)
if aborted:
    meta["demo_with_change"] = {"(test process)": "aborted: " + ("stack overflow" if "overflowed its stack" in log else "signal")}
assert aborted or any(v == "FAILED" for v in ran2.values()), "demo does not fail with the change: %s\n%s" % (ran2, log[-2000:])
# 3. suite with the change only
if not skip_suite:
    base_path = "/tmp/confirm_baseline.json"
    if not os.path.exists(base_path):
        reset()
        rc, base, _ = run_tests("-p scylla -p scylla-cql -p scylla-cql-core --lib --no-fail-fast")
        json.dump(base, open(base_path, "w"))
    base = json.load(open(base_path))
    reset()
    apply(change)
    rc, res, log = run_tests("-p scylla -p scylla-cql -p scylla-cql-core --lib --no-fail-fast")
    diff = {k: (base.get(k), res.get(k)) for k in set(base) | set(res) if base.get(k) != res.get(k)}
    meta["suite_pass_set_changes"] = diff
    meta["suite_counts"] = {"ok": sum(1 for v in res.values() if v == "ok"), "failed": sum(1 for v in res.values() if v == "FAILED")}
    assert not diff, "existing test results change with the patch: %s" % diff
reset()
dst = "/verif/seeded/%s-%d" % (prop, int(n) + ID_OFFSET)
os.makedirs(dst, exist_ok=True)
sh("cp %s %s/patch.diff && cp %s %s/demo.diff" % (change, dst, demo, dst))
meta["confirmed"] = True
meta["ran"] = [
    "cargo test -p %s %s %s with demo only (pass), with demo + change (fail)" % (crate, SEL, filt),
    "cargo test -p scylla -p scylla-cql -p scylla-cql-core --lib --no-fail-fast with the change only: result set identical to the unmodified tree" if not skip_suite else "suite comparison skipped",
]
json.dump(meta, open(os.path.join(dst, "meta.json"), "w"), indent=1)
print("CONFIRMED", prop, n, meta.get("suite_counts"))
