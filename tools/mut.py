#!/usr/bin/env python3
"""Apply a textual mutant to /repo (old -> new in file), run a check, revert.
usage: mut.py <file> <old> <new> -- <cmd...>"""
import subprocess, sys
f, old, new = sys.argv[1:4]
cmd = sys.argv[5:]
p = '/repo/' + f
s = open(p).read()
assert s.count(old) == 1, ("pattern count", s.count(old))
open(p, 'w').write(s.replace(old, new))
try:
    r = subprocess.run(cmd, cwd='/verif')
    print("exit", r.returncode)
finally:
    subprocess.run(['git', '-C', '/repo', 'checkout', '--', '.'])
