#!/usr/bin/env python3
"""Sensitivity queue: applies textual mutants to a scratch worktree of /repo
(never to /repo itself), builds the simulators against it in a scratch target
dir and runs the quick check of the named property there.

usage: mutq.py <mutants.json> [name-filter]

mutants.json: [{"name":..., "prop": "C10", "file": "scylla/src/...", "old": "...", "new": "...",
                "engine": "dsim" (default), "part": optional part name}]
Results are appended to /verif/sensitivity/results.jsonl.
"""
import json
import os
import shutil
import subprocess
import sys
import time

# MUTQ_SUFFIX selects a second set of scratch directories so that two queues can run side by side.
SUF = os.environ.get("MUTQ_SUFFIX", "")
WT = "/tmp/wt_mut" + SUF
SIMCOPY = "/tmp/sim_mut" + SUF
TGT = "/tmp/tgt_mut" + SUF
VDIR = "/tmp/vf_mut" + SUF
OUT = "/verif/sensitivity/results.jsonl"


def sh(cmd, **kw):
    return subprocess.run(cmd, shell=True, stdout=subprocess.PIPE, stderr=subprocess.STDOUT, text=True, **kw)


def setup():
    if not os.path.isdir(WT):
        r = sh("git -C /repo worktree add --detach %s HEAD" % WT)
        if r.returncode != 0:
            print(r.stdout)
            sys.exit(2)
    os.makedirs(VDIR + "/replays", exist_ok=True)
    os.makedirs("/verif/sensitivity", exist_ok=True)


def sync_sim():
    sh("rsync -a --delete --exclude target /verif/sim/ %s/" % SIMCOPY)
    for root, _, files in os.walk(SIMCOPY):
        for f in files:
            if f == "Cargo.toml":
                p = os.path.join(root, f)
                s = open(p).read().replace("/repo/", WT + "/")
                open(p, "w").write(s)
    # The target dir is forced through the environment (see run_one).


def run_one(m, seed):
    sh("git -C %s checkout -- . && git -C %s checkout --detach $(git -C /repo rev-parse HEAD)" % (WT, WT))
    if m.get("file"):
        p = os.path.join(WT, m["file"])
        s = open(p).read()
        if s.count(m["old"]) != 1:
            return {"name": m["name"], "error": "pattern count %d" % s.count(m["old"])}
        open(p, "w").write(s.replace(m["old"], m["new"]))
    elif m.get("patch"):
        r = sh("git -C %s apply %s" % (WT, m["patch"]))
        if r.returncode != 0:
            return {"name": m["name"], "error": "patch failed: " + r.stdout[-500:]}
    sync_sim()
    engine = m.get("engine", "dsim")
    t0 = time.time()
    r = sh("cargo build --release --offline -p %s" % engine, cwd=SIMCOPY, env=dict(os.environ, CARGO_NET_OFFLINE="true", CARGO_TARGET_DIR=TGT))
    if r.returncode != 0:
        return {"name": m["name"], "error": "build failed", "log": r.stdout[-1500:]}
    build_s = time.time() - t0
    part = m.get("part", m["prop"])
    out = os.path.join(VDIR, "res.json")
    if os.path.exists(out):
        os.remove(out)
    t0 = time.time()
    cmd = "%s/release/%s run --property %s --tier %s --seed %d --jobs %d --out %s" % (
        TGT, engine, part, m.get("tier", "quick"), seed, m.get("jobs", 12), out)
    r = sh(cmd, env=dict(os.environ, VERIF_DIR=VDIR))
    res = {"name": m["name"], "prop": m["prop"], "part": part, "exit": r.returncode,
           "build_s": round(build_s, 1), "run_s": round(time.time() - t0, 1)}
    if os.path.exists(out):
        d = json.load(open(out))
        res["runs"] = d["agg"]["runs"]
        res["violations"] = [
            {"oracle": v["oracle"], "runs_in_class": v["runs_in_class"], "first_run_index": v["run_index"],
             "reproduced_on_replay": v.get("reproduced_on_replay"), "msg": v["msg"][:200]}
            for v in d["violations"]]
    else:
        res["log"] = r.stdout[-800:]
    return res


def main():
    muts = json.load(open(sys.argv[1]))
    flt = sys.argv[2] if len(sys.argv) > 2 else None
    seed = int(os.environ.get("VERIF_SEED", "20260925"))
    setup()
    for m in muts:
        if flt and flt not in m["name"]:
            continue
        res = run_one(m, seed)
        res["at"] = time.strftime("%H:%M:%S")
        with open(OUT, "a") as f:
            f.write(json.dumps(res) + "\n")
        known = set()
        try:
            for e in json.load(open("/verif/known_findings.json"))["findings"]:
                if e.get("status") == "known":
                    known.add(e["match"]["oracle"])
        except Exception:
            pass
        res["new_oracles"] = [v["oracle"] for v in res.get("violations", []) if v["oracle"] not in known]
        caught = bool(res["new_oracles"])
        print("%-40s %-5s %s %s" % (m["name"], m.get("prop"), "CAUGHT" if caught else "MISSED",
                                     res.get("error") or res["new_oracles"]), flush=True)
    sh("git -C %s checkout -- ." % WT)


if __name__ == "__main__":
    main()
