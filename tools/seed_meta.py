#!/usr/bin/env python3
"""Completes /verif/seeded/<id>/meta.json from tools/seed_notes.json (what the change
does / what it needs to manifest, taken from the authoring agent's report) and from
sensitivity/results.jsonl (which of our checks were run against it and what fired).
Also writes /verif/seeded/INDEX.md."""
import json
import os
import re

notes = json.load(open("/verif/tools/seed_notes.json"))
results = {}
for l in open("/verif/sensitivity/results.jsonl"):
    l = l.strip()
    if not l:
        continue
    d = json.loads(l)
    m = re.match(r"seeded-(C\d\d-\d+)(?:\D|$)", d["name"])
    if m:
        results.setdefault(m.group(1), {})[(d["name"], d.get("part") or d.get("prop"), d.get("tier") or "quick")] = d

index = ["# Independently written breaking changes", "",
         "Each directory holds `patch.diff` (the change; applies to /repo HEAD with `git apply`), `demo.diff`",
         "(a demonstration test that passes without and fails with the change) and `meta.json`. None of these",
         "is ever committed to /repo. `caught by` = oracle ids of our checks that fired with the change applied",
         "(scratch worktree, `tools/mutq.py`, seed 20260925).", "",
         "| id | property | change | needs | our checks run -> fired |", "|---|---|---|---|---|"]
for sid in sorted(os.listdir("/verif/seeded")):
    mp = "/verif/seeded/%s/meta.json" % sid
    if not os.path.exists(mp):
        continue
    meta = json.load(open(mp))
    n = notes.get(sid, {})
    meta["id"] = sid
    meta["breaks_property"] = sid.split("-")[0]
    meta["what_it_does"] = n.get("what", "")
    meta["needs_to_manifest"] = n.get("needs", "")
    checks = []
    for (name, part, tier), d in sorted(results.get(sid, {}).items()):
        if d.get("error"):
            checks.append({"check": "%s %s" % (part, tier), "error": d["error"]})
            continue
        vs = d.get("violations", [])
        checks.append({
            "check": "%s %s" % (part, tier),
            "runs": d.get("runs"),
            "fired": sorted({v["oracle"] for v in vs}),
            "first_failing_run_index": min([v["first_run_index"] for v in vs], default=None),
            "replay_reproduces": all(v.get("reproduced_on_replay") for v in vs) if vs else None,
        })
    meta["our_checks"] = checks
    meta["caught"] = any(c.get("fired") for c in checks)
    json.dump(meta, open(mp, "w"), indent=1)
    index.append("| %s | %s | %s | %s | %s |" % (
        sid, meta["breaks_property"], n.get("what", "").replace("|", "/"), n.get("needs", "").replace("|", "/"),
        "; ".join("%s -> %s" % (c["check"], ", ".join("`%s`" % f for f in c.get("fired", [])) or "**nothing**") for c in checks) or "(not run)"))
open("/verif/seeded/INDEX.md", "w").write("\n".join(index) + "\n")
print("seeds", len(index) - 9)
