#!/usr/bin/env python3
"""Builds /verif/SENSITIVITY.md from sensitivity/results.jsonl (latest result per mutant)."""
import json

rows = {}
for l in open("/verif/sensitivity/results.jsonl"):
    l = l.strip()
    if not l:
        continue
    d = json.loads(l)
    rows[(d["name"], d.get("part", d.get("prop")))] = d

known = set()
try:
    for e in json.load(open("/verif/known_findings.json"))["findings"]:
        if e.get("status") == "known":
            known.add(e["match"]["oracle"])
except Exception:
    pass

out = ["# Sensitivity results", "",
       "Each row: one change applied to a scratch worktree of `/repo` (never to `/repo` itself), the",
       "simulators rebuilt against it, and the **quick** check of the named part run there",
       "(`tools/mutq.py`; seed 20260925). `caught by` lists the oracle ids that fired (known findings",
       "excluded); `first run` is the index of the first failing run of the batch. `pristine-*` rows are",
       "the unchanged tree (must be empty). `seeded-*` rows are the independently written changes kept",
       "under `seeded/`.", "",
       "| change | property / part | runs | caught by | first run | replay reproduces |",
       "|---|---|---|---|---|---|"]
for (name, part), d in sorted(rows.items(), key=lambda kv: (kv[1].get("prop", ""), kv[0][0])):
    if d.get("error"):
        out.append("| %s | %s | - | (harness: %s) | - | - |" % (name, part, d["error"]))
        continue
    vs = [v for v in d.get("violations", []) if v["oracle"] not in known]
    caught = ", ".join("`%s`" % v["oracle"] for v in vs) or ("**missed**" if not name.startswith("pristine") else "-")
    first = min([v["first_run_index"] for v in vs], default="-")
    rep = all(v.get("reproduced_on_replay") for v in vs) if vs else "-"
    out.append("| %s | %s / %s | %s | %s | %s | %s |" % (name, d.get("prop"), part, d.get("runs", "-"), caught, first, rep))
open("/verif/SENSITIVITY.md", "w").write("\n".join(out) + "\n")
print("rows", len(rows))
