"""Per-property metadata used by vcheck when writing evidence."""

REAL_VS_STUB = {
    "dsim": {
        "real": [
            "scylla session, cluster/metadata workers, pools, connection router (reader/writer/orphaner/keepaliver), pager, retry/speculative/load-balancing code, scylla-cql and scylla-cql-core codecs: /repo working tree built with --cfg scylla_verif",
            "Tokio 1.53 current_thread scheduler, tokio::sync, tokio::time on the paused clock (virtual time), seeded select!",
        ],
        "stub": [
            "TCP: SimStream/SimNet in-memory ordered byte pipes with seeded latency, fragmentation, back-pressure, FIN/RST/stall at chosen offsets",
            "ScyllaDB/Cassandra nodes: MockCluster (independent CQL v4 server codec, ring/replication/sharding/tablet model, prepared cache, paging, keyspace per connection)",
            "OS entropy: getrandom symbol interposed, stream derived from the run seed",
            "wall clock of MonotonicTimestampGenerator: simulated skewed clock via hook",
        ],
        "not_simulated": ["TLS", "DNS", "address translation", "client routes", "multi-thread runtime data races"],
    },
    "tsim": {
        "real": [
            "MonotonicTimestampGenerator, merge_channel Sender/Receiver, TabletsInfo/TableTablets, ResponseHandlerMap/StreamIdSet, speculative_execution::execute: /repo working tree built with --cfg scylla_verif, driven through thin public wrappers",
        ],
        "stub": [
            "thread scheduler: shuttle (seeded random / PCT), scheduling points supplied by cfg(scylla_verif) hooks",
            "wall clock: seeded walk (stall, repeat, step back/forward)",
        ],
        "not_simulated": ["weak memory effects (sequential consistency per scheduling point is assumed)"],
    },
}

COMMON_ASSUMPTIONS = [
    "the mock cluster's codec and model (written from the CQL v4 spec, independent of the driver) represent a real server for the exchanged frames",
    "engine A interleaves driver tasks at .await granularity on one thread; true multi-core data races are out of scope",
    "one process per run; every random source is derived from VERIF_SEED (getrandom interposition, Tokio rng_seed, choice tape)",
    "a clean batch is evidence over the sampled schedules and fault sequences, not a proof",
]

PROPS = {
    "C02": {
        "engine": "dsim",
        "parts": ["C02", "C02d"],
        "part_engines": {"C02": "dsim", "C02d": "hsim"},
        "level": "exploration",
        "technique": "deterministic simulation with fault injection (seeded schedules over a simulated transport, mock CQL node as omniscient observer)",
        "rule": "each run = one seeded scenario: 2..96 client tasks x 1..6 uniquely marked requests on ONE shared connection (PerHost(1), unsharded node), seeded response delay/order/never-answer, caller cancellation (never polled / after first poll / around write / after write / late), write coalescing mode, fragmentation, chaos yields, back-pressure, compression. Non-trivial = at least 2 requests were simultaneously outstanding on the connection at the mock, or at least one cancellation fired. Distinct = distinct (Tokio poll-sequence hash, event-log hash) pairs among non-trivial runs. Rarely (3 per mille quick, 20 per mille thorough) a run fills the whole id space instead: 33068 requests outstanding at once on the connection, the node answers a chosen few (ids at the 64-bit block boundaries of the bitmap, the extremes, 20 random ones) and only the freed ids may be used again. Part C02d (hsim, direct history driver): seeded histories of allocate / orphan (live, already answered = late notification, unknown) / lookup (reserved in seeded order, or unsolicited) on the real ResponseHandlerMap/StreamIdSet through a thin wrapper, incl. histories that fill all 32768 ids and free ids at block boundaries, against a map model (oracles c02.stream_id_reuse, c02.lookup, c02.exhaustion, c02.late_orphan, c02.range); non-trivial = history with at least one orphan or exhaustion; distinct = distinct history hashes.",
        "assumptions": COMMON_ASSUMPTIONS + [
            "oracles: (a) every Ok result carries the marker of its own request; (b) the mock never sees a stream id on a new request while an earlier request with that id is unanswered by the mock (abandoned requests included); (c) every request frame parses and has a stream id in 0..32767; (d) a fresh request after quiescence returns",
        ],
        "expected_probes": ["Cancel", "ReorderResp", "NoReply"],
    },
    "C10": {
        "engine": "dsim",
        "level": "fault_enumeration",
        "technique": "deterministic simulation with fault injection (crash-point enumeration over the response byte stream + seeded schedules)",
        "rule": "even run indices enumerate the crash-point grid of a scripted exchange (4 held requests on one connection, 1 node, pool 1): every cut offset 0..200 of the response byte stream x {FIN, RST, garbage header at a frame boundary, silent stall}, under seeded schedules/fragmentation; odd run indices sample 1..3 nodes x 0/2/3 shards x pool 1..3 x 1..32 in-flight requests (idempotent or not) x 1..3 fault rounds x {FIN, RST, garbage header, bad version, unsolicited stream id, stall, partition of the victim's whole node (all its connections go silent, new connection attempts hang until the connect timeout; heals when faults stop)} x offset x victim (pool or control connection) x timing relative to writes, keepalive interval/timeout, request timeout on/off, retry policy, and (1 in 2) a background task that keeps sending a request every 100..900 ms on the same pools during the whole fault phase (so that a stall meets a connection that is in use, not idle). Non-trivial = at least one fault was injected on a live connection. Distinct = distinct (poll-sequence hash, event-log hash).",
        "assumptions": COMMON_ASSUMPTIONS + [
            "oracles: (a) every call outstanding at fault time returns within hold + keepalive interval + timeout (+ the same again for silent faults) + 20 s; (b) every Ok result carries its own marker; (c) a non-idempotent request is received at most once; (d) keepalive interval + timeout + 15 s after faults stop, 8 fresh idempotent requests all succeed; (e) a request outstanding on a connection that was killed or poisoned can only succeed through a second attempt",
            "garbage is injected at frame boundaries only: a corruption inside a frame body that keeps the framing intact is undetectable by any client and is not part of the property's fault list",
        ],
        "expected_probes": ["Fin", "Rst", "Garbage", "Stall", "cut_fired", "doomed_failed", "partition", "ConnectBlackhole"],
    },
    "C08": {
        "engine": "dsim",
        "level": "fault_enumeration",
        "technique": "deterministic simulation with fault injection (in-flight damage of response frames of a scripted exchange: truncation enumerated at every offset of every frame, seeded bit flips / field-aware overwrites / header damage / garbage / deep nesting, child-process crash and allocation monitors)",
        "rule": "a real session runs a scripted exchange touching every response kind the mock emits (SUPPORTED, READY/AUTHENTICATE/AUTH_SUCCESS, PREPARED and paged Rows of system tables, Rows with native/collection/tuple/UDT/nested types read through CqlValue rows AND through a derive-based statically typed row (String, Vec<u8>, Vec<i32>, BTreeSet<String>, HashMap<String,i64>, tuple, derive-based UDT struct, Vec<BTreeMap<i32,Vec<String>>>, f64, IpAddr, Uuid, i16, i8, CqlTimestamp, all Option-wrapped), Void with warnings, tracing id, every ERROR code, SetKeyspace, SchemaChange, EVENTs, tablets custom payload, LZ4/Snappy bodies). Even run indices enumerate truncation (then FIN) of frame f at offset o for EVERY (f, o) with o < len(f) of the fixed-seed exchange (frame lengths measured by a dry run; counter enum_truncation_points_total vs enum_truncations_fired); odd run indices sample feature combinations and one damage to one seeded frame: bit flips, 1/2/4-byte overwrites with 0/-1/1/i32::MAX/... at any offset before or after compression (covers every length/count/flag/type-id field), header flags/opcode/version/length, LZ4 length prefix, garbage frame or body, result metadata nested 8..120000 levels deep, custom (type id 0) columns whose class string comes from a seeded grammar fuzzer over the marshal class syntax (nested parentheses to depth 100000, unbalanced, empty parameters, hex names incl. odd length / non-hex / non-ASCII alphanumerics, frozen/reversed wrappers, unknown classes); 1 in 10 sampled runs is damage-free and checks exact round trip. Non-trivial = a damage fired. Distinct = distinct (poll-sequence hash, event-log hash).",
        "assumptions": COMMON_ASSUMPTIONS + [
            "oracles: child process ends normally (no panic, abort, signal) under RLIMIT_AS 12 GiB and an 8 MiB stack; no single allocation above 64 MiB + 16 x bytes delivered so far (reported before the allocation is forwarded); no wall-clock runaway (30 s kill = busy loop); calls with a client-side timeout return within 120 virtual s; damage-free runs decode exactly what was encoded; after the damaged exchange a fresh request is served within 90 virtual s",
            "response kinds covered = those the mock encodes; typed targets = CqlValue rows, one derive-based typed row covering the std collection/scalar carriers listed in the rule, and the workload's tuples - not the whole carrier matrix (that part of the quantifier is input-only)",
            "calls without a client-side timeout (session creation, PREPARE, USE, refresh_metadata, DDL with schema agreement) may legitimately keep waiting when the damage makes their response vanish; they are not counted as hangs (counter untimed_call_waiting_for_lost_response)",
        ],
        "expected_probes": ["Corrupt", "enum_truncations_fired", "sampled_mutations_fired", "clean_runs"],
    },
    "C18": {
        "engine": "tsim",
        "parts": ["C18", "C18e"],
        "part_engines": {"C18": "tsim", "C18e": "dsim"},
        "level": "exploration",
        "technique": "deterministic simulation with fault injection (shuttle-controlled thread schedules over the real MonotonicTimestampGenerator with a seeded faulty wall clock as scheduling point)",
        "rule": "each case = one shuttle execution: 2..4 threads x 2..6 next_timestamp() calls on one real MonotonicTimestampGenerator; the hooked wall clock returns a seeded walk (stall, repeated microsecond, step back up to 3 s, step/jump forward, pre-epoch) and is a scheduling point sitting between the load and the compare_exchange; schedulers: seeded random and PCT depth 2-3; workload drawn from shuttle::rand so a recorded schedule replays the whole execution. Non-trivial = operations of two threads overlapped or a clock fault fired. Distinct = distinct hashes of the observed event history. Part C18e (engine A, end-to-end): a real session with MonotonicTimestampGenerator (with/without warnings) on 1..3 nodes, 1..16 concurrent tasks x 1..8 writes (unprepared, prepared, batch of prepared statements, batch containing an unprepared statement with values - prepared on the fly, batch rebuilt; 1 in 4 with an explicit statement timestamp), retryable server errors, and a seeded faulty wall clock (stall, tick back, step back up to 3 s, jumps); the mock records the timestamp of every QUERY/EXECUTE/BATCH frame: generated timestamps are pairwise distinct over all attempts, an explicit statement timestamp is exactly the one on the wire, and no write arrives without a timestamp.",
        "assumptions": [
            "sequential consistency per scheduling point (one shuttle thread runs at a time; std atomics are not remodelled): weak-memory effects are out of scope",
            "scheduling points are the hooked clock read and the harness's own yields",
            "oracles: all values handed out by one generator are pairwise distinct; each thread's own sequence strictly increases",
            "a clean batch is evidence over the sampled schedules, not a proof",
        ],
        "expected_probes": ["ClockStall", "ClockStepBack", "cas_retry"],
    },
    "C19": {
        "engine": "tsim",
        "parts": ["C19", "C19e", "C19p"],
        "part_engines": {"C19": "tsim", "C19e": "dsim", "C19p": "hsim"},
        "level": "exploration",
        "technique": "deterministic simulation with fault injection (shuttle-controlled producer/consumer schedules over the real merge channel with hook-supplied scheduling points between every shared-state operation)",
        "rule": "each case = one shuttle execution of a producer thread (modify: push unique id / no-op / retract; drop sender early, late or after an acknowledged sentinel) and a consumer thread (recv under block_on, recv cancelled after one poll and restarted, try_recv, early receiver drop) on one real merge_channel; scheduling points from cfg(scylla_verif) hooks between the flag loads/stores, slot critical section, notify_one, enable() and take(); schedulers: seeded random and PCT depth 2-3. Non-trivial = producer and consumer operations overlapped or a fault (cancel, retract, drop race) fired. Distinct = distinct hashes of the observed event history incl. the scheduling sites hit. Part C19e (engine A, end-to-end): a real session on 1..4 nodes (+1..3 spare nodes), 0..3 tasks calling refresh_metadata() at seeded instants while 1..14 seeded events happen: node joins / leaves / is replaced under the same address with a new host id / changes rack, each with or without the corresponding EVENT, event floods (10..73 STATUS_CHANGE/SCHEMA_CHANGE events), control-connection resets; system tables paged by 0..2 rows; oracles: every refresh_metadata() call is answered (Ok or Err) within 240 virtual s (c19.refresh_unanswered); a refresh_metadata() that returned Ok with no ring change between its start and its return has published a ClusterState whose node set equals the mock's ring at that time (c19.published_state_stale); once the client has completely re-read system.peers in a fetch that STARTED after a node joined (observed at the mock; with or without EVENT - nothing is demanded about when the driver fetches) and nothing else changes, the published state contains that node within 3 virtual s, or 40 s while some member is unreachable and holds publications back by connect timeout + pool back-off (c19.event_not_reflected); joining members may be unreachable (connection attempts hang until the connect timeout), which keeps the publishing worker waiting while further fetches pile up in the hand-off slot; after faults stop and one successful refresh the published ClusterState node set (host ids) equals the mock cluster's (c19.published_state_stale). Part C19p (hsim, poll-granularity driver, single thread, the harness owns the only waker): seeded sequences of <= 24 producer steps {modify(push id), modify(no-op), modify(retract), drop} and consumer steps {start recv, poll, cancel, try_recv, drop receiver}, with producer steps also injected inside a recv poll at the hook scheduling points; reference model = one pending vector; oracles c19.lost_or_dup, c19.lost_wakeup (model says pending and the last poll returned Pending => the waker was invoked; a fresh recv polled once returns Ready), c19.none_early, c19.send_error.",
        "assumptions": [
            "sequential consistency per scheduling point; tokio::sync::Notify is real code but its internals have no extra scheduling points",
            "oracles: concatenation of received values == merged-and-not-retracted ids in order, each once; None only after the sender is gone and the last value taken; a consumer parked forever while a value is pending or the sender is gone = shuttle deadlock = lost wake-up; modify errs when the receiver's drop completed before the call and succeeds when the drop had not begun when it returned (the racing window is not judged)",
            "a clean batch is evidence over the sampled schedules, not a proof (the quantifier's 'exhaustive' is not claimed)",
        ],
        "expected_probes": ["RecvCancelled", "recv_woken_after_park", "recv_recheck_found_last_value"],
    },
    "C06": {
        "engine": "dsim",
        "level": "exploration",
        "technique": "deterministic simulation with fault injection (per-attempt outcome sequences scripted by the mock cluster; mock frame history vs recorded policy decisions)",
        "rule": "each run = 2..6 unsharded nodes, 1..12 uniquely marked requests (unprepared select/write, prepared select/insert, batch, query_iter, execute_iter) x idempotent flag x {Default, DowngradingConsistency, Fallthrough} (wrapped in a recording RetryPolicy) x consistency incl. SERIAL/LOCAL_SERIAL; for every attempt that reaches a node the tape picks the outcome: success, every DbError kind with randomised fields (Unavailable alive/required, Read/WriteTimeout received/required/data_present/write type, Overloaded, ServerError, Truncate, Bootstrapping, Read/WriteFailure, FunctionFailure, Invalid, Syntax, Unauthorized, AlreadyExists, Config, RateLimit, unknown code), connection reset after the request was received, a write failure of the NEXT frame written on that connection while the request is unanswered (both in sequential runs only), truncated RESULT body; outcome selection per run is independent per attempt, sticky (a node keeps answering the same error) or a fixed pattern crossing target boundaries (e.g. ReadTimeout, Overloaded, ReadTimeout). Non-trivial = at least one request needed more than one attempt. Distinct = distinct (poll-sequence hash, event-log hash).",
        "assumptions": COMMON_ASSUMPTIONS + [
            "oracles, from the mock's frame history per marker and the logged decisions: (a) a non-idempotent request has a further frame only after Unavailable / IsBootstrapping / ReadTimeout; (b) Default policy at serial consistency: one frame; (c) frames <= nodes + 2 (Default) / + 1 (Downgrading) / exactly 1 (Fallthrough); (d) frames <= 1 + retry decisions, nothing after DontRetry / IgnoreWriteError; same-node retries of one request <= 1 per once-per-request rule of the policy (c06.too_many_same_node_retries); (e) each re-sent frame carries the consistency the policy chose and goes to the same / another node as decided; (f) the caller sees success iff the last attempt succeeded or the write error was ignored",
            "1 in 5 runs the execution profile carries a speculative execution policy (max 2, interval 30 ms) and answers take 0..120 ms: statements not marked idempotent are judged as always (they must not be speculated either), idempotent ones are not judged in those runs (speculative copies are not retry decisions); no evictions, no request timeout; client-side stream-id exhaustion is not generated (covered by C02)",
            "connection resets are scripted only when requests run one at a time, so that one request's reset cannot destroy another request's attempt on the shared connection",
        ],
        "expected_probes": ["SrvError", "Rst", "requests_retried"],
    },
    "C13": {
        "engine": "dsim",
        "parts": ["C13", "C13d"],
        "part_engines": {"C13": "dsim", "C13d": "hsim"},
        "level": "exploration",
        "technique": "deterministic simulation with fault injection (mock nodes delay and answer each attempt per seeded script on virtual time; ties between the speculative timer and completions)",
        "rule": "each run = 2..6 unsharded nodes, SimpleSpeculativeExecutionPolicy(max 0..4, interval 50/100/200 ms), retry policy Fallthrough (2/3) or Default, 1..8 sequential uniquely marked requests through query_unpaged, the paging iterator query_iter, execute_unpaged of a prepared statement, a batch of prepared statements, or a 3-page result read through the paging iterator with page size 1 - every page request is speculated separately and the structural clauses (a)-(c) are judged per page request - (weights 3:2:2:1:2), idempotent (3/4) or not; for every attempt reaching a node the tape picks a completion delay on the grid 0, d/2, d, ..., 7d/2 and an outcome: success, definitive error (Invalid/Syntax/Unauthorized/AlreadyExists), ignorable error (Overloaded/Unavailable/IsBootstrapping), connection reset. Non-trivial = at least one speculative execution reached a node. Distinct = distinct (poll-sequence hash, event-log hash). Part C13d (hsim, direct driver): the real speculative_execution::execute loop driven through a wrapper on a paused current_thread runtime (one forked process per case because futures::select! breaks ties with process-global state) with up to 5 scripted fibers, each (completion delay in {0, d/2, ..., 3d}, outcome in {success, definitive error, ignorable error, plan exhausted}), max 0..4, exact virtual instants: oracles c13.too_many, c13.too_early, c13.first_real_answer (earliest real outcome, returned at that instant, ties: any tied), c13.last_error (returns the last ignorable error exactly when every started fiber has finished and none may still start), c13.hang.",
        "assumptions": COMMON_ASSUMPTIONS + [
            "oracles from the mock's per-attempt history: (a) a non-idempotent request never has unanswered attempts on two nodes at once (any retry policy); with Fallthrough (one attempt per execution): (b) executions <= 1 + max (1 if not idempotent), the k-th reaches a node no earlier than k x interval; (c) executions go to distinct nodes; (d) the call returns a success/definitive outcome that is the earliest one (ties within 4 ms: any of the tied), no later than 6-10 ms after it was sent and not before; (e) without any real answer it fails with an ignorable error, not before every started execution finished; (f) it returns within 120 virtual s; (g) c13.gave_up_early: it does not fail with an ignorable error while an execution that later produced a real answer was still in flight",
            "exact return instants of case (e) and exact tie handling are decided by the direct driver part (C13d), not end-to-end",
        ],
        "expected_probes": ["speculative_executions_seen", "Rst", "SrvError"],
    },
    "C07": {
        "engine": "dsim",
        "level": "exploration",
        "technique": "deterministic simulation with fault injection (server-side page scripts: seeded page splits, paging states and per-page faults; consumer behaviours)",
        "rule": "each run = 1..5 unsharded nodes, 1..5 paged queries (query_iter unprepared / execute_iter prepared, idempotent, Default retry policy 3/4 or Fallthrough) over result sets of 0..200 uniquely numbered rows which the mock splits by a seeded page-size sequence (empty pages anywhere, whole-rest pages, trailing empty pages, <= 40 pages) with random paging-state byte strings; per page request the tape may inject a retryable error (Overloaded/IsBootstrapping/ServerError), a non-retryable error (Invalid/Syntax), a connection reset instead of the answer, an UNPREPARED answer (statement evicted between two pages; the repeated request must carry the same paging state), or a delay of seconds; request timeout none / 2 s / 5 s / 30 s per page request; consumers: eager, slow (sleeps between rows), stalled for 1..4 s at a chosen row (longer than the request timeout while the worker is blocked handing over a page), early drop after k rows; system tables are served to the control-connection pager in pages of 1..3 rows. Non-trivial = at least one query needed more than one page request. Distinct = distinct (poll-sequence hash, event-log hash).",
        "assumptions": COMMON_ASSUMPTIONS + [
            "oracles: (a) rows seen are always a prefix of the server's rows in order; on normal end they are all rows and the last page was delivered; (b) from the server's history: first request carries no paging state, each further one asks for the same page only after a failed attempt at it, or for the next page only after the current one was delivered; a state the server never issued or a request beyond the last page is a violation; (c) when the stream fails, exactly the rows of the pages before the failed page were seen; (d) page requests after an early drop are counted, not judged (prefetch depth is not part of the property); control-connection pager: published topology has every node once",
            "1 in 4 runs add speculative execution (max 1..2 copies, interval 20/50/200 ms) to the idempotent page requests; there the page-request chain is judged by time, because copies travel to different nodes and arrival order is not sending order: a request for page p is legal until 20 virtual ms (a round trip) after the first successful answer for p, with at most 1 + max copies outstanding, and only after page p-1 was answered successfully; the row oracles (a), (c) are unchanged",
        ],
        "expected_probes": ["page_requests", "page_faults", "Rst", "speculative_runs"],
    },
    "C14": {
        "engine": "dsim",
        "level": "exploration",
        "technique": "deterministic simulation with fault injection (per-node eviction / restart / schema-change / id-change histories interleaved with concurrent executions; server-side frame history vs caller-side decoded rows)",
        "rule": "each run = 1..4 unsharded nodes, metadata-id extension on/off, use_cached_result_metadata on/off, 1..6 concurrent callers x 2..8 operations (execute select, execute insert, batch of two DISTINCT prepared inserts, paged execute of a 3-row result with page size 1 whose statement is - 1 in 3 - evicted right before the node handles the request for a further page) on three shared prepared statements (1 in 4 runs: every execution goes through a CachingSession instead, with statement texts and its own cached handles), and 1..10 seeded chaos events: evict a statement from a node's cache, evict everything from a node's cache, schema change of the SELECT (result columns added in front or at the end => new result metadata id, rows re-encoded), node crash+restart (cache lost), statement id change (re-preparation yields another id). Non-trivial = at least one UNPREPARED answer or more than one schema version. Distinct = distinct (poll-sequence hash, event-log hash).",
        "assumptions": COMMON_ASSUMPTIONS + [
            "oracles from the mock's frame history: (a) an UNPREPARED answer on a live connection is followed by a PREPARE of the same text on that connection and, if the id is unchanged, by an EXECUTE/BATCH equal to the original in id, value bytes, consistency, serial consistency, page size, paging state and timestamp; (b) if re-preparation returned another id no EXECUTE of that request follows; (b2) on a connection with the metadata-id extension the repeated EXECUTE presents the result metadata id its re-preparation announced or a later one, never an older one, unless an older announcement was still in flight (c14.reexecution_presents_older_metadata_id); (c) rows decoded by the caller (as CqlValue rows with column names) equal the mock's logical rows under the schema version the answer was encoded with, whenever that version was sent along or is unambiguously the one most recently announced (own preparation, or anything carrying a metadata id) with no concurrent announcement; (d) every presented result metadata id was announced by the mock, and after quiescence it is the latest; (e) runs with evictions only: no caller sees an error",
            "a PREPARED answer to an internal re-preparation without the metadata-id extension carries no id; the driver then keeps its cached metadata (CQL v4 cannot signal the change) - such answers are not counted as announcements (counter undetectable_schema_change_skipped)",
        ],
        "expected_probes": ["Evict", "SchemaChange", "unprepared_answers", "reexecutions_checked", "rows_checked", "metadata_id_mismatch"],
    },
    "C12": {
        "engine": "dsim",
        "parts": ["C12", "C12t"],
        "part_engines": {"C12": "dsim", "C12t": "dsim"},
        "level": "exploration",
        "technique": "deterministic simulation with fault injection (seeded cluster layouts; the mock recomputes token, replicas and shard with independent implementations of Murmur3, ring walk, NetworkTopologyStrategy and shard-of-token)",
        "rule": "each run = a mock cluster of 1..6 nodes x 1..3 datacenters x 2 racks, 1..6 random vnode tokens per node, shard count 0 (Cassandra-like)/1/2/3/4/8 with msb-ignore 0/7/12, keyspaces with SimpleStrategy(rf 1..3) and NetworkTopologyStrategy(rf 0..3 per DC), pool PerShard(n)/PerHost(n) n=1..3, shard-aware port advertised or not, load-balancing preference none / DC / DC+rack with or without DC failover; optionally source-port rewriting (NAT: 1 in 4 runs every connection through the shard-aware port reaches the node from another port, so the node binds it to a shard other than the one the port was drawn for); optionally a node restart (possibly resharded) before the measured phase; then 30..150 executions of prepared statements with 1-, 2- and 3-component partition keys bound through permuted markers and random keys. Non-trivial = at least one first attempt was checked against a non-empty reachable+permitted replica set. Distinct = distinct (poll-sequence hash, event-log hash). Part C12t (tablet clause; the C15e scenario run with oracle ids c12t.*): 2..5 sharded nodes (+ optionally a spare node that joins mid-run, with or without NEW_NODE event, so that tablets name a replica the client does not know yet), a tablet keyspace whose server-side layout changes 0..5 times (tablet moved between nodes and/or shards, split, merged, boundary shifted by one token), tablets-routing-v1 feedback attached exactly when a request reached a non-replica; oracles: a request whose token is covered by a tablet the client learnt before it was submitted reaches a replica node of that tablet (c12t.routing_ignores_tablet) on the tablet's shard when the pool has had a connection to it for 320 virtual ms (c12t.routing_wrong_shard); after quiescence ClusterState::get_token_endpoints equals the latest-wins model (c12t.lookup_after_quiescence).",
        "assumptions": COMMON_ASSUMPTIONS + [
            "oracle per execution, from the FIRST frame of its marker at the mock: with R = model replicas(token) restricted to nodes the driver reported connected right before submission, up, and permitted by the load-balancing configuration (preferred DC only when failover is off): if R is non-empty the frame arrived at a node of R, in the preferred DC when R has a member there; on a sharded replica node the frame arrived on a connection whose server-assigned shard equals the model's shard-of(token) whenever the mock sees a live pool connection to that shard",
            "the model (Murmur3 with Cassandra's signed-tail quirk, compound-key serialisation, ring walk, Cassandra's NTS rack rule, ScyllaDB's biased-token shard function) is written from the algorithm descriptions and self-checked against the Murmur3 vectors present as literals in the repo's tests",
            "tablet-based routing is decided by part C12t (same scenario as C15e)",
        ],
        "expected_probes": ["first_attempts_checked", "shard_checked", "NodeRestart"],
    },
    "C20": {
        "engine": "dsim",
        "level": "exploration",
        "technique": "deterministic simulation with fault injection (USE calls interleaved with connection loss, refill, node restart and node addition; the mock tracks the keyspace of every connection at frame arrival)",
        "rule": "each run = 1..4 nodes (+1 that may join later via NEW_NODE event), 0/2/3 shards, pool PerHost(1..3), 1..4 requester tasks issuing uniquely marked requests every 1..40 ms, one task setting the keyspace one call at a time - through Session::use_keyspace or (1 in 3) by running a `USE name` / `USE \"Name\"` statement through query_unpaged - with names from a pool (incl. a case-sensitive one), USE answers slowed (20..800 ms) or failed (Overloaded) at seeded rates, and 0..7 chaos events: reset of a live pool connection, node crash + restart, node addition; a failed call is (2 in 3) followed by a call with the SAME name; then 2..10 candidate names of length 0..60 over an alphabet with quotes, semicolons, whitespace, non-ASCII, each tried twice in a row (both must be rejected). Non-trivial = at least one request frame was checked inside a constrained window. Distinct = distinct (poll-sequence hash, event-log hash).",
        "assumptions": COMMON_ASSUMPTIONS + [
            "oracle: for every request invoked after the governing use_keyspace(k) call returned Ok (governing = last call started before the invocation) and whose frame arrived before the next call started: the connection's keyspace at the mock when the frame arrived is k (lower-cased unless case-sensitive); a candidate name that is not [A-Za-z0-9_]{1,48} makes the call fail and no USE statement containing such a name is ever received by any node",
            "a failed call leaves the keyspace unconstrained until the next success (documented behaviour); a valid but non-existent name may be reported Ok when no pool holds a connection (counted as use_ok_without_any_connection, not judged)",
        ],
        "expected_probes": ["constrained_frames_checked", "Rst", "NodeRestart", "Topology", "invalid_names_tried"],
    },
    "C15": {
        "engine": "dsim",
        "parts": ["C15e", "C15d"],
        "part_engines": {"C15e": "dsim", "C15d": "hsim"},
        "level": "exploration",
        "technique": "deterministic simulation with fault injection (tablet feedback through response payloads under server-side tablet migrations and topology maintenance; reference model = latest-wins list of tablets sent)",
        "rule": "part C15e (engine A, end-to-end): 2..5 nodes x 1..4 shards, a tablet keyspace whose server-side layout (1..8 tablets over the whole ring, rf 1..3, replicas = (node, shard)) is changed 0..5 times during the run (tablet moved, split, merged with its neighbour, or the boundary to its neighbour shifted by exactly one token in either direction so that the new tablet overlaps a known one in one token); 1 in 3 runs a spare node joins the ring mid-run (with or without NEW_NODE event) and becomes a tablet replica before the client knows it (tablets learnt with an unknown replica; a final refresh must resolve them to the full replica list); 10..80 sequential executions of a prepared statement over a small key pool; the mock attaches a tablets-routing-v1 payload exactly when the request reached a non-replica node/shard (as ScyllaDB does) and keeps the reference model of what it has sent (insert = delete overlapping, then add); optionally a node is removed (REMOVED_NODE event) at the end. Non-trivial = at least one payload was sent. Distinct = distinct (poll-sequence hash, event-log hash). Part C15d (hsim, direct history driver over the real TabletsInfo/TableTablets/RawTablet::from_custom_payload through a wrapper): histories of <= 12 steps over a 16-token universe (quick) and up to 200 steps over full i64 (thorough): insert(range, replicas incl. unknown host ids) with every overlap relation (before, adjacent, overlapping left/right, containing, contained, equal, ending at i64::MAX, starting at i64::MIN), rejected payloads (last <= first), and maintenance steps (nodes removed, nodes re-created as new Node objects incl. datacenter change, unknown replicas resolvable or not, table dropped / keyspace no longer tablet-based, second table); after EVERY step every token of the universe is looked up and compared with a plain-vector reference model (oracles c15.lookup, c15.sorted_disjoint, c15.dc_restriction, c15.dc_restriction_dc_change, c15.stale_node, c15.rejected_payload, c15.panic_reresolve_recreated).",
        "assumptions": COMMON_ASSUMPTIONS + [
            "oracles: (1) a request whose token is covered by a tablet the client had learnt before it was submitted goes to a replica node of that tablet and, when the mock sees a pool connection to that shard, on the tablet's shard; (2) after quiescence ClusterState::get_token_endpoints at every boundary +-1 of every sent or server-side tablet and at the extremes equals the reference model (replica host ids and shards in order; nothing where nothing is known or where a later tablet overlapped or the removed node was a replica)",
            "requests are sequential so that 'most recently learnt' is well defined; routing is judged only for requests submitted while the client's published state (ClusterState::get_token_endpoints for the request's token) equals the tablet the model says was learnt - feedback is applied asynchronously; that it is applied at all is decided by the lookup oracle after quiescence",
        ],
        "expected_probes": ["tablet_payload_sent", "routing_checked", "lookups_checked"],
    },
}
